"""E4 - statement-level control-flow graph per function, with labelled edges, reachability with
removed edges (must-pass-through), facts implied by branch edges, reaching definitions and optional
partitioning on a boolean flag variable.
"""
import ast
from .model import AnalysisError, norm, walk_no_nested


class Node:
    __slots__ = ('id', 'kind', 'ast', 'stmt', 'succ', 'pred', 'loop')

    def __init__(self, id_, kind, ast_node=None, stmt=None):
        self.id = id_
        self.kind = kind      # entry exit raise stmt test for handler dispatch with join
        self.ast = ast_node   # statement, or test expression for 'test', or ast.For for 'for'
        self.stmt = stmt      # enclosing statement (== ast for stmt nodes)
        self.succ = []        # (node, label)
        self.pred = []        # (node, label)
        self.loop = None

    @property
    def lineno(self):
        n = self.ast if self.ast is not None else self.stmt
        return getattr(n, 'lineno', 0)

    def __repr__(self):
        txt = norm(self.ast)[:60].replace('\n', ' ') if self.ast is not None else ''
        return f'<{self.id}:{self.kind}@{self.lineno} {txt}>'


def const_truth(expr):
    """True/False if the test is a literal constant, else None."""
    if isinstance(expr, ast.Constant):
        return bool(expr.value)
    return None


class CFG:
    def __init__(self, fn):
        self.fn = fn
        self.nodes = []
        self.entry = self._new('entry')
        self.exit = self._new('exit')
        self.raise_exit = self._new('raise')
        self.by_stmt = {}     # id(ast stmt) -> first node for that statement
        self._loops = []      # (continue_target, break_target_list)
        self._exc = []        # stack of dispatch nodes
        self._finally = []    # stack of finalbody lists (innermost last)
        ends = self._build_body(fn.body, [(self.entry, '')])
        for n, lab in ends:
            self._edge(n, self.exit, lab)

    # -------------------------------------------------------------- construction helpers
    def _new(self, kind, ast_node=None, stmt=None):
        n = Node(len(self.nodes), kind, ast_node, stmt)
        self.nodes.append(n)
        return n

    def _edge(self, a, b, label=''):
        a.succ.append((b, label))
        b.pred.append((a, label))

    def _connect(self, frontier, node):
        for n, lab in frontier:
            self._edge(n, node, lab)

    def _exc_target(self):
        return self._exc[-1] if self._exc else self.raise_exit

    def _build_body(self, body, frontier):
        for st in body:
            frontier = self._build_stmt(st, frontier)
        return frontier

    def _run_finally_then(self, frontier, target, upto=0):
        """Route `frontier` through copies of all enclosing finally bodies (innermost first) to target."""
        for fb in reversed(self._finally[upto:]):
            saved_f, self._finally = self._finally, []
            saved_e, self._exc = self._exc, []
            frontier = self._build_body(fb, frontier)
            self._finally, self._exc = saved_f, saved_e
        for n, lab in frontier:
            self._edge(n, target, lab)

    def _build_stmt(self, st, frontier):
        if not frontier:
            # unreachable code: still build (keeps nodes for lookups) but disconnected
            pass
        if isinstance(st, ast.If):
            t = self._new('test', st.test, st)
            self.by_stmt[id(st)] = t
            self._connect(frontier, t)
            if self._exc:
                self._edge(t, self._exc_target(), 'exc')
            c = const_truth(st.test)
            tf = [(t, 'T')] if c is not False else []
            ff = [(t, 'F')] if c is not True else []
            out = self._build_body(st.body, tf)
            out += self._build_body(st.orelse, ff) if st.orelse else ff
            return out
        if isinstance(st, ast.While):
            t = self._new('test', st.test, st)
            self.by_stmt[id(st)] = t
            self._connect(frontier, t)
            if self._exc:
                self._edge(t, self._exc_target(), 'exc')
            c = const_truth(st.test)
            breaks = []
            self._loops.append((t, breaks, len(self._finally)))
            body_end = self._build_body(st.body, [(t, 'T')] if c is not False else [])
            self._loops.pop()
            for n, lab in body_end:
                self._edge(n, t, lab or 'back')
            ff = [(t, 'F')] if c is not True else []
            out = self._build_body(st.orelse, ff) if st.orelse else ff
            return out + breaks
        if isinstance(st, (ast.For, ast.AsyncFor)):
            t = self._new('for', st, st)
            self.by_stmt[id(st)] = t
            self._connect(frontier, t)
            if self._exc:
                self._edge(t, self._exc_target(), 'exc')
            breaks = []
            self._loops.append((t, breaks, len(self._finally)))
            body_end = self._build_body(st.body, [(t, 'T')])
            self._loops.pop()
            for n, lab in body_end:
                self._edge(n, t, lab or 'back')
            out = self._build_body(st.orelse, [(t, 'F')]) if st.orelse else [(t, 'F')]
            return out + breaks
        if isinstance(st, ast.Try):
            join_in = frontier
            has_finally = bool(st.finalbody)
            if has_finally:
                self._finally.append(st.finalbody)
            dispatch = self._new('dispatch', None, st)
            self.by_stmt[id(st)] = dispatch
            self._exc.append(dispatch)
            body_end = self._build_body(st.body, join_in)
            self._exc.pop()
            if st.orelse:
                body_end = self._build_body(st.orelse, body_end)
            out = list(body_end)
            catch_all = False
            for h in st.handlers:
                hn = self._new('handler', h, st)
                self._edge(dispatch, hn, 'exc')
                if h.type is None or norm(h.type) in ('Exception', 'BaseException'):
                    catch_all = True
                out += self._build_body(h.body, [(hn, '')])
            if has_finally:
                self._finally.pop()
            if not catch_all:
                # exception propagates outwards (through finally, if any)
                if has_finally:
                    saved_f, self._finally = self._finally, []
                    fe = self._build_body(st.finalbody, [(dispatch, 'exc')])
                    self._finally = saved_f
                    for n, lab in fe:
                        self._edge(n, self._exc_target(), 'exc')
                else:
                    self._edge(dispatch, self._exc_target(), 'exc')
            if has_finally:
                out = self._build_body(st.finalbody, out)
            return out
        if isinstance(st, (ast.With, ast.AsyncWith)):
            w = self._new('with', st, st)
            self.by_stmt[id(st)] = w
            self._connect(frontier, w)
            if self._exc:
                self._edge(w, self._exc_target(), 'exc')
            return self._build_body(st.body, [(w, '')])
        if isinstance(st, ast.Match):
            subj = self._new('stmt', st.subject, st)
            self.by_stmt[id(st)] = subj
            self._connect(frontier, subj)
            out = []
            for case in st.cases:
                out += self._build_body(case.body, [(subj, 'case')])
            out.append((subj, 'nomatch'))
            return out
        if isinstance(st, ast.Assert):
            t = self._new('test', st.test, st)
            self.by_stmt[id(st)] = t
            self._connect(frontier, t)
            self._edge(t, self._exc_target(), 'F')
            return [(t, 'T')]
        # simple statements
        n = self._new('stmt', st, st)
        self.by_stmt[id(st)] = n
        self._connect(frontier, n)
        if isinstance(st, ast.Return):
            if self._exc and st.value is not None:
                self._edge(n, self._exc_target(), 'exc')
            self._run_finally_then([(n, '')], self.exit)
            return []
        if isinstance(st, ast.Raise):
            self._edge(n, self._exc_target(), 'exc')
            return []
        if isinstance(st, ast.Break):
            if not self._loops:
                raise AnalysisError('break outside loop')
            _, breaks, depth = self._loops[-1]
            if len(self._finally) > depth:
                j = self._new('join', None, st)
                self._run_finally_then([(n, '')], j, upto=depth)
                breaks.append((j, ''))
            else:
                breaks.append((n, ''))
            return []
        if isinstance(st, ast.Continue):
            if not self._loops:
                raise AnalysisError('continue outside loop')
            head, _, depth = self._loops[-1]
            if len(self._finally) > depth:
                self._run_finally_then([(n, '')], head, upto=depth)
            else:
                self._edge(n, head, 'back')
            return []
        if self._exc:
            self._edge(n, self._exc_target(), 'exc')
        return [(n, '')]

    # -------------------------------------------------------------- queries
    def node_of(self, stmt):
        n = self.by_stmt.get(id(stmt))
        if n is None:
            raise AnalysisError(f'statement not in CFG of {self.fn.key}: {norm(stmt)[:80]}')
        return n

    def stmt_nodes(self, pred=None):
        return [n for n in self.nodes if n.ast is not None and (pred is None or pred(n))]

    def reachable(self, sources, blocked_nodes=(), blocked_edges=(), labels_excluded=()):
        """Forward reachability; blocked_edges is a set of (src_id, dst_id, label)."""
        blocked_nodes = {n.id for n in blocked_nodes}
        blocked_edges = set(blocked_edges)
        seen = set()
        stack = [s for s in sources if s.id not in blocked_nodes]
        while stack:
            n = stack.pop()
            if n.id in seen:
                continue
            seen.add(n.id)
            for m, lab in n.succ:
                if lab in labels_excluded or m.id in blocked_nodes or (n.id, m.id, lab) in blocked_edges:
                    continue
                if m.id not in seen:
                    stack.append(m)
        return seen

    def can_reach(self, src, dst, **kw):
        return dst.id in self.reachable([src], **kw)

    def find_path(self, src, dst, blocked_nodes=(), blocked_edges=(), labels_excluded=()):
        """A shortest path (list of nodes) from src to dst or None."""
        blocked_nodes = {n.id for n in blocked_nodes}
        blocked_edges = set(blocked_edges)
        from collections import deque
        prev = {src.id: None}
        dq = deque([src])
        while dq:
            n = dq.popleft()
            if n is dst:
                path = []
                while n is not None:
                    path.append(n)
                    n = prev[n.id]
                return list(reversed(path))
            for m, lab in n.succ:
                if lab in labels_excluded or m.id in blocked_nodes or (n.id, m.id, lab) in blocked_edges:
                    continue
                if m.id not in prev:
                    prev[m.id] = n
                    dq.append(m)
        return None

    def edges(self):
        for n in self.nodes:
            for m, lab in n.succ:
                yield n, m, lab

    def edges_implying(self, pred):
        """Edges (src_id, dst_id, label) of test nodes on which some fact (atom, truth) with pred(atom, truth)
        is known to hold."""
        out = set()
        for n in self.nodes:
            if n.kind != 'test':
                continue
            for m, lab in n.succ:
                if lab not in ('T', 'F'):
                    continue
                for atom, truth in implied_facts(n.ast, lab == 'T'):
                    if pred(atom, truth):
                        out.add((n.id, m.id, lab))
                        break
        return out

    def dominators(self):
        """node id -> set of dominator node ids (iterative)."""
        reach = self.reachable([self.entry])
        ids = [n.id for n in self.nodes if n.id in reach]
        dom = {i: set(ids) for i in ids}
        dom[self.entry.id] = {self.entry.id}
        changed = True
        while changed:
            changed = False
            for i in ids:
                if i == self.entry.id:
                    continue
                preds = [p.id for p, _ in self.nodes[i].pred if p.id in reach]
                new = set(ids)
                for p in preds:
                    new &= dom[p]
                new = new | {i}
                if new != dom[i]:
                    dom[i] = new
                    changed = True
        return dom


def implied_facts(test, truth):
    """Atomic facts (expr, bool) known to hold when `test` evaluated to `truth`."""
    if isinstance(test, ast.UnaryOp) and isinstance(test.op, ast.Not):
        return implied_facts(test.operand, not truth)
    if isinstance(test, ast.BoolOp):
        if isinstance(test.op, ast.And) and truth:
            out = []
            for v in test.values:
                out += implied_facts(v, True)
            return out
        if isinstance(test.op, ast.Or) and not truth:
            out = []
            for v in test.values:
                out += implied_facts(v, False)
            return out
        return [(test, truth)]
    return [(test, truth)]


# ---------------------------------------------------------------------- definitions / uses

def target_names(t):
    """Plain names bound by an assignment target."""
    if isinstance(t, ast.Name):
        return [t.id]
    if isinstance(t, (ast.Tuple, ast.List)):
        out = []
        for e in t.elts:
            out += target_names(e)
        return out
    if isinstance(t, ast.Starred):
        return target_names(t.value)
    return []


def node_defs(n):
    """Names (re)bound at a CFG node."""
    a = n.ast
    out = []
    if n.kind == 'stmt':
        if isinstance(a, ast.Assign):
            for t in a.targets:
                out += target_names(t)
        elif isinstance(a, (ast.AugAssign, ast.AnnAssign)):
            if not (isinstance(a, ast.AnnAssign) and a.value is None):
                out += target_names(a.target)
        elif isinstance(a, (ast.FunctionDef, ast.AsyncFunctionDef, ast.ClassDef)):
            out.append(a.name)
        elif isinstance(a, (ast.Import, ast.ImportFrom)):
            for al in a.names:
                out.append((al.asname or al.name).split('.')[0])
        elif isinstance(a, ast.Delete):
            for t in a.targets:
                out += target_names(t)
    elif n.kind == 'for':
        out += target_names(a.target)
    elif n.kind == 'with':
        for it in a.items:
            if it.optional_vars is not None:
                out += target_names(it.optional_vars)
    elif n.kind == 'handler':
        if a.name:
            out.append(a.name)
    # walrus
    if a is not None and n.kind in ('stmt', 'test'):
        for sub in walk_no_nested(a):
            if isinstance(sub, ast.NamedExpr):
                out += target_names(sub.target)
    return out


def node_exprs(n):
    """Expressions evaluated at a CFG node (for uses)."""
    a = n.ast
    if a is None:
        return []
    if n.kind == 'for':
        return [a.iter]
    if n.kind == 'with':
        return [it.context_expr for it in a.items]
    if n.kind == 'handler':
        return [a.type] if a.type is not None else []
    if n.kind in ('test',):
        return [a]
    if isinstance(a, (ast.FunctionDef, ast.AsyncFunctionDef, ast.ClassDef)):
        return list(a.decorator_list)
    return [a]


def names_used(expr):
    return {x.id for x in walk_no_nested(expr, include_lambda_bodies=True) if isinstance(x, ast.Name)
            and isinstance(x.ctx, ast.Load)}


class ReachingDefs:
    """Classic reaching definitions on a CFG.  A definition is (name, node id); parameters are defined at
    the entry node."""

    def __init__(self, cfg):
        self.cfg = cfg
        fn = cfg.fn
        gen = {}
        for n in cfg.nodes:
            gen[n.id] = set(node_defs(n))
        gen[cfg.entry.id] = set(fn.params)
        self.gen = gen
        IN = {n.id: set() for n in cfg.nodes}
        OUT = {n.id: set() for n in cfg.nodes}
        work = list(cfg.nodes)
        inwork = {n.id for n in work}
        while work:
            n = work.pop()
            inwork.discard(n.id)
            new_in = set()
            for p, _ in n.pred:
                new_in |= OUT[p.id]
            IN[n.id] = new_in
            g = gen[n.id]
            new_out = {(nm, d) for (nm, d) in new_in if nm not in g} | {(nm, n.id) for nm in g}
            if new_out != OUT[n.id]:
                OUT[n.id] = new_out
                for s, _ in n.succ:
                    if s.id not in inwork:
                        work.append(s)
                        inwork.add(s.id)
        self.IN, self.OUT = IN, OUT

    def defs_of(self, name, at_node):
        """CFG nodes whose definition of `name` reaches the *entry* of at_node."""
        return [self.cfg.nodes[d] for (nm, d) in self.IN[at_node.id] if nm == name]


def build_cfg(fn, _cache={}):
    k = id(fn)
    c = _cache.get(k)
    if c is None or c[0] is not fn:
        c = (fn, CFG(fn))
        _cache[k] = c
    return c[1]


def build_rd(fn, _cache={}):
    k = id(fn)
    c = _cache.get(k)
    if c is None or c[0] is not fn:
        c = (fn, ReachingDefs(build_cfg(fn)))
        _cache[k] = c
    return c[1]


# ---------------------------------------------------------------------- flag-partitioned reachability

def flag_partitioned_reach(cfg, flag, sources_with_state, blocked_nodes=(), blocked_edges=()):
    """Reachability over (node, value of boolean `flag`) pairs, value in {True, False, None=unknown}.

    Transfer: `flag = True/False` sets the value, any other assignment to flag -> unknown; an edge that
    implies (flag, truth) is only followed when the state does not contradict it and refines the state.
    Returns the set of (node id, state)."""
    blocked_nodes = {n.id for n in blocked_nodes}
    blocked_edges = set(blocked_edges)

    def transfer(n, state):
        if flag in node_defs(n):
            a = n.ast
            if n.kind == 'stmt' and isinstance(a, ast.Assign) and len(a.targets) == 1 and \
                    isinstance(a.targets[0], ast.Name) and isinstance(a.value, ast.Constant) and \
                    isinstance(a.value.value, bool):
                return a.value.value
            return None
        return state

    seen = set()
    stack = [(n, s) for n, s in sources_with_state if n.id not in blocked_nodes]
    while stack:
        n, st = stack.pop()
        if (n.id, st) in seen:
            continue
        seen.add((n.id, st))
        out_state = transfer(n, st)
        for m, lab in n.succ:
            if m.id in blocked_nodes or (n.id, m.id, lab) in blocked_edges:
                continue
            ns = out_state
            if n.kind == 'test' and lab in ('T', 'F'):
                ok = True
                for atom, truth in implied_facts(n.ast, lab == 'T'):
                    if isinstance(atom, ast.Name) and atom.id == flag:
                        if ns is not None and ns != truth:
                            ok = False
                            break
                        ns = truth
                if not ok:
                    continue
            if (m.id, ns) not in seen:
                stack.append((m, ns))
    return seen


# ---------------------------------------------------------------------- generic path-sensitive exploration

def explore(cfg, sources_with_state, step, blocked_nodes=(), blocked_edges=(), labels_excluded=(), cap=200000):
    """Reachability over (node, state).  step(n, m, label, state) -> new state, or the sentinel INFEASIBLE
    when the edge cannot be taken in that state.  States must be hashable.  Returns set of (node id, state)."""
    blocked_nodes = {n.id for n in blocked_nodes}
    blocked_edges = set(blocked_edges)
    seen = set()
    stack = [(n, s) for n, s in sources_with_state if n.id not in blocked_nodes]
    while stack:
        n, st = stack.pop()
        if (n.id, st) in seen:
            continue
        seen.add((n.id, st))
        if len(seen) > cap:
            raise AnalysisError('path-sensitive exploration exceeded its state cap')
        for m, lab in n.succ:
            if lab in labels_excluded or m.id in blocked_nodes or (n.id, m.id, lab) in blocked_edges:
                continue
            ns = step(n, m, lab, st)
            if ns is INFEASIBLE:
                continue
            if (m.id, ns) not in seen:
                stack.append((m, ns))
    return seen


INFEASIBLE = object()


def nonempty_loops(cfg):
    """`for` nodes known to iterate at least once: the iterated container X (also X.items() / .values() /
    .keys() / enumerate(X) / list(X)) is tested for emptiness by a test that dominates the loop, the
    "X is empty" edge of that test cannot reach the loop (it returns / raises), and X is not re-bound between
    the test and the loop.  Returns {for-node id: container name}."""
    out = {}
    dom = None
    for n in cfg.nodes:
        if n.kind != 'for':
            continue
        it = n.ast.iter
        if isinstance(it, ast.Call) and isinstance(it.func, ast.Attribute) and \
                it.func.attr in ('items', 'values', 'keys') and not it.args:
            it = it.func.value
        elif isinstance(it, ast.Call) and isinstance(it.func, ast.Name) and it.func.id in ('enumerate', 'list') \
                and it.args:
            it = it.args[0]
        if not isinstance(it, ast.Name):
            continue
        name = it.id
        for t in cfg.nodes:
            if t.kind != 'test' or out.get(n.id):
                continue
            for m, lab in t.succ:
                if lab not in ('T', 'F'):
                    continue
                if not any(_is_empty_fact(atom, truth, name) for atom, truth in implied_facts(t.ast, lab == 'T')):
                    continue
                if n.id in cfg.reachable([m]):
                    continue
                if dom is None:
                    dom = cfg.dominators()
                if t.id not in dom.get(n.id, ()):
                    continue
                after_t = cfg.reachable([t])
                rebound = False
                for k in cfg.nodes:
                    if k is n or k.id not in after_t or name not in node_defs(k):
                        continue
                    if n.id in cfg.reachable([k]):
                        rebound = True
                        break
                if not rebound:
                    out[n.id] = name
    return out


def _is_empty_fact(atom, truth, name):
    # len(X) == 0 true ; len(X) > 0 false ; len(X) != 0 false; not X -> (X, False)
    if isinstance(atom, ast.Name) and atom.id == name:
        return truth is False
    if isinstance(atom, ast.Compare) and len(atom.ops) == 1:
        l, op, r = atom.left, atom.ops[0], atom.comparators[0]
        if isinstance(l, ast.Call) and isinstance(l.func, ast.Name) and l.func.id == 'len' and l.args and \
                isinstance(l.args[0], ast.Name) and l.args[0].id == name and isinstance(r, ast.Constant):
            if r.value == 0:
                if isinstance(op, ast.Eq):
                    return truth is True
                if isinstance(op, (ast.Gt, ast.NotEq)):
                    return truth is False
            if r.value == 1 and isinstance(op, ast.Lt):
                return truth is True
            if r.value == 1 and isinstance(op, ast.GtE):
                return truth is False
    return False
