"""E7 - obligations, known findings, evidence, exit codes."""
import json
import os
import time

from .model import AnalysisError, norm

VERIF = os.path.dirname(os.path.dirname(os.path.abspath(__file__)))
KNOWN_FILE = os.path.join(VERIF, 'known_findings.json')
EVIDENCE_DIR = os.environ.get('SA_EVIDENCE_DIR') or os.path.join(VERIF, 'evidence')   # override: development runs on scratch copies


class Obligation:
    __slots__ = ('rule', 'key', 'ok', 'where', 'desc', 'detail', 'nontrivial')

    def __init__(self, rule, key, ok, where, desc, detail='', nontrivial=True):
        self.rule = rule
        self.key = key          # construct key: module:qualname:rule-specific normalised text
        self.ok = ok
        self.where = where      # file:line
        self.desc = desc        # what is required
        self.detail = detail    # what was found (path, chain, ...)
        self.nontrivial = nontrivial

    def as_dict(self):
        return {'rule': self.rule, 'construct': self.key, 'verdict': 'discharged' if self.ok else 'VIOLATED',
                'where': self.where, 'requires': self.desc, 'found': self.detail}


class Ctx:
    """Per-run context handed to the property modules."""

    def __init__(self, prog, cg, prop_id, tier):
        self.prog = prog
        self.cg = cg
        self.types = cg.types
        self.prop = prop_id
        self.tier = tier
        self.obs = []
        self.notes = []
        self.floors = {}
        self.analysed_functions = set()
        self.tables = {}       # exception-table entries actually used: name -> reason
        self._keys = {}

    def fn(self, key):
        f = self.prog.func(key)
        self.analysed_functions.add(f.key)
        return f

    def touch(self, fn):
        self.analysed_functions.add(fn.key)

    def ob(self, rule, key, ok, where, desc, detail='', nontrivial=True):
        # identical constructs in one function get an ordinal so that keys stay unique
        n = self._keys.get((rule, key), 0)
        self._keys[(rule, key)] = n + 1
        if n:
            key = f'{key}#{n}'
        self.obs.append(Obligation(rule, key, bool(ok), where, desc, detail, nontrivial))
        return bool(ok)

    def note(self, msg):
        self.notes.append(msg)

    def floor(self, rule, n, what=''):
        """Declare the hand-confirmed minimum number of instances for a rule (vacuity guard)."""
        self.floors[rule] = (n, what)

    def used_exception(self, table, symbol, reason):
        self.tables[f'{table}:{symbol}'] = reason


def fkey(fn, rule, text):
    return f'{fn.key}:{rule}:{text}'


def load_known():
    if not os.path.exists(KNOWN_FILE):
        return []
    with open(KNOWN_FILE) as fp:
        return json.load(fp).get('findings', [])


def finish(ctx, t0, seed=0, extra_cov=None, selftest=None):
    """Evaluate obligations against known findings, write evidence, print the report; returns exit code."""
    prop = ctx.prop
    known = [k for k in load_known() if k.get('status') == 'known']
    known_idx = {(k['rule'], k['construct']): k for k in known}
    violations = []
    known_hits = []
    for o in ctx.obs:
        if o.ok:
            continue
        k = known_idx.get((o.rule, o.key))
        if k is not None and prop in k.get('properties', [k.get('property')]):
            known_hits.append((o, k))
        else:
            violations.append(o)

    # vacuity guard
    counts = {}
    for o in ctx.obs:
        counts[o.rule] = counts.get(o.rule, 0) + 1
    for rule, (n, what) in ctx.floors.items():
        if counts.get(rule, 0) < n:
            raise AnalysisError(f'rule {rule} matched {counts.get(rule, 0)} instances, fewer than the '
                                f'hand-confirmed floor {n} ({what}): the rule no longer sees the code it was '
                                f'written for')

    distinct = len({(o.rule, o.key) for o in ctx.obs if o.nontrivial})
    n_call, tags = ctx.cg.stats() if ctx.tier == 'thorough' else (None, None)
    samples = [o.as_dict() for o in (violations + [o for o, _ in known_hits])][:10]
    per_rule = {}
    for o in ctx.obs:
        per_rule.setdefault(o.rule, o)
    samples += [o.as_dict() for o in per_rule.values() if o.ok][:12]
    cov = {
        'explanation': PROP_EXPLANATION.get(prop, '') or 'static analysis of the current source tree',
        'obligations': len(ctx.obs),
        'discharged': sum(1 for o in ctx.obs if o.ok),
        'evaluations': len(ctx.obs),
        'distinct_nontrivial': distinct,
        'rule': 'one obligation per (rule, construct) discovered in the parsed source; distinct = distinct '
                '(rule, construct key) pairs, non-trivial = the construct exists in the code and the rule had '
                'to inspect its control/data flow (table look-ups and informational notes are not counted)',
        'samples': samples,
        'instances_per_rule': counts,
        'floors': {r: n for r, (n, _) in ctx.floors.items()},
        'modules_parsed': len(ctx.prog.modules),
        'functions_in_program': len(ctx.prog.all_functions()),
        'functions_analysed': sorted(ctx.analysed_functions),
        'source_digest': ctx.prog.digest(),
        'exception_table_entries_used': ctx.tables,
        'known_findings_matched': [{'rule': o.rule, 'construct': o.key} for o, _ in known_hits],
        'notes': ctx.notes[:50],
        'exhaustive': True,
    }
    if n_call is not None:
        cov['call_sites'] = n_call
        cov['call_resolution'] = tags
    if extra_cov:
        cov.update(extra_cov)
    if selftest is not None:
        cov['selftest'] = selftest
    ev = {
        'property_id': prop,
        'tier': ctx.tier,
        'seed': int(seed),
        'level': 'other',
        'coverage': cov,
        'assumptions': ASSUMPTIONS,
        'wall_s': round(time.time() - t0, 3),
        'violations': len(violations),
    }
    os.makedirs(EVIDENCE_DIR, exist_ok=True)
    with open(os.path.join(EVIDENCE_DIR, f'{prop}.json'), 'w') as fp:
        json.dump(ev, fp, indent=1, default=str)

    print(f'[{prop}] tier={ctx.tier} modules={len(ctx.prog.modules)} functions={len(ctx.prog.all_functions())} '
          f'analysed_functions={len(ctx.analysed_functions)} obligations={len(ctx.obs)} '
          f'discharged={cov["discharged"]} rules={counts}')
    for o, k in known_hits:
        print(f'KNOWN-FINDING: property={prop} {o.rule} {o.key} -- {k.get("what_fails", "")}')
    if violations:
        vpath = os.path.join(EVIDENCE_DIR, f'{prop}.violations.json')
        with open(vpath, 'w') as fp:
            json.dump([o.as_dict() for o in violations], fp, indent=1, default=str)
        for o in violations:
            print(f'  {o.where} {o.rule} {o.key}\n      requires: {o.desc}\n      found:    {o.detail}')
        print(f'VIOLATION property={prop} replay={vpath}')
        return 1
    return 0


ASSUMPTIONS = [
    'decides the named structural clauses (necessary conditions) of the property on the parsed source, not the '
    'behaviour itself',
    'Python semantics of the analysed constructs as modelled by the checker (statement-level CFG, '
    'flow-insensitive receiver types from annotations/constructors, class-hierarchy dispatch)',
    'no dynamic dispatch through getattr/exec, no monkey-patching of adsg_core at run time',
    'third-party libraries (numpy, networkx, pandas, numba) behave as documented',
]

PROP_EXPLANATION = {}
