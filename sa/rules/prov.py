"""E5 - provenance / may-alias analysis.

Forward data-flow over the statement CFG.  Every local name carries a set of provenance tags:

  'fresh'              created in this call (constructor, copy, arithmetic, literal, external call)
  'none'               the constant None
  ('self', path)       the receiver object of the analysed method or something reachable from it
                       (self.attr, elements of self.attr, ...): persistent iff the receiver is
  ('persist', desc)    an object known to outlive the call (bound from persistent state at a call site, or a
                       callee's self-rooted object when the callee's receiver is persistent)
  ('param', name)      the object passed as parameter `name` (or something reachable from it)

Branch edges refine the state (`x is None` / `x is not None`), `assume` fixes the value of boolean
parameters (e.g. inplace=False).  Calls of repository functions use return summaries
(`ret_prov`), computed on demand; formal parameters additionally carry the persistent objects bound to them
at the call sites of the analysed slice (`bind`).
"""
import ast

from ..model import norm, walk_no_nested, ClassInfo
from ..cfg import build_cfg, node_defs, implied_facts, target_names
from ..astutil import short, call_name

FRESH, NONE = 'fresh', 'none'
COPY_METHODS = {'copy', 'astype', 'tolist', 'flatten', 'deepcopy', 'union', 'intersection', 'difference',
                'format', 'join', 'split', 'reshape_copy', 'items', 'keys', 'values'}
COPY_FUNCS = {'list', 'set', 'dict', 'tuple', 'sorted', 'frozenset', 'len', 'int', 'float', 'str', 'bool', 'sum',
              'min', 'max', 'any', 'all', 'range', 'enumerate', 'zip', 'hash', 'id', 'isinstance', 'repr', 'abs',
              'round', 'OrderedDict', 'reversed', 'map', 'filter', 'type', 'hasattr', 'print', 'iter'}
ELEM_METHODS = {'get', 'pop', 'setdefault', '__getitem__'}
MUTATORS = {'append', 'add', 'extend', 'update', 'pop', 'remove', 'discard', 'clear', 'insert', 'setdefault',
            'popitem', 'sort', 'reverse', 'fill', 'put', 'resize', 'itemset', 'add_edge', 'add_node',
            'add_edges_from', 'add_nodes_from', 'remove_edges_from', 'remove_nodes_from', 'remove_node',
            'remove_edge', 'difference_update', 'intersection_update', 'symmetric_difference_update',
            'move_to_end', '__setitem__', '__delitem__'}


def is_persist(tag):
    return isinstance(tag, tuple) and tag[0] == 'persist'


def is_self(tag):
    return isinstance(tag, tuple) and tag[0] == 'self'


def is_heap(tag):
    return isinstance(tag, tuple) and tag[0] in ('persist', 'self')


def is_fresh_of(tag):
    """('fresh_of', frozenset(tags)): a container created in this call whose *elements* carry the given tags."""
    return isinstance(tag, tuple) and tag[0] == 'fresh_of'


def _depth(t):
    return 1 + max([_depth(x) for x in t[1]] + [0]) if is_fresh_of(t) else 0


def fresh_of(elem_tags):
    """Nested containers keep their nesting (an element of a fresh list of fresh lists is a fresh list); beyond
    depth 3 the inner levels are flattened."""
    inner = set()
    for t in elem_tags:
        if is_fresh_of(t):
            if _depth(t) >= 3:
                inner |= {x for x in t[1] if not is_fresh_of(x)}
            else:
                inner.add(t)
        elif is_heap(t) or is_param(t):
            inner.add(t)
    return ('fresh_of', frozenset(inner)) if inner else FRESH


def is_param(tag):
    return isinstance(tag, tuple) and tag[0] == 'param'


class Prov:
    def __init__(self, ctx, assume=None):
        self.ctx = ctx
        self.prog = ctx.prog
        self.cg = ctx.cg
        self.assume = assume or {}
        self.bind = {}          # (fn, param) -> set of persist tags bound at call sites
        self._ret = {}
        self._busy = set()
        self._states = {}
        self._gassume = {}
        self._nonlocal_vals = {}
        self.persistent_self = {}   # fn -> reached with a persistent receiver

    # ------------------------------------------------------------------ expression provenance
    def of(self, e, st, fn):
        if e is None:
            return {NONE}
        if isinstance(e, ast.Constant):
            return {NONE} if e.value is None else {FRESH}
        if isinstance(e, ast.Name):
            if e.id in st:
                return set(st[e.id])
            return self._free(e.id, fn)
        if isinstance(e, ast.Attribute):
            if isinstance(e.value, ast.Name) and e.value.id == 'self' and fn.owner_class is not None:
                return self._self_attr(e.attr, fn, st)
            base = self.of(e.value, st, fn)
            if e.attr == '__dict__':
                return {t for t in base if t != NONE} or {FRESH}
            # property of a repository class: use its summary
            out = set()
            ts = self.ctx.types.of(e.value, fn)
            props = []
            for t in ts:
                if t[0] == 'cls':
                    for m in self.prog.dispatch_targets(t[1], e.attr):
                        if m.is_property:
                            props.append(m)
            if props:
                for m in props:
                    if self.is_cached_prop(m):
                        out |= {self._field(t, e.attr) for t in base if t != NONE} or {FRESH}
                    else:
                        out |= self._map_summary(self.ret_prov(m), m, base, [], {}, st, fn)
                return out
            return {self._field(t, e.attr) for t in base if t != NONE} or {FRESH}
        if isinstance(e, ast.Subscript):
            base = self.of(e.value, st, fn)
            if isinstance(e.slice, ast.Slice):
                return {t for t in base if t != NONE} or {FRESH}
            return self._elem(base)
        if isinstance(e, (ast.ListComp, ast.SetComp, ast.GeneratorExp, ast.DictComp)):
            st2 = dict(st)
            for g in e.generators:
                el = self._elem(self.of(g.iter, st2, fn))
                it = g.iter
                if isinstance(it, ast.Call) and call_name(it) in ('enumerate', 'zip', 'items', 'values', 'keys') and \
                        (it.args or isinstance(it.func, ast.Attribute)):
                    srcs = list(it.args) + ([it.func.value] if isinstance(it.func, ast.Attribute) else [])
                    el = set()
                    for s_ in srcs:
                        el |= self._elem(self.of(s_, st2, fn))
                    el |= {FRESH}
                for nm in target_names(g.target):
                    st2[nm] = frozenset(el)
            elts = [e.value] if isinstance(e, ast.DictComp) else [e.elt]
            tags = set()
            for x in elts:
                tags |= self.of(x, st2, fn)
            return {fresh_of(tags)}
        if isinstance(e, (ast.List, ast.Set, ast.Tuple)):
            tags = set()
            for x in e.elts:
                tags |= self.of(x, st, fn)
            return {fresh_of(tags)}
        if isinstance(e, ast.Dict):
            tags = set()
            for x in e.values:
                if x is not None:
                    tags |= self.of(x, st, fn)
            return {fresh_of(tags)}
        if isinstance(e, ast.IfExp):
            asm = self.assume_for(fn)
            if isinstance(e.test, ast.Name) and e.test.id in asm:
                return self.of(e.body if asm[e.test.id] else e.orelse, st, fn)
            if isinstance(e.test, ast.UnaryOp) and isinstance(e.test.op, ast.Not) and \
                    isinstance(e.test.operand, ast.Name) and e.test.operand.id in asm:
                return self.of(e.orelse if asm[e.test.operand.id] else e.body, st, fn)
            return self.of(e.body, st, fn) | self.of(e.orelse, st, fn)
        if isinstance(e, ast.BoolOp):
            out = set()
            for v in e.values:
                out |= self.of(v, st, fn)
            return out
        if isinstance(e, ast.NamedExpr):
            return self.of(e.value, st, fn)
        if isinstance(e, ast.Call):
            return self._call(e, st, fn)
        if isinstance(e, ast.Starred):
            return self.of(e.value, st, fn)
        return {FRESH}

    @staticmethod
    def _field(tag, what):
        if is_fresh_of(tag):
            # handled by _elem (may yield several tags); attribute access on the container itself is fresh
            return FRESH
        if is_heap(tag):
            return tag if what == '[]' and tag[1].endswith('[]') else (tag[0], tag[1] + ('[]' if what == '[]'
                                                                                       else '.' + what))
        if is_param(tag):
            return tag
        return FRESH

    def _elem(self, tags):
        """Provenance of an element of a container with the given provenance."""
        out = set()
        for t in tags:
            if t == NONE:
                continue
            if is_fresh_of(t):
                out |= set(t[1])
            else:
                out.add(self._field(t, '[]'))
        return out or {FRESH}

    def _self_attr(self, attr, fn, st):
        cls = fn.owner_class
        targets = [m for m in self.prog.dispatch_targets(cls, attr) if m.is_property]
        if targets:
            out = set()
            for m in targets:
                if self.is_cached_prop(m):
                    out.add(('self', f'self.{attr}'))
                else:
                    out |= self._map_summary(self.ret_prov(m), m, {('self', 'self')}, [], {}, st, fn)
            return out
        if self.prog.find_method(cls, attr) is not None:
            return {FRESH}
        return {('self', f'self.{attr}')}

    def _free(self, name, fn):
        """Free variable of a nested function: flow-insensitive union over the enclosing function."""
        g = fn.parent
        while g is not None:
            if name in g.params or any(name in node_defs(n) for n in build_cfg(g).nodes):
                out = set()
                states = self.states(g)
                cfg = build_cfg(g)
                for n in cfg.nodes:
                    stn = states.get(n.id)
                    if stn and name in stn:
                        out |= stn[name]
                # assignments made by nested functions that declare the name `nonlocal` (they persist across
                # calls of the nested function)
                for h in self._nested_all(g):
                    if name in self._nonlocals(h):
                        hs = self._nonlocal_vals.get((h, name))
                        if hs:
                            out |= hs
                return out or {FRESH}
            g = g.parent
        return {FRESH}

    def _nested_all(self, g):
        out = []
        stack = list(g.nested.values())
        while stack:
            h = stack.pop()
            out.append(h)
            stack += list(h.nested.values())
        return out

    @staticmethod
    def _nonlocals(h):
        names = set()
        if isinstance(h.node, ast.Lambda):
            return names
        for s_ in walk_no_nested(ast.Module(body=list(h.node.body), type_ignores=[])):
            if isinstance(s_, ast.Nonlocal):
                names |= set(s_.names)
        return names

    def _call(self, call, st, fn):
        f = call.func
        name = call_name(call)
        if isinstance(f, ast.Name) and f.id in COPY_FUNCS and self.prog.resolve(fn.module, f.id) is None:
            if f.id in ('list', 'set', 'tuple', 'sorted', 'frozenset', 'reversed', 'dict', 'OrderedDict', 'iter') \
                    and call.args:
                return {fresh_of(self._elem(self.of(call.args[0], st, fn)))}
            return {FRESH}
        if isinstance(f, ast.Attribute):
            recv = self.of(f.value, st, fn)
            if name in COPY_METHODS and not self._repo_targets(call, fn):
                if name in ('copy', 'items', 'keys', 'values', 'union', 'intersection', 'difference'):
                    return {fresh_of(self._elem(recv))}
                return {FRESH}
            if name in ELEM_METHODS and not self._repo_targets(call, fn):
                return self._elem(recv)
        else:
            recv = set()
        targets = self._repo_targets(call, fn)
        if not targets:
            return {FRESH}
        if self.is_ctor_call(call, fn):
            return {FRESH}
        out = set()
        for t in targets:
            summ = self.ret_prov(t)
            out |= self._map_summary(summ, t, recv, call.args, {kw.arg: kw.value for kw in call.keywords if kw.arg},
                                     st, fn)
        return out or {FRESH}

    @staticmethod
    def is_cached_prop(m):
        """cached_property memoises the value on the instance: the value is as persistent as the instance."""
        return any(d.split('.')[-1] == 'cached_property' for d in m.decorators)

    def is_ctor_call(self, call, fn):
        for s in self.cg.sites(fn):
            if s.node is call:
                if s.tag == 'ctor':
                    return True
                if s.targets and all(t.name == '__init__' for t in s.targets) and call_name(call) != '__init__':
                    return True
        return False

    def assume_for(self, fn):
        """Explicit assumptions plus boolean parameters whose constant default is never overridden by any
        resolved call site in the repository."""
        a = self._gassume.get(fn)
        if a is not None:
            return a
        a = dict(self.assume)
        self._gassume[fn] = a
        node = fn.node
        if isinstance(node, ast.Lambda):
            return a
        params = fn.params
        off = 1 if (fn.cls is not None and not fn.is_static and params) else 0
        for p in params:
            d = fn.param_default(p)
            if d is None or not isinstance(d, ast.Constant) or not isinstance(d.value, bool) or p in a:
                continue
            overridden = False
            pos = params.index(p) - off
            group = [fn]
            if fn.cls is not None:
                # overriding / overridden methods share call sites
                for c in self.prog.subclasses(fn.cls) + self.prog.mro(fn.cls)[1:]:
                    if fn.name in c.methods:
                        group.append(c.methods[fn.name])
            for g in group:
                for s in self.cg.callers(g):
                    if s.kind != 'call':
                        continue
                    c = s.node
                    if any(kw.arg == p or kw.arg is None for kw in c.keywords) or len(c.args) > pos or \
                            any(isinstance(x, ast.Starred) for x in c.args):
                        overridden = True
            if not overridden:
                a[p] = d.value
        return a

    def _repo_targets(self, call, fn):
        for s in self.cg.sites(fn):
            if s.node is call:
                if s.tag in ('exact', 'typed', 'closure', 'ctor'):
                    return s.targets
                return []
        return []

    def _map_summary(self, summ, callee, recv, args, kwargs, st, fn, position=None):
        """Translate a callee summary (tags relative to the callee) into the caller's terms."""
        tags = set()
        if isinstance(summ, list):
            for s in summ:
                tags |= s
        else:
            tags = set(summ)
        out = set()
        params = callee.params
        has_self = callee.cls is not None and not callee.is_static and params
        for t in tags:
            if is_persist(t):
                out.add(t)
            elif is_self(t):
                # relative to the callee's receiver -> relative to the caller's view of the receiver
                if not has_self and callee.parent is not None:
                    out.add(t)          # nested function: shares the enclosing method's self
                    continue
                mapped = False
                for r in recv:
                    if is_heap(r):
                        out.add((r[0], (r[1] + '>' + t[1])[-120:]))
                        mapped = True
                    elif is_param(r):
                        out.add(r)
                        mapped = True
                    elif r == FRESH:
                        out.add(FRESH)
                        mapped = True
                if not mapped:
                    out.add(FRESH if recv else t)
            elif is_param(t):
                pname = t[1]
                if has_self and pname == params[0]:
                    out |= {r for r in recv if r != NONE} or {FRESH}
                    continue
                pos = params.index(pname) - (1 if has_self else 0) if pname in params else None
                if pname in kwargs:
                    out |= self.of(kwargs[pname], st, fn)
                elif pos is not None and 0 <= pos < len(args):
                    out |= self.of(args[pos], st, fn)
                else:
                    d = callee.param_default(pname)
                    out |= {NONE} if d is not None and isinstance(d, ast.Constant) and d.value is None else {FRESH}
            else:
                out.add(t)
        return out

    # ------------------------------------------------------------------ summaries
    def ret_prov(self, fn):
        """Provenance of the returned value: a set of tags, or a list of sets when every return is an n-tuple."""
        if fn in self._ret:
            return self._ret[fn]
        if fn in self._busy:
            return {FRESH}
        self._busy.add(fn)
        try:
            cfg = build_cfg(fn)
            states = self.states(fn)
            singles = []
            tuples = []
            is_gen = False
            for n in cfg.nodes:
                if n.kind != 'stmt':
                    continue
                for sub in walk_no_nested(n.ast):
                    if isinstance(sub, (ast.Yield, ast.YieldFrom)):
                        is_gen = True
                if isinstance(n.ast, ast.Return):
                    st = states.get(n.id)
                    if st is None:
                        continue
                    v = n.ast.value
                    if isinstance(v, ast.Tuple) and not any(isinstance(x, ast.Starred) for x in v.elts):
                        tuples.append([self.of(x, st, fn) for x in v.elts])
                    else:
                        singles.append(self.of(v, st, fn))
            if is_gen:
                res = {FRESH}
            elif tuples and not singles and len({len(t) for t in tuples}) == 1:
                res = [set().union(*[t[i] for t in tuples]) for i in range(len(tuples[0]))]
            else:
                res = set()
                for s in singles:
                    res |= s
                for t in tuples:
                    for s in t:
                        res |= s
                if not res:
                    res = {NONE}
            self._ret[fn] = res
            return res
        finally:
            self._busy.discard(fn)

    # ------------------------------------------------------------------ per-function forward analysis
    def entry_state(self, fn):
        st = {}
        for i, p in enumerate(fn.params):
            if i == 0 and fn.cls is not None and not fn.is_static:
                st[p] = frozenset({('self', 'self')})
                continue
            tags = {('param', p)} | set(self.bind.get((fn, p), ()))
            if p in self.assume_for(fn):
                tags = {FRESH}
            st[p] = frozenset(tags)
        return st

    def states(self, fn):
        """node id -> {name: frozenset(tags)} at node *entry* (None for unreachable nodes)."""
        key = (fn, tuple(sorted((k, tuple(sorted(map(str, v)))) for (f, k), v in self.bind.items() if f is fn)))
        if key in self._states:
            return self._states[key]
        cfg = build_cfg(fn)
        IN = {cfg.entry.id: self.entry_state(fn)}
        self._states[key] = IN      # recursion guard: partial result
        work = [cfg.entry]
        guard = 0
        while work and guard < 20000:
            guard += 1
            n = work.pop()
            st = IN.get(n.id)
            if st is None:
                continue
            out = self._transfer(n, st, fn)
            for m, lab in n.succ:
                st2 = self._refine(n, lab, out, fn)
                if st2 is None:
                    continue
                old = IN.get(m.id)
                if old is None:
                    IN[m.id] = dict(st2)
                    work.append(m)
                else:
                    changed = False
                    for k, v in st2.items():
                        if k not in old:
                            old[k] = v
                            changed = True
                        elif not v <= old[k]:
                            old[k] = old[k] | v
                            changed = True
                    if changed:
                        work.append(m)
        nl = self._nonlocals(fn)
        if nl:
            changed_any = False
            for name in nl:
                vals = set()
                for stn in IN.values():
                    if stn and name in stn:
                        vals |= {t for t in stn[name]}
                old = self._nonlocal_vals.get((fn, name), set())
                if not vals <= old:
                    self._nonlocal_vals[(fn, name)] = old | vals
                    changed_any = True
            if changed_any and not getattr(self, '_rerun_guard', False):
                self._rerun_guard = True
                try:
                    del self._states[key]
                    return self.states(fn)
                finally:
                    self._rerun_guard = False
        return IN

    def _refine(self, n, lab, st, fn):
        if n.kind != 'test' or lab not in ('T', 'F'):
            return st
        st2 = st
        asm = self.assume_for(fn)
        for atom, truth in implied_facts(n.ast, lab == 'T'):
            if isinstance(atom, ast.Name) and atom.id in asm:
                if asm[atom.id] != truth:
                    return None
            nm, isnone = None, None
            if isinstance(atom, ast.Compare) and len(atom.ops) == 1 and isinstance(atom.left, ast.Name) and \
                    isinstance(atom.comparators[0], ast.Constant) and atom.comparators[0].value is None:
                nm = atom.left.id
                if isinstance(atom.ops[0], (ast.Is, ast.Eq)):
                    isnone = truth
                elif isinstance(atom.ops[0], (ast.IsNot, ast.NotEq)):
                    isnone = not truth
            if nm is not None and isnone is not None and nm in st2:
                cur = st2[nm]
                if isnone:
                    if NONE not in cur and cur:
                        # contradiction only if the name is known never to be None: keep conservative
                        pass
                    new = frozenset({NONE})
                else:
                    new = frozenset(t for t in cur if t != NONE)
                    if not new and cur:
                        return None
                if new != cur:
                    st2 = dict(st2)
                    st2[nm] = new
        return st2

    def _assign(self, st, target, tags, fn, value=None, cur=None):
        if isinstance(target, ast.Name):
            st[target.id] = frozenset(tags)
        elif isinstance(target, (ast.Tuple, ast.List)):
            per = None
            if isinstance(value, (ast.Tuple, ast.List)) and len(value.elts) == len(target.elts):
                per = [self.of(v, cur, fn) for v in value.elts]
            elif isinstance(value, ast.Call):
                targets = self._repo_targets(value, fn)
                if targets:
                    summs = [self.ret_prov(t) for t in targets]
                    if all(isinstance(s, list) and len(s) == len(target.elts) for s in summs):
                        per = []
                        f = value.func
                        recv = self.of(f.value, cur, fn) if isinstance(f, ast.Attribute) else set()
                        for i in range(len(target.elts)):
                            acc = set()
                            for s, t in zip(summs, targets):
                                acc |= self._map_summary(s[i], t, recv, value.args,
                                                         {kw.arg: kw.value for kw in value.keywords if kw.arg},
                                                         cur, fn)
                            per.append(acc)
            for i, el in enumerate(target.elts):
                sub = per[i] if per is not None else self._elem(tags)
                if isinstance(el, ast.Starred):
                    el = el.value
                self._assign(st, el, sub, fn, None, cur)
        # attribute / subscript targets do not change local names

    def _transfer(self, n, st, fn):
        a = n.ast
        if n.kind == 'stmt':
            if isinstance(a, ast.Assign):
                tags = self.of(a.value, st, fn)
                new = dict(st)
                for t in a.targets:
                    self._assign(new, t, tags, fn, a.value, st)
                # an object stored into a persistent container (`self._cache[key] = x`, `cache[key] = x = make()`) is
                # from then on also reachable from persistent state: the names that hold it say so
                held = set()
                for t in a.targets:
                    if isinstance(t, ast.Subscript):
                        held |= {g for g in self.of(t.value, st, fn) if is_persist(g) or is_self(g)}
                if held:
                    names = [t.id for t in a.targets if isinstance(t, ast.Name)]
                    if isinstance(a.value, ast.Name):
                        names.append(a.value.id)
                    for nm in names:
                        if nm in new and not (new[nm] <= frozenset({NONE})):
                            new[nm] = frozenset(new[nm] | held)
                return new
            if isinstance(a, ast.AnnAssign) and a.value is not None:
                new = dict(st)
                self._assign(new, a.target, self.of(a.value, st, fn), fn, a.value, st)
                return new
            if isinstance(a, ast.AugAssign) and isinstance(a.target, ast.Name):
                # in-place for mutable objects: the name keeps its provenance; for immutables it is fresh anyway
                return st
            if isinstance(a, (ast.FunctionDef, ast.AsyncFunctionDef, ast.ClassDef)):
                new = dict(st)
                new[a.name] = frozenset({FRESH})
                return new
            for sub in walk_no_nested(a):
                if isinstance(sub, ast.NamedExpr) and isinstance(sub.target, ast.Name):
                    new = dict(st)
                    new[sub.target.id] = frozenset(self.of(sub.value, st, fn))
                    return new
            return st
        if n.kind == 'for':
            new = dict(st)
            tags = self.of(a.iter, st, fn)
            elem = self._elem(tags)
            it = a.iter
            if isinstance(it, ast.Call) and call_name(it) in ('enumerate', 'zip', 'items', 'values', 'keys') and \
                    (it.args or isinstance(it.func, ast.Attribute)):
                srcs = list(it.args) + ([it.func.value] if isinstance(it.func, ast.Attribute) else [])
                elem = set()
                for s in srcs:
                    elem |= self._elem(self.of(s, st, fn))
                elem = elem | {FRESH}
            for nm in target_names(a.target):
                new[nm] = frozenset(elem)
            return new
        if n.kind == 'with':
            new = dict(st)
            for it in a.items:
                if it.optional_vars is not None:
                    for nm in target_names(it.optional_vars):
                        new[nm] = frozenset({FRESH})
            return new
        if n.kind == 'handler':
            if a.name:
                new = dict(st)
                new[a.name] = frozenset({FRESH})
                return new
        return st

    # ------------------------------------------------------------------ in-place operations
    def inplace_ops(self, fn):
        """In-place operations in fn: list of dict(node, kind, target expr, tags, value expr, stmt)."""
        cfg = build_cfg(fn)
        states = self.states(fn)
        out = []
        for n in cfg.nodes:
            st = states.get(n.id)
            if st is None or n.ast is None:
                continue
            a = n.ast
            if n.kind == 'stmt' and isinstance(a, (ast.Assign, ast.AnnAssign)):
                tgts = a.targets if isinstance(a, ast.Assign) else [a.target]
                for t in tgts:
                    for tt in (t.elts if isinstance(t, (ast.Tuple, ast.List)) else [t]):
                        if isinstance(tt, ast.Subscript):
                            out.append(dict(node=n, kind='setitem', target=tt.value, index=tt.slice,
                                            tags=self.of(tt.value, st, fn), value=a.value, state=st))
                        elif isinstance(tt, ast.Attribute):
                            out.append(dict(node=n, kind='setattr', target=tt.value, attr=tt.attr,
                                            tags=self.of(tt.value, st, fn), value=a.value, state=st))
            elif n.kind == 'stmt' and isinstance(a, ast.AugAssign):
                t = a.target
                if isinstance(t, ast.Name):
                    out.append(dict(node=n, kind='augassign', target=t, tags=self.of(t, st, fn), value=a.value,
                                    state=st, op=type(a.op).__name__))
                elif isinstance(t, ast.Subscript):
                    out.append(dict(node=n, kind='augsetitem', target=t.value, index=t.slice,
                                    tags=self.of(t.value, st, fn), value=a.value, state=st,
                                    op=type(a.op).__name__))
                elif isinstance(t, ast.Attribute):
                    out.append(dict(node=n, kind='augsetattr', target=t.value, attr=t.attr,
                                    tags=self.of(t.value, st, fn), value=a.value, state=st,
                                    op=type(a.op).__name__))
            elif n.kind == 'stmt' and isinstance(a, ast.Delete):
                for t in a.targets:
                    if isinstance(t, ast.Subscript):
                        out.append(dict(node=n, kind='delitem', target=t.value, index=t.slice,
                                        tags=self.of(t.value, st, fn), value=None, state=st))
                    elif isinstance(t, ast.Attribute):
                        out.append(dict(node=n, kind='delattr', target=t.value, attr=t.attr,
                                        tags=self.of(t.value, st, fn), value=None, state=st))
            # mutator calls anywhere in the node's expressions
            from ..cfg import node_exprs
            for e in node_exprs(n):
                if e is None:
                    continue
                for sub in walk_no_nested(e, include_lambda_bodies=False):
                    if isinstance(sub, ast.Call) and isinstance(sub.func, ast.Attribute) and \
                            sub.func.attr in MUTATORS:
                        # not a repository method of that name on a typed receiver
                        if self._repo_targets(sub, fn):
                            continue
                        out.append(dict(node=n, kind='mutcall', target=sub.func.value, method=sub.func.attr,
                                        tags=self.of(sub.func.value, st, fn), value=sub, state=st))
        return out

    # ------------------------------------------------------------------ bindings of formals to persistent state
    def compute_bindings(self, functions, roots=(), max_rounds=6):
        fset = set(functions)
        for _ in range(max_rounds):
            changed = False
            if roots:
                self.contexts(roots, functions)
            self._states.clear()
            self._ret.clear()
            for fn in functions:
                states = self.states(fn)
                cfg = build_cfg(fn)
                for s in self.cg.sites(fn):
                    if s.kind != 'call' or s.tag not in ('exact', 'typed', 'closure'):
                        continue
                    call = s.node
                    # find the CFG node containing this call to get the state
                    stn = None
                    for n in cfg.nodes:
                        if n.ast is not None and states.get(n.id) is not None and \
                                any(x is call for x in ast.walk(n.ast)):
                            stn = states[n.id]
                            break
                    if stn is None:
                        continue
                    for t in s.targets:
                        if t not in fset:
                            continue
                        params = t.params
                        off = 1 if (t.cls is not None and not t.is_static and params) else 0
                        pairs = []
                        for i, a in enumerate(call.args):
                            if isinstance(a, ast.Starred):
                                break
                            if i + off < len(params):
                                pairs.append((params[i + off], a))
                        for kw in call.keywords:
                            if kw.arg in params:
                                pairs.append((kw.arg, kw.value))
                        for pname, aexpr in pairs:
                            tags = set()
                            for x in self.of(aexpr, stn, fn):
                                if is_persist(x):
                                    tags.add(x)
                                elif is_self(x) and True in self.persistent_self.get(fn, ()):
                                    tags.add(('persist', f'{fn.owner_class.name if fn.owner_class else ""}:'
                                                         f'{x[1]}'))
                            if tags and not tags <= self.bind.get((t, pname), set()):
                                self.bind.setdefault((t, pname), set()).update(tags)
                                changed = True
            if not changed:
                break
        self._states.clear()
        self._ret.clear()


    # ------------------------------------------------------------------ receiver contexts
    def site_state(self, fn, node):
        cfg = build_cfg(fn)
        states = self.states(fn)
        for n in cfg.nodes:
            if n.ast is not None and states.get(n.id) is not None and any(x is node for x in ast.walk(n.ast)):
                return states[n.id]
        return None

    def contexts(self, roots, functions):
        """Which functions of the slice run with a persistent receiver, starting from roots whose receiver is
        persistent.  Returns {fn: set of bool}."""
        fset = set(functions)
        ctxs = {}
        work = [(r, True) for r in roots]
        while work:
            fn, sp = work.pop()
            if sp in ctxs.get(fn, set()):
                continue
            ctxs.setdefault(fn, set()).add(sp)
            for s in self.cg.sites(fn):
                if s.tag not in ('exact', 'typed', 'closure', 'ctor'):
                    continue
                for t in s.targets:
                    if t not in fset:
                        continue
                    if s.tag == 'ctor' or (s.kind == 'call' and self.is_ctor_call(s.node, fn)):
                        nsp = False
                    elif t.parent is not None and t.cls is None:
                        nsp = sp        # nested function shares self
                    elif t.cls is None or t.is_static:
                        nsp = False
                    else:
                        f = s.node.func if s.kind == 'call' else s.node
                        recv_expr = f.value if isinstance(f, ast.Attribute) else None
                        st = self.site_state(fn, s.node)
                        if recv_expr is None or st is None:
                            nsp = False
                        else:
                            tags = self.of(recv_expr, st, fn)
                            nsp = any(is_persist(x) or (is_self(x) and sp) for x in tags)
                    work.append((t, nsp))
            for g in list(fn.nested.values()) + list(fn.lambdas):
                if g in fset:
                    work.append((g, sp))
        self.persistent_self = ctxs
        return ctxs
