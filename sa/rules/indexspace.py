"""A21 INDEX-SPACE - arrays indexed in choice space and arrays indexed in design-vector space are not mixed up.

GraphProcessor keeps two index spaces for selection choices: the analyzer's choice index (one entry per
selection choice, forced ones included) and the design-vector index (one entry per declared variable).
`_sel_choice_idx_map[i_dv] == i_dec` translates.  Inside every loop `for <i_dv>, <i_dec> in
enumerate(self._sel_choice_idx_map)` a choice-space array must be subscripted with the element variable and a
design-vector-space array with the counter variable.
"""
import ast

from ..model import AnalysisError, norm, walk_no_nested
from ..astutil import short, call_name
from ..report import fkey
from .common import *

CHOICE_SPACE = {'sel_choice_opt_idx', 'sel_choice_is_active', 'is_fixed', 'fixed_choices'}
DV_SPACE = {'des_var_values', 'opt_dec_used_values', 'used_values', 'self._fixed_values', 'fixed_values'}


def _loops(fn):
    out = []
    for s in walk_fn(fn):
        gens = []
        if isinstance(s, ast.For):
            gens.append((s.target, s.iter, s))
        elif isinstance(s, (ast.ListComp, ast.SetComp, ast.GeneratorExp, ast.DictComp)):
            for g in s.generators:
                gens.append((g.target, g.iter, s))
        for tgt, it, scope in gens:
            if isinstance(it, ast.Call) and isinstance(it.func, ast.Name) and it.func.id == 'enumerate' and it.args and \
                    norm(it.args[0]).endswith('_sel_choice_idx_map') and isinstance(tgt, ast.Tuple) and \
                    len(tgt.elts) == 2 and all(isinstance(e, ast.Name) for e in tgt.elts):
                out.append((tgt.elts[0].id, tgt.elts[1].id, scope))
    return out


def _spaces(prog, fn, u):
    """(choice-space names, design-vector-space names) valid inside unit function u of fn: the tables, plus
    parameters of a private helper bound to such a name at its call site, plus local aliases / same-length lists."""
    choice, dv = set(CHOICE_SPACE), set(DV_SPACE)
    if u is not fn:
        for caller in unit_functions(prog, fn):
            for c in calls(caller):
                if call_name(c) != u.name:
                    continue
                cchoice, cdv = _spaces(prog, fn, caller) if caller is not u else (choice, dv)
                hp = [q for q in u.params if q not in ('self', 'cls')] if isinstance(c.func, ast.Attribute) else \
                    list(u.params)
                bind = list(zip(hp, c.args)) + [(k.arg, k.value) for k in c.keywords if k.arg]
                for q, a in bind:
                    if norm(a) in cchoice:
                        choice.add(q)
                    elif norm(a) in cdv:
                        dv.add(q)
    for _ in range(2):
        for a in walk_fn(u):
            if not (isinstance(a, ast.Assign) and isinstance(a.targets[0], ast.Name)):
                continue
            t, v = a.targets[0].id, a.value
            if norm(v) in choice:
                choice.add(t)
            elif norm(v) in dv:
                dv.add(t)
            elif isinstance(v, ast.ListComp) and len(v.generators) == 1 and \
                    norm(v.generators[0].iter).startswith('range(len('):
                inner = norm(v.generators[0].iter)[len('range(len('):-2]
                if inner in choice or inner.endswith('selection_choice_nodes'):
                    choice.add(t)
                elif inner in dv:
                    dv.add(t)
    return choice, dv


def check_index_spaces(ctx, fn_keys, rule='A21'):
    n = 0
    for key in fn_keys:
        fn = ctx.fn(key)
        unit = unit_functions(ctx.prog, fn)
        loops = [(u,) + lp for u in unit for lp in _loops(u)]
        if not loops:
            if fn.name == '_update_comb_fixed_mask':
                continue        # decided by check_translation below
            raise AnalysisError(f'{key}: no loop over enumerate(_sel_choice_idx_map) found')
        for u, counter, elem, scope in loops:
            ctx.touch(u)
            choice_space, dv_space = _spaces(ctx.prog, fn, u)
            for sub in ast.walk(scope):
                if not isinstance(sub, ast.Subscript) or not isinstance(sub.slice, ast.Name):
                    continue
                base = norm(sub.value)
                idx = sub.slice.id
                if idx not in (counter, elem):
                    continue
                if base in choice_space:
                    want, space = elem, 'choice'
                elif base in dv_space:
                    want, space = counter, 'design-vector'
                else:
                    continue
                n += 1
                ctx.ob(rule, fkey(u, rule, f'{base}[{idx}]'), idx == want, f'{u.module.relpath}:{sub.lineno}',
                       f'`{base}` is indexed in {space} space: inside `for {counter}, {elem} in '
                       f'enumerate(_sel_choice_idx_map)` it takes `{want}`', short(sub))
            # membership tests against the fixed-value table use the design-vector index
            for sub in ast.walk(scope):
                if isinstance(sub, ast.Compare) and len(sub.ops) == 1 and isinstance(sub.ops[0], (ast.In, ast.NotIn)) \
                        and norm(sub.comparators[0]) in dv_space and isinstance(sub.left, ast.Name) and \
                        sub.left.id in (counter, elem):
                    n += 1
                    ctx.ob(rule, fkey(u, rule, f'{sub.left.id} in {norm(sub.comparators[0])}'),
                           sub.left.id == counter, f'{u.module.relpath}:{sub.lineno}',
                           f'the fixed-value table is keyed by the design-vector index `{counter}`', short(sub))
    return n


def check_translation(ctx, rule='A21'):
    """_update_comb_fixed_mask: the dictionary handed to get_available_combinations_mask is keyed by *choice*
    indices, i.e. by elements of _sel_choice_idx_map - never by positions in the design vector (keys of the
    fixed-value table)."""
    fn = ctx.fn(f'{GP}._update_comb_fixed_mask')
    cs = calls(fn, 'get_available_combinations_mask')
    if not cs or not cs[0].args:
        raise AnalysisError('_update_comb_fixed_mask: call of get_available_combinations_mask not found')
    arg = cs[0].args[0]
    keys = []
    if isinstance(arg, ast.Name):
        for s in walk_fn(fn):
            if isinstance(s, ast.Assign):
                for t in s.targets:
                    if isinstance(t, ast.Subscript) and norm(t.value) == arg.id:
                        keys.append((t.slice, s))
                    if isinstance(t, ast.Name) and t.id == arg.id and isinstance(s.value, ast.DictComp):
                        keys.append((s.value.key, s.value))
    elif isinstance(arg, ast.DictComp):
        keys.append((arg.key, arg))
    if not keys:
        raise AnalysisError('_update_comb_fixed_mask: construction of the fixed-choice dictionary not recognised')
    elems = {elem for _, elem, _ in _loops(fn)}
    # also `for i_dec in self._sel_choice_idx_map` and explicit subscripts
    for s in walk_fn(fn):
        if isinstance(s, ast.For) and norm(s.iter).endswith('_sel_choice_idx_map') and isinstance(s.target, ast.Name):
            elems.add(s.target.id)
    for k, where in keys:
        ok = (isinstance(k, ast.Name) and k.id in elems) or \
            (isinstance(k, ast.Subscript) and norm(k.value).endswith('_sel_choice_idx_map'))
        if not ok and isinstance(k, ast.Name):
            # a name assigned from self._sel_choice_idx_map[...]
            defs = [a for a in walk_fn(fn) if isinstance(a, ast.Assign) and norm(a.targets[0]) == k.id]
            ok = bool(defs) and all(isinstance(a.value, ast.Subscript) and
                                    norm(a.value.value).endswith('_sel_choice_idx_map') for a in defs)
        ctx.ob(rule, fkey(fn, rule, f'fixed-choices-key:{short(k, 30)}'), ok, f'{fn.module.relpath}:{where.lineno}',
               'the fixed-choice dictionary is keyed by choice indices taken from _sel_choice_idx_map (a position '
               'in the design vector is a different index as soon as a forced choice precedes it)',
               f'key `{short(k)}`' + ('' if ok else ' does not come from _sel_choice_idx_map'))
    return len(keys)


# ---------------------------------------------------------------------- A21i: position maps keyed by objects
IDENTITY_TABLE = {
    'adsg_core.graph.adsg_nodes:DSGNode':
        '__hash__ returns the per-object `_id` drawn from a global counter and __eq__ compares that id: distinct node '
        'objects never compare equal',
}


def _eq_definers(prog, c):
    """Classes in the MRO of c (repo classes only) that define __eq__/__hash__, or are dataclasses with
    generated equality."""
    out = []
    for k in prog.mro(c):
        if '__eq__' in k.methods or '__hash__' in k.methods:
            out.append((k, 'defines ' + '/'.join(m for m in ('__eq__', '__hash__') if m in k.methods)))
            continue
        for d in getattr(k.node, 'decorator_list', []):
            nm = norm(d.func) if isinstance(d, ast.Call) else norm(d)
            if nm.split('.')[-1] == 'dataclass':
                eq_false = isinstance(d, ast.Call) and any(
                    kw.arg == 'eq' and isinstance(kw.value, ast.Constant) and kw.value.value is False
                    for kw in d.keywords)
                if not eq_false:
                    out.append((k, 'is a dataclass with generated __eq__'))
    return out


def check_position_map_keys(ctx, fns, rule='A21i', required=()):
    """A position map `{k: i for i, k in enumerate(xs)}` keyed by objects sends every member of xs to its own
    position only when distinct members never compare equal: the key class hashes by identity (defines no
    __eq__/__hash__, is no eq-dataclass) or is tabled as injective by construction."""
    prog, types = ctx.prog, ctx.types
    n = 0
    seen_required = set()
    for fn in fns:
        key = fn.key
        for sub in ast.walk(fn.node):
            if not (isinstance(sub, ast.DictComp) and len(sub.generators) == 1):
                continue
            g = sub.generators[0]
            if not (isinstance(g.iter, ast.Call) and norm(g.iter.func) == 'enumerate' and g.iter.args and
                    isinstance(g.target, ast.Tuple) and len(g.target.elts) == 2 and
                    all(isinstance(e, ast.Name) for e in g.target.elts)):
                continue
            counter, elem = g.target.elts[0].id, g.target.elts[1].id
            if not (isinstance(sub.key, ast.Name) and sub.key.id == elem and
                    isinstance(sub.value, ast.Name) and sub.value.id == counter):
                continue
            classes = types.classes(types.elem(types.of(g.iter.args[0], fn)))
            if not classes:
                if key in required:
                    raise AnalysisError(f'{key}: element class of `{norm(g.iter.args[0])}` could not be resolved')
                continue
            seen_required.add(key)
            for c in classes:
                fam = [c] + prog.subclasses(c)
                definers = []
                for k in fam:
                    for d, why in _eq_definers(prog, k):
                        if (d, why) not in definers:
                            definers.append((d, why))
                bad = [(d, why) for d, why in definers if d.key not in IDENTITY_TABLE]
                for d, why in definers:
                    if d.key in IDENTITY_TABLE:
                        ctx.used_exception(rule, d.key, IDENTITY_TABLE[d.key])
                n += 1
                ctx.touch(fn)
                ctx.ob(rule, fkey(fn, rule, f'{c.name}-keys-distinct'), not bad, f'{fn.module.relpath}:{sub.lineno}',
                       f'`{short(sub, 70)}` maps every {c.name} of the list to its own position: distinct {c.name} '
                       f'objects never compare equal',
                       f'{c.name} hashes by identity' if not definers else
                       ('; '.join(f'{d.name} {why} (tabled: injective by construction)' for d, why in definers)
                        if not bad else
                        '; '.join(f'{d.module.relpath}:{d.node.lineno} {d.name} {why}' for d, why in bad) +
                        ': two list members that compare equal collapse into one key and the first loses its '
                        'position'))
    for key in required:
        if key not in seen_required:
            raise AnalysisError(f'{key}: position map `{{k: i for i, k in enumerate(..)}}` not found')
    return n


# ---------------------------------------------------------------------- A21g: row ids of the combination table
def check_global_row_ids(ctx, fn_key, rule='A21g'):
    """`ids = np.arange(T.shape[0])` remembers for every row of the enumeration table T which selection-choice
    combination it came from; the ids are later compared with *global* combination indices (existence tables,
    `i_comb` loops).  They are global only if they are taken while T still has one row per combination: no row
    filter `T = T[mask, ...]` may reach the arange, and every later row filter / repetition of T is applied to the
    ids as well."""
    from ..cfg import build_rd
    fn = ctx.fn(fn_key)
    cfg = build_cfg(fn)
    rd = build_rd(fn)
    n = 0
    found = False
    for nd in cfg.nodes:
        a = nd.ast
        if not (nd.kind == 'stmt' and isinstance(a, ast.Assign) and isinstance(a.targets[0], ast.Name) and
                isinstance(a.value, ast.Call) and norm(a.value.func).split('.')[-1] == 'arange' and a.value.args):
            continue
        arg = a.value.args[0]
        if not (isinstance(arg, ast.Subscript) and isinstance(arg.value, ast.Attribute) and arg.value.attr == 'shape'
                and isinstance(arg.value.value, ast.Name) and norm(arg.slice) == '0'):
            continue
        ids, tab = a.targets[0].id, arg.value.value.id
        found = True
        filtered = [d for d in rd.defs_of(tab, nd) if d.kind == 'stmt' and isinstance(d.ast, ast.Assign) and
                    isinstance(d.ast.value, ast.Subscript) and isinstance(d.ast.value.value, ast.Name) and
                    d.ast.value.value.id == tab]
        n += 1
        ctx.touch(fn)
        ctx.ob(rule, fkey(fn, rule, f'{ids}-taken-before-row-filter:{tab}'), not filtered,
               f'{fn.module.relpath}:{nd.lineno}',
               f'`{ids}` numbers the rows of `{tab}` while it still has one row per combination (the ids are compared '
               f'with global combination indices later on)',
               'no row filter of the table reaches the arange' if not filtered else
               f'`{short(filtered[0].ast, 60)}` (L{filtered[0].lineno}) reaches it: the ids are positions in the '
               f'filtered table, not combination indices')
        # later filters of the table are mirrored on the ids
        for d in cfg.nodes:
            if d.kind == 'stmt' and isinstance(d.ast, ast.Assign) and isinstance(d.ast.targets[0], ast.Name) and \
                    d.ast.targets[0].id == tab and isinstance(d.ast.value, ast.Subscript) and \
                    isinstance(d.ast.value.value, ast.Name) and d.ast.value.value.id == tab and d.lineno > nd.lineno:
                sl = d.ast.value.slice
                row = sl.elts[0] if isinstance(sl, ast.Tuple) else sl
                if isinstance(row, ast.Slice) and row.lower is None and row.upper is None and row.step is None:
                    continue            # a column selection keeps every row
                mask = norm(row)
                mirrored = any(m.kind == 'stmt' and isinstance(m.ast, ast.Assign) and
                               isinstance(m.ast.targets[0], ast.Name) and m.ast.targets[0].id == ids and
                               isinstance(m.ast.value, ast.Subscript) and norm(m.ast.value.value) == ids and
                               norm(m.ast.value.slice) == mask for m in cfg.nodes)
                n += 1
                ctx.ob(rule, fkey(fn, rule, f'{ids}-filtered-with:{mask}'), mirrored, f'{fn.module.relpath}:{d.lineno}',
                       f'the row filter `{mask}` of `{tab}` is applied to `{ids}` as well', 'mirrored' if mirrored
                       else f'`{ids}` is not filtered with `{mask}`: rows and ids fall out of step')
    if not found:
        raise AnalysisError(f'{fn_key}: row ids (np.arange(<table>.shape[0])) not found')
    # existence tables (one row per combination) are the other side of the comparison with the global ids: positions
    # found in them (np.where) are combination indices only while the table is read with all its rows - a read
    # through the row filter of the enumeration table yields positions in the filtered table
    masks = set()
    for d in cfg.nodes:
        if d.kind == 'stmt' and isinstance(d.ast, ast.Assign) and isinstance(d.ast.value, ast.Subscript) and \
                isinstance(d.ast.targets[0], ast.Name) and norm(d.ast.value.value) == d.ast.targets[0].id:
            sl = d.ast.value.slice
            row = sl.elts[0] if isinstance(sl, ast.Tuple) and sl.elts else sl
            if not isinstance(row, ast.Slice):
                masks.add(norm(row))
    tables = {}
    for d in cfg.nodes:
        if d.kind == 'stmt' and isinstance(d.ast, ast.Assign) and isinstance(d.ast.targets[0], ast.Name) and \
                isinstance(d.ast.value, ast.Call) and norm(d.ast.value.func).split('.')[-1] == 'get_nodes_existence':
            tables[d.ast.targets[0].id] = d.lineno
    for d in cfg.nodes:
        if d.ast is None:
            continue
        roots = [d.ast.iter] if d.kind == 'for' else [d.ast.test] if d.kind in ('if', 'while') and \
            hasattr(d.ast, 'test') else [d.ast] if d.kind == 'stmt' else []
        for root in roots:
            for x in ast.walk(root):
                if isinstance(x, ast.Subscript) and isinstance(x.value, ast.Name) and x.value.id in tables and \
                        isinstance(x.ctx, ast.Load):
                    sl = x.slice
                    row = sl.elts[0] if isinstance(sl, ast.Tuple) and sl.elts else sl
                    bad = not isinstance(row, ast.Slice) and norm(row) in masks
                    n += 1
                    ctx.ob(rule, fkey(fn, rule, f'existence-table-read-with-all-rows:{x.value.id}'), not bad,
                           f'{fn.module.relpath}:{getattr(x, "lineno", d.lineno)}',
                           f'positions found in the existence table `{x.value.id}` are compared with the global '
                           f'combination ids, so the table is read with all its rows (never through the row filter of '
                           f'the enumeration table)',
                           'all rows' if not bad else f'rows selected with `{norm(row)}`: positions in the filtered '
                           f'table are not combination indices')
    return n


# ---------------------------------------------------------------------- A21k: keys of the fixed-value table
def check_fixed_table_keys(ctx, rule='A21k'):
    """The fixed-value table is keyed by the position of a variable among *all* design variables, whose layout is
    [selection-choice variables][connection-choice variables][design-variable-node variables].  Every key used with the
    table (membership, look-up, store, delete) has one of the origins the code base uses for such a position: `.index`
    on the list of all variables, an index map, the counter of an enumeration / range over a full-length sequence, the
    counter of enumerate(_sel_choice_idx_map) (the selection segment comes first), a parameter.  A key computed by
    offset arithmetic is accepted only when it cannot be the known-wrong shape - a counter over the design-variable
    nodes added to an offset that only counts selection choices (the connection segment lies in between); any other
    arithmetic is an unrecognised idiom (exit 2), not a verdict."""
    cls = ctx.prog.cls(GP)
    n = 0
    for fn in cls.methods.values():
        for u in [fn] + list(fn.nested.values()):
            alias = {'self._fixed_values'} | {norm(a.targets[0]) for a in walk_fn(u) if isinstance(a, ast.Assign) and
                                              isinstance(a.targets[0], ast.Name) and
                                              'self._fixed_values' in norm(a.value) and
                                              not isinstance(a.value, ast.Call)}
            keys = []
            for x in ast.walk(u.node):
                if isinstance(x, ast.Compare) and len(x.ops) == 1 and isinstance(x.ops[0], (ast.In, ast.NotIn)) and \
                        norm(x.comparators[0]) in alias:
                    keys.append(x.left)
                if isinstance(x, ast.Subscript) and norm(x.value) in alias:
                    keys.append(x.slice)
                if isinstance(x, ast.Call) and call_name(x) in ('pop', 'get') and isinstance(x.func, ast.Attribute) and \
                        norm(x.func.value) in alias and x.args:
                    keys.append(x.args[0])
            for k in keys:
                if not isinstance(k, ast.Name):
                    continue
                if k.id in u.params:
                    continue
                defs = [a.value for a in walk_fn(u) if isinstance(a, ast.Assign) and norm(a.targets[0]) == k.id]
                counters = []       # (iterable text) for loops / comprehensions binding k as a counter or element
                for g in [x for x in ast.walk(u.node) if isinstance(x, (ast.For, ast.comprehension))]:
                    tg, it = g.target, g.iter
                    if isinstance(tg, ast.Tuple) and isinstance(it, ast.Call) and call_name(it) == 'enumerate' and \
                            isinstance(tg.elts[0], ast.Name) and tg.elts[0].id == k.id:
                        counters.append(norm(it.args[0]))
                    elif isinstance(tg, ast.Name) and tg.id == k.id:
                        counters.append(norm(it))
                arith = [d for d in defs if isinstance(d, ast.BinOp)]
                if not arith:
                    continue            # .index / map look-up / counter / call: the origins the code base uses
                n += 1
                ctx.touch(fn)
                for d in arith:
                    names = {y.id for y in ast.walk(d) if isinstance(y, ast.Name)}
                    # counters of the expression: names bound by an enumeration over the design-variable nodes
                    over_dv_nodes = any(
                        isinstance(g.target, ast.Tuple) and isinstance(g.iter, ast.Call) and
                        call_name(g.iter) == 'enumerate' and 'design_variable_nodes' in norm(g.iter.args[0]) and
                        isinstance(g.target.elts[0], ast.Name) and g.target.elts[0].id in names
                        for g in [x for x in ast.walk(u.node) if isinstance(x, (ast.For, ast.comprehension))])
                    t = norm(expand_locals(u, d))
                    sel_only = ('_sel_choice_idx_map' in t or 'selection_choice_nodes' in t) and \
                        not any(w in t for w in ('all_des_vars', 'conn', 'i_dv_end', 'i_dv_start', 'des_vars'))
                    if over_dv_nodes and sel_only:
                        ctx.ob(rule, fkey(fn, rule, f'fixed-table-key:{k.id}'), False, f'{fn.module.relpath}:{d.lineno}',
                               'a key of the fixed-value table is the position of the variable among all design '
                               'variables ([selection][connection][design-variable nodes])',
                               f'`{k.id} = {short(d)}` places the design-variable nodes right after the selection '
                               f'choices: the connection-choice variables in between are not counted, so a fixed '
                               f'design-variable node is looked up under the wrong position')
                    else:
                        raise AnalysisError(f'A21k {fn.qualname}: key `{k.id}` of the fixed-value table is computed by '
                                            f'arithmetic the rule does not know (`{short(d)}`)')
    ctx.ob(rule, f'{GP}:A21k:fixed-table-keys-have-known-origin', True, cls.where,
           'keys of the fixed-value table come from .index / an index map / an enumeration over a full-length sequence',
           f'{n} arithmetic key(s) inspected')
    return n
