"""A9 EXC-COVER - explicit raises on a call-graph slice versus the handlers protecting the call."""
import ast

from ..model import AnalysisError, norm, walk_no_nested, ClassInfo
from ..astutil import short, call_name, ancestors
from ..report import fkey
from .common import *

BUILTIN_BASES = {
    'RuntimeError': ['Exception'], 'ValueError': ['Exception'], 'TypeError': ['Exception'],
    'KeyError': ['LookupError', 'Exception'], 'IndexError': ['LookupError', 'Exception'],
    'NotImplementedError': ['RuntimeError', 'Exception'], 'AssertionError': ['Exception'],
    'TimeoutError': ['OSError', 'Exception'], 'MemoryError': ['Exception'], 'StopIteration': ['Exception'],
    'AttributeError': ['Exception'], 'ZeroDivisionError': ['ArithmeticError', 'Exception'],
}


def exc_class_name(raise_stmt):
    e = raise_stmt.exc
    if e is None:
        return None        # re-raise
    if isinstance(e, ast.Call):
        e = e.func
    return norm(e).split('.')[-1]


def ancestors_of(prog, module, name):
    """All base-class names of exception class `name` (repo classes resolved through the model)."""
    out = [name]
    r = prog.resolve(module, name)
    if isinstance(r, ClassInfo):
        for k in prog.mro(r):
            if k.name not in out:
                out.append(k.name)
            for b in k.ext_bases:
                b = b.split('.')[-1]
                if b not in out:
                    out.append(b)
                    out += [x for x in BUILTIN_BASES.get(b, []) if x not in out]
    else:
        out += [x for x in BUILTIN_BASES.get(name, ['Exception']) if x not in out]
    return out


def locally_handled(fn, raise_stmt, prog):
    """True if the raise is inside a try (of the same function) whose handlers catch it."""
    name = exc_class_name(raise_stmt)
    if name is None:
        return True
    anc = ancestors_of(prog, fn.module, name)
    for a in ancestors(fn, raise_stmt):
        if isinstance(a, ast.Try) and any(any(x is raise_stmt for x in ast.walk(b)) for b in a.body):
            for h in a.handlers:
                hn = [n.split('.')[-1] for n in handler_type_names(h)]
                if '<bare>' in hn or any(x in hn for x in anc):
                    return True
    return False


def raises_on_slice(ctx, roots, stop=None, follow_by_name=False):
    """[(fn, raise stmt, class name, chain)] for explicit raises reachable from roots."""
    reach = ctx.cg.reachable_from(roots, follow_by_name=follow_by_name, stop=stop)
    out = []
    for fn in reach:
        for s in walk_fn(fn, include_lambda_bodies=False):
            if isinstance(s, ast.Raise):
                name = exc_class_name(s)
                if name is None or locally_handled(fn, s, ctx.prog):
                    continue
                out.append((fn, s, name, ctx.cg.chain(reach, fn)))
    return out, reach
