"""A5-inv: mutable state read by memoised methods is reset by every writer.

For a class C: M = methods decorated with `cached_function` (per-object function cache) and the
`cached_property` methods.  For every attribute A of C that is written outside `__init__` and is read
(transitively through self-calls / property reads inside C) by a member of M:
 * if the reader is a cached_function: every writer of A reaches `clear_func_cache(self)` on all normal
   paths after the write (directly or in each of its callers);
 * if the reader is a cached_property (never invalidated): violation unless tabled.
"""
import ast

from .match import FnText
from ..model import AnalysisError, norm, walk_no_nested
from ..cfg import build_cfg, node_exprs
from ..astutil import short, call_name
from ..report import fkey
from . import guards
from .common import *

CACHED_PROP_TABLE = {
    '_memory_save_mode': 'one-way switch set by catch_memory_overflow, which also clears the function cache and '
                         're-runs the call; the design-variable data computed before the switch stay valid',
    '_reset_conn_encoder_cache': 'testing switch that only decides whether the on-disk selection cache is '
                                 'dropped before the (deterministic) selection; never written by the library',
    '_encoder_type': 'constructor argument, never written afterwards by the library',
    'encoding_timeout': 'constructor argument (time limit of the one-off analysis)',
}


def _self_attr_accesses(fn):
    """(reads, writes) of self.<attr> in fn: attr -> list of nodes.  Writes include item stores, deletes, aug
    assignments and mutator calls through self.<attr>."""
    from .prov import MUTATORS
    reads, writes = {}, {}
    for sub in walk_fn(fn):
        if isinstance(sub, ast.Attribute) and isinstance(sub.value, ast.Name) and sub.value.id == 'self':
            if isinstance(sub.ctx, ast.Store) or isinstance(sub.ctx, ast.Del):
                writes.setdefault(sub.attr, []).append(sub)
            else:
                reads.setdefault(sub.attr, []).append(sub)
        if isinstance(sub, (ast.Assign, ast.AugAssign, ast.Delete)):
            tgts = sub.targets if isinstance(sub, (ast.Assign, ast.Delete)) else [sub.target]
            for t in tgts:
                base = t
                while isinstance(base, ast.Subscript):
                    base = base.value
                if base is not t and is_self_attr(base):
                    writes.setdefault(base.attr, []).append(sub)
        if isinstance(sub, ast.Call) and isinstance(sub.func, ast.Attribute) and sub.func.attr in MUTATORS and \
                is_self_attr(sub.func.value):
            writes.setdefault(sub.func.value.attr, []).append(sub)
    return reads, writes


def check_invalidation(ctx, cls_key, rule='A5inv'):
    prog, cg = ctx.prog, ctx.cg
    cls = prog.cls(cls_key)
    methods = {}
    for k in prog.mro(cls):
        for nm, m in k.methods.items():
            methods.setdefault(nm, m)
    acc = {nm: _self_attr_accesses(m) for nm, m in methods.items()}
    for m in list(methods.values()):
        for g in m.nested.values():
            r, w = _self_attr_accesses(g)
            for a, v in r.items():
                acc[m.name][0].setdefault(a, []).extend(v)
            for a, v in w.items():
                acc[m.name][1].setdefault(a, []).extend(v)
    # wrapper-decorators that write attributes of the decorated object (catch_memory_overflow)
    deco_writers = {}
    for f in cls.module.functions.values():
        for g in f.nested.values():
            ps = g.params
            if not ps:
                continue
            for sub in walk_fn(g):
                if isinstance(sub, ast.Attribute) and isinstance(sub.ctx, ast.Store) and \
                        isinstance(sub.value, ast.Name) and sub.value.id == ps[0]:
                    deco_writers.setdefault(sub.attr, []).append((g, sub))
    mutable = set()
    for nm, (r, w) in acc.items():
        if nm == '__init__':
            continue
        mutable |= set(w)
    mutable |= set(deco_writers)
    # transitive reads through self-calls and property reads
    def reads_closure(m):
        seen, out = set(), {}
        stack = [m]
        while stack:
            f = stack.pop()
            if f in seen:
                continue
            seen.add(f)
            r, _ = _self_attr_accesses(f)
            for a in r:
                if a in mutable:
                    out.setdefault(a, f)
            for s in cg.sites(f):
                for t in s.targets:
                    if t.owner_class is not None and t.owner_class in prog.mro(cls) + prog.subclasses(cls) and \
                            isinstance(getattr(s.node, 'func', s.node), ast.Attribute):
                        recv = s.node.func.value if s.kind == 'call' else s.node.value
                        if isinstance(recv, ast.Name) and recv.id == 'self':
                            stack.append(t)
            stack += list(f.nested.values())
        return out
    cached_funcs = [m for m in methods.values() if any(d.split('.')[-1] == 'cached_function' for d in m.decorators)]
    cached_props = [m for m in methods.values() if any(d.split('.')[-1] == 'cached_property' for d in m.decorators)]
    if len(cached_funcs) < 2:
        raise AnalysisError(f'{cls_key}: fewer than two cached_function methods found (anchor vanished)')
    n = 0
    need_clear = {}
    for m in cached_funcs:
        for a, via in reads_closure(m).items():
            need_clear.setdefault(a, []).append((m, via))
    # writers must clear
    for a, readers in sorted(need_clear.items()):
        writers = [(methods[nm], w[a]) for nm, (r, w) in acc.items() if a in w and nm != '__init__']
        for g, sub in deco_writers.get(a, []):
            writers.append((g, [sub]))
        for wfn, wnodes in writers:
            n += 1
            ok, detail = _clears_after(ctx, wfn, wnodes, methods)
            ctx.ob(rule, fkey(wfn, rule, f'clears-after-write:{a}'), ok, wfn.where,
                   f'`{a}` is read by memoised method(s) {sorted({m.name for m, _ in readers})}: every writer '
                   f'reaches clear_func_cache(<object>) on all normal paths after the write',
                   detail)
    for m in cached_props:
        for a, via in reads_closure(m).items():
            n += 1
            if a in CACHED_PROP_TABLE:
                ctx.used_exception('A5inv', a, CACHED_PROP_TABLE[a])
                ctx.ob(rule, fkey(m, rule, f'cached-property-reads:{a}'), True, m.where,
                       'a cached_property (never invalidated) does not depend on state that changes after '
                       'construction', f'reads `{a}` via {via.qualname}; tabled: {CACHED_PROP_TABLE[a]}')
            else:
                ctx.ob(rule, fkey(m, rule, f'cached-property-reads:{a}'), False, m.where,
                       'a cached_property (never invalidated) does not depend on state that changes after '
                       'construction',
                       f'`{m.name}` reads `{a}` (via {via.qualname}), which is written outside __init__ by '
                       f'{sorted(nm for nm, (r, w) in acc.items() if a in w and nm != "__init__")}')
    return n


def _header_exprs(n):
    a = n.ast
    if n.kind == 'for':
        return [a.target, a.iter]
    if n.kind == 'with':
        return [x for it in a.items for x in (it.context_expr, it.optional_vars) if x is not None]
    return [a]


def _clears_after(ctx, wfn, wnodes, methods):
    cfg = build_cfg(wfn)
    clear_nodes = guards.call_nodes(cfg, 'clear_func_cache')
    # a private helper all of whose normal paths reach clear_func_cache counts as the clearing call
    from .common import unit_functions
    for h in unit_functions(ctx.prog, wfn)[1:]:
        hcfg = build_cfg(h)
        hclear = guards.call_nodes(hcfg, 'clear_func_cache')
        if hclear and hcfg.exit.id not in hcfg.reachable([hcfg.entry], blocked_nodes=hclear, labels_excluded=('exc',)):
            clear_nodes = clear_nodes + guards.call_nodes(cfg, h.name)
    # write nodes in the CFG
    wn = []
    for w in wnodes:
        # the innermost CFG node that contains the write (a handler / loop node spans its whole body)
        cands = [n for n in cfg.nodes if n.ast is not None and n.kind in ('stmt', 'test', 'for', 'with') and
                 any(x is w for x in (ast.walk(n.ast) if n.kind in ('stmt', 'test') else
                                      [y for e in _header_exprs(n) for y in ast.walk(e)]))]
        if cands:
            best = min(cands, key=lambda n: sum(1 for _ in ast.walk(n.ast)))
            if best not in wn:
                wn.append(best)
    if clear_nodes:
        bad = None
        for w in wn:
            starts = [m for m, lab in w.succ]
            reach = cfg.reachable(starts, blocked_nodes=clear_nodes, labels_excluded=('exc',))
            if cfg.exit.id in reach and w not in clear_nodes:
                bad = w
        if bad is None:
            # an explicit `raise` after the write (validation that comes too late) leaves the object with the new
            # state and the old derived state
            raises = [n for n in cfg.nodes if n.kind == 'stmt' and isinstance(n.ast, ast.Raise)]
            for w in wn:
                starts = [m for m, lab in w.succ if lab != 'exc']
                reach = cfg.reachable(starts, blocked_nodes=clear_nodes, labels_excluded=('exc',))
                late = [r for r in raises if r.id in reach]
                if late:
                    p = cfg.find_path(w, late[0], blocked_nodes=clear_nodes, labels_excluded=('exc',))
                    return False, f'the write at L{w.lineno} can be followed by the explicit raise at ' \
                                  f'L{late[0].lineno} before clear_func_cache (state changed, derived state stale): ' \
                                  f'{guards.path_text(p) if p else ""}'
            return True, f'clear_func_cache at L{clear_nodes[0].lineno} post-dominates the write(s)'
        p = cfg.find_path(bad, cfg.exit, blocked_nodes=clear_nodes, labels_excluded=('exc',))
        return False, f'path from the write at L{bad.lineno} to the exit without clear_func_cache: ' \
                      f'{guards.path_text(p)}'
    # otherwise every caller must clear after the call
    callers = ctx.cg.callers(wfn)
    if not callers:
        return False, f'{wfn.qualname} writes the attribute, never calls clear_func_cache and has no caller that does'
    for s in callers:
        c = build_cfg(s.fn)
        cn = guards.call_nodes(c, 'clear_func_cache')
        site_nodes = [n for n in c.nodes if n.ast is not None and any(x is s.node for x in ast.walk(n.ast))]
        for sn in site_nodes:
            reach = c.reachable([m for m, lab in sn.succ], blocked_nodes=cn, labels_excluded=('exc',))
            if c.exit.id in reach:
                return False, f'caller {s.fn.qualname} L{sn.lineno} can return without clear_func_cache after ' \
                              f'calling {wfn.name}'
    return True, f'every caller ({", ".join(sorted({s.fn.qualname for s in callers}))}) clears the function ' \
                 f'cache after the call'


def check_cached_function_key(ctx, rule='A8k'):
    """The per-object function cache key is built from the function name and a process-independent digest of
    *all* positional and keyword arguments."""
    fn = ctx.fn('adsg_core.func_cache:cached_function')
    w = fn.nested.get('wrapper')
    if w is None:
        raise AnalysisError('cached_function.wrapper vanished')
    ctx.touch(w)
    src = FnText(ctx, w)
    keyassign = [s for s in walk_fn(w) if isinstance(s, ast.Assign) and norm(s.targets[0]) == 'cache_key']
    from ..flow import Slice
    from ..cfg import build_cfg as bc
    ok_digest = ok_args = ok_kwargs = ok_name = no_hash = False
    if keyassign:
        cfg = bc(w)
        node = cfg.node_of(keyassign[0])
        sl = Slice(w)
        exprs = [keyassign[0].value] + [v for _, v, _, _ in sl.origins(keyassign[0].value, node) if v is not None]
        # extract-method: a key computed by a private helper is read through the helper's return value, with the
        # arguments substituted for its parameters
        import copy
        from .common import unit_functions
        helpers = {h.name: h for h in unit_functions(ctx.prog, w)[1:]}
        name_exprs = [keyassign[0].value]
        for e in list(exprs):
            for c in ast.walk(e):
                h = helpers.get(call_name(c)) if isinstance(c, ast.Call) and isinstance(c.func, ast.Name) else None
                if h is None:
                    continue
                ctx.touch(h)
                sub = dict(zip(h.params, c.args))
                sub.update({k.arg: k.value for k in c.keywords if k.arg})

                class S(ast.NodeTransformer):
                    def visit_Name(self, node):
                        return copy.deepcopy(sub[node.id]) if node.id in sub and isinstance(node.ctx, ast.Load) \
                            else node
                hsl, hcfg = Slice(h), bc(h)
                for r in (x for x in walk_fn(h) if isinstance(x, ast.Return) and x.value is not None):
                    hx = [r.value] + [v for _, v, _, _ in hsl.origins(r.value, hcfg.node_of(r)) if v is not None]
                    hx = [S().visit(copy.deepcopy(x)) for x in hx]
                    exprs += hx
                    name_exprs.append(hx[0])
        txt = ' '.join(norm(e) for e in exprs)
        ok_digest = 'hashlib.' in txt and 'hexdigest' in txt
        ok_args = any(isinstance(c, (ast.GeneratorExp, ast.ListComp)) and norm(c.generators[0].iter) == 'args' and
                      'pickle.dumps' in norm(c.elt) for e in exprs for c in ast.walk(e)) or \
            'pickle.dumps(args)' in txt
        ok_kwargs = 'kwargs.items()' in txt
        ok_name = any('name' in names_of(e) for e in name_exprs)
        no_hash = not any(isinstance(c, ast.Call) and isinstance(c.func, ast.Name) and c.func.id == 'hash'
                          for e in exprs for c in ast.walk(e))
    for nm, ok, desc in (('digest', ok_digest, 'the key is a hashlib digest (stable across processes and hash seeds)'),
                         ('positional-args', ok_args, 'every positional argument is pickled into the key'),
                         ('keyword-args', ok_kwargs, 'every keyword argument (name and value) is part of the key'),
                         ('function-name', ok_name, 'the function name is part of the key'),
                         ('no-builtin-hash', no_hash, 'no builtin hash() (randomised per process) in the key')):
        ctx.ob(rule, fkey(w, rule, nm), ok, w.where, desc, short(keyassign[0], 120) if keyassign else 'cache_key '
               'assignment not found')
    # canonical memo form of the wrapper: lookup and store use the same key variable
    stores = [s for s in walk_fn(w) if isinstance(s, ast.Assign) and any(
        isinstance(t, ast.Subscript) and norm(t.slice) == 'cache_key' for t in s.targets)]
    looks = [s for s in walk_fn(w) if isinstance(s, ast.Compare) and norm(s.left) == 'cache_key']
    ok = bool(stores) and bool(looks) and len(keyassign) == 1
    ctx.ob('A2', fkey(w, 'A2', 'wrapper-canonical'), ok, w.where,
           'the function cache looks up and stores under one key variable that is assigned once',
           f'{len(looks)} lookup(s), {len(stores)} store(s), {len(keyassign)} key assignment(s)')
    return 6


def names_of(e):
    return {x.id for x in ast.walk(e) if isinstance(x, ast.Name)}


def check_unconditional_recompute(ctx, fn_key, attr, rule='A5r'):
    """A derived-state attribute is re-assigned on *every* normal path of its recompute function (a path that
    skips the assignment leaves the value computed for an earlier state in place)."""
    fn = ctx.fn(fn_key)
    cfg = build_cfg(fn)
    stores = [n for n in cfg.nodes if n.kind == 'stmt' and isinstance(n.ast, (ast.Assign, ast.AnnAssign)) and
              any(is_self_attr(t, attr) for t in (n.ast.targets if isinstance(n.ast, ast.Assign) else [n.ast.target]))]
    return guards.check_passes(ctx, rule, fn, [cfg.exit], stores, f'always-reassigns:{attr}',
                               f'`self.{attr}` is derived state: {fn.qualname} re-assigns it on every normal path '
                               f'(also when the new value is "no restriction"), so that no value computed for an '
                               f'earlier state survives')
