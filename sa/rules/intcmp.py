"""Finite-domain evaluation of simple integer comparisons: the *set of values* for which a guard holds is a
semantic fact that is stable under re-writing (`x <= 1`, `x < 2`, `not x > 1`, `x in (0, 1)` are the same
set)."""
import ast

from ..model import norm

DOMAIN = tuple(range(-3, 9))


class NotSimple(Exception):
    pass


def _const(e, env=None):
    if isinstance(e, ast.Constant) and isinstance(e.value, (int, float)) and not isinstance(e.value, bool):
        return e.value
    if isinstance(e, ast.UnaryOp) and isinstance(e.op, ast.USub):
        return -_const(e.operand, env)
    if isinstance(e, ast.BinOp) and isinstance(e.op, (ast.Add, ast.Sub)):
        a, b = _const(e.left, env), _const(e.right, env)
        return a + b if isinstance(e.op, ast.Add) else a - b
    if env is not None and norm(e) in env:
        return env[norm(e)]
    raise NotSimple(norm(e))


def holds(test, var_pred, value, env=None):
    """Evaluate `test` with every sub-expression satisfying var_pred replaced by `value`."""
    def ev(e):
        if var_pred(e):
            return value
        if isinstance(e, ast.UnaryOp) and isinstance(e.op, ast.Not):
            return not ev(e.operand)
        if isinstance(e, ast.BoolOp):
            vals = [ev(v) for v in e.values]
            return all(vals) if isinstance(e.op, ast.And) else any(vals)
        if isinstance(e, ast.Compare):
            left = ev(e.left)
            for op, right in zip(e.ops, e.comparators):
                if isinstance(op, (ast.In, ast.NotIn)):
                    if not isinstance(right, (ast.Tuple, ast.List, ast.Set)):
                        raise NotSimple(norm(e))
                    r = [ev(x) for x in right.elts]
                    ok = left in r
                    if isinstance(op, ast.NotIn):
                        ok = not ok
                else:
                    r = ev(right)
                    ok = {ast.Eq: left == r, ast.NotEq: left != r, ast.Lt: left < r, ast.LtE: left <= r,
                          ast.Gt: left > r, ast.GtE: left >= r, ast.Is: left == r, ast.IsNot: left != r}.get(type(op))
                    if ok is None:
                        raise NotSimple(norm(e))
                if not ok:
                    return False
                left = r
            return True
        if isinstance(e, ast.BinOp) and isinstance(e.op, (ast.Add, ast.Sub, ast.Mult)):
            a, b = ev(e.left), ev(e.right)
            return a + b if isinstance(e.op, ast.Add) else (a - b if isinstance(e.op, ast.Sub) else a * b)
        return _const(e, env)
    return ev(test)


def value_set(test, var_pred, domain=DOMAIN, env=None):
    """frozenset of domain values for which the test holds; raises NotSimple for other idioms."""
    return frozenset(v for v in domain if holds(test, var_pred, v, env))


def is_len_of(pred):
    def p(e):
        return isinstance(e, ast.Call) and isinstance(e.func, ast.Name) and e.func.id == 'len' and e.args and \
            pred(e.args[0])
    return p


def emptiness(test, x_pred):
    """'empty' if test is true exactly when X is empty, 'nonempty' if exactly when non-empty, else None.
    Forms: len(X) == 0, len(X) < 1, not X, X (truthiness), len(X) > 0, len(X) >= 1, len(X) != 0."""
    if isinstance(test, ast.UnaryOp) and isinstance(test.op, ast.Not):
        r = emptiness(test.operand, x_pred)
        return {'empty': 'nonempty', 'nonempty': 'empty'}.get(r)
    if x_pred(test):
        return 'nonempty'
    if isinstance(test, ast.Call) and isinstance(test.func, ast.Name) and test.func.id == 'bool' and \
            len(test.args) == 1 and not test.keywords:
        return emptiness(test.args[0], x_pred)      # bool(X): truthiness spelled out
    try:
        s = value_set(test, is_len_of(x_pred), domain=tuple(range(0, 6)))
    except NotSimple:
        return None
    if s == frozenset({0}):
        return 'empty'
    if s == frozenset(range(1, 6)):
        return 'nonempty'
    return None
