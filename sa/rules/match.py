"""Rename-invariant matching of code fragments against a function.

A fragment is a piece of Python (expression, simple statement, `if <test>` header or `for <t> in <iter>`
header).  It matches a node of the function when both have the same structure with a *consistent, injective
renaming of local names*: every `Name` of the fragment that does not resolve at module level (classes,
functions, constants, imported modules), is not a builtin and is not `self`/`cls` is a pattern variable.
Attribute names, constants and operators are rigid.  So a shape clause survives the renaming of locals and
re-formatting, and fails when an operator, an attribute, a constant, a callee or the structure changes.
"""
import ast
import builtins

from ..model import norm, AnalysisError

_FLIP = {ast.Eq: ast.Eq, ast.NotEq: ast.NotEq, ast.Lt: ast.Gt, ast.Gt: ast.Lt, ast.LtE: ast.GtE, ast.GtE: ast.LtE}
_IGNORE = {'ctx', 'lineno', 'col_offset', 'end_lineno', 'end_col_offset', 'type_comment', 'kind'}
_BUILTINS = set(dir(builtins)) | {'self', 'cls', 'np', 'math', 'itertools', 'pd', 'nx', 'os', 'pickle', 'hashlib',
                                  'copy', 'ast', 'super'}


def _parse(fragment):
    kind, node = _parse_raw(fragment)
    from ..normalize import normalize_expr_tree
    if kind == 'kw':
        node.value = normalize_expr_tree(ast.Expression(body=node.value)).body
        return kind, node
    if kind in ('if', 'expr'):
        return kind, normalize_expr_tree(ast.Expression(body=node)).body
    return kind, normalize_expr_tree(ast.Module(body=[node], type_ignores=[])).body[0]


def _parse_raw(fragment):
    f = fragment.strip()
    import re as _re
    mkw = _re.match(r'^(\w+)=(?!=)(.+)$', f)
    if mkw and ' ' not in mkw.group(1):
        try:
            return 'kw', ast.keyword(arg=mkw.group(1), value=ast.parse(mkw.group(2), mode='eval').body)
        except SyntaxError:
            pass
    if f.startswith('if ') and not f.rstrip().endswith(':') and ' else ' not in f:
        return 'if', ast.parse(f[3:], mode='eval').body
    if f.startswith('for ') and ' in ' in f and not f.endswith(':') and not f.startswith('for ' + '('):
        try:
            node = ast.parse(f + ':\n    pass').body[0]
            return 'for', node
        except SyntaxError:
            pass
    try:
        return 'expr', ast.parse(f, mode='eval').body
    except SyntaxError:
        pass
    try:
        body = ast.parse(f).body
    except SyntaxError as e:
        raise AnalysisError(f'match: fragment does not parse: {fragment!r} ({e})')
    if len(body) != 1:
        raise AnalysisError(f'match: fragment must be one statement: {fragment!r}')
    return 'stmt', body[0]


class Matcher:
    def __init__(self, fn, prog=None):
        self.fn = fn
        self.module = fn.module
        self.prog = prog
        self._rigid_cache = {}

    def rigid(self, name):
        r = self._rigid_cache.get(name)
        if r is None:
            r = name in _BUILTINS
            if not r and self.prog is not None:
                r = self.prog.resolve(self.module, name) is not None
            self._rigid_cache[name] = r
        return r

    def unify(self, p, n, fwd, bwd, in_raise=False):
        if isinstance(p, ast.AST):
            if in_raise and isinstance(p, (ast.Constant, ast.JoinedStr)) and isinstance(n, (ast.Constant, ast.JoinedStr)) \
                    and (isinstance(p, ast.JoinedStr) or isinstance(p.value, str)) and \
                    (isinstance(n, ast.JoinedStr) or isinstance(n.value, str)):
                return True         # the wording of an error message is not part of what is decided
            if type(p) is not type(n):
                return False
            if isinstance(p, ast.Raise):
                in_raise = True
            if isinstance(p, ast.Name):
                if self.rigid(p.id):
                    return p.id == n.id
                if p.id in fwd:
                    return fwd[p.id] == n.id
                if n.id in bwd or self.rigid(n.id):
                    return False
                fwd[p.id] = n.id
                bwd[n.id] = p.id
                return True
            if isinstance(p, ast.Compare) and len(p.ops) == 1 and len(n.ops) == 1 and type(p.ops[0]) in _FLIP:
                # `a < b` and `b > a`, `a == b` and `b == a` are one comparison
                f1, b1 = dict(fwd), dict(bwd)
                if type(p.ops[0]) is type(n.ops[0]) and self.unify(p.left, n.left, f1, b1) and \
                        self.unify(p.comparators[0], n.comparators[0], f1, b1):
                    fwd.clear(); fwd.update(f1); bwd.clear(); bwd.update(b1)
                    return True
                f1, b1 = dict(fwd), dict(bwd)
                if _FLIP[type(p.ops[0])] is type(n.ops[0]) and self.unify(p.left, n.comparators[0], f1, b1) and \
                        self.unify(p.comparators[0], n.left, f1, b1):
                    fwd.clear(); fwd.update(f1); bwd.clear(); bwd.update(b1)
                    return True
                return False
            for field in p._fields:
                if field in _IGNORE:
                    continue
                if not self.unify(getattr(p, field, None), getattr(n, field, None), fwd, bwd, in_raise):
                    return False
            return True
        if isinstance(p, list):
            if not isinstance(n, list) or len(p) != len(n):
                return False
            return all(self.unify(a, b, fwd, bwd, in_raise) for a, b in zip(p, n))
        return p == n

    def find(self, fragment):
        kind, pat = _parse(fragment)
        out = []
        for node in ast.walk(self.fn.node):
            cands = []
            if kind == 'if':
                if isinstance(node, (ast.If, ast.While, ast.IfExp)):
                    cands.append((pat, node.test))
                elif isinstance(node, ast.comprehension):
                    cands += [(pat, c) for c in node.ifs]
            elif kind == 'for':
                if isinstance(node, (ast.For, ast.comprehension)):
                    fwd, bwd = {}, {}
                    if self.unify(pat.target, node.target, fwd, bwd) and self.unify(pat.iter, node.iter, fwd, bwd):
                        out.append(node)
                continue
            elif kind == 'kw':
                if isinstance(node, ast.keyword) and node.arg == pat.arg:
                    cands.append((pat.value, node.value))
            elif kind == 'expr':
                if isinstance(node, ast.expr):
                    cands.append((pat, node))
            else:
                if isinstance(node, ast.stmt):
                    cands.append((pat, node))
            for p, n in cands:
                if self.unify(p, n, {}, {}):
                    out.append(node)
        return out

    def has(self, fragment):
        return bool(self.find(fragment))

    def count(self, fragment):
        return len(self.find(fragment))


def has(ctx, fn, *fragments):
    """All fragments occur in fn (modulo consistent renaming of locals)."""
    m = Matcher(fn, ctx.prog)
    return all(m.has(f) for f in fragments)


def count(ctx, fn, fragment):
    return Matcher(fn, ctx.prog).count(fragment)


class FnText:
    """Drop-in replacement for the normalised text of a function body in shape clauses: `fragment in FnText`
    is true when the fragment matches a node of the function modulo a consistent renaming of locals (Matcher) -
    or, for fragments that are not parseable on their own, when it is a substring of the normalised text."""

    def __init__(self, ctx, fn, unit=True):
        self.fn = fn
        self.m = Matcher(fn, ctx.prog)
        self.text = ' '.join(norm(s) for s in fn.body)
        ctx.touch(fn)
        # the private helpers the function calls (and its nested functions) belong to what it does: a statement that
        # was moved into an extracted method is still found
        self.extra = []
        if unit:
            try:
                from .common import unit_functions
                for f in unit_functions(ctx.prog, fn)[1:]:
                    self.extra.append((Matcher(f, ctx.prog), ' '.join(norm(s) for s in f.body)))
            except Exception:
                self.extra = []

    def __contains__(self, fragment):
        import os
        try:
            if self.m.has(fragment):
                return True
            parse_ok = True
        except AnalysisError:
            parse_ok = False
        sub = fragment in self.text
        if sub and os.environ.get('SA_DEBUG_FRAGS'):
            print(f'TEXT-ONLY[{"noparse" if not parse_ok else "nomatch"}] {self.fn.qualname}: {fragment!r}')
        if sub:
            return True
        for m, text in self.extra:
            try:
                if m.has(fragment):
                    return True
            except AnalysisError:
                pass
            if fragment in text:
                return True
        return False

    def count(self, fragment):
        n = self.text.count(fragment)
        try:
            n = max(n, self.m.count(fragment))
        except AnalysisError:
            pass
        for m, text in self.extra:
            k = text.count(fragment)
            try:
                k = max(k, m.count(fragment))
            except AnalysisError:
                pass
            n += k
        return n

    def find(self, sub):
        return self.text.find(sub)

    def index(self, sub):
        return self.text.index(sub)

    def __getitem__(self, item):
        return self.text[item]

    def replace(self, a, b):
        return self.text.replace(a, b)

    def __str__(self):
        return self.text
