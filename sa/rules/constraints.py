"""A7 ENUM-EXH and A14 REL-AGREE for choice constraints: the option-removal implementation and the
valid-index-combination implementation must encode the same binary relation between an earlier and a
later choice, for every member of ChoiceConstraintType."""
import ast

from ..model import AnalysisError, norm, walk_no_nested
from ..astutil import short, call_name
from ..report import fkey
from .common import *

EXPECTED = {'LINKED': '=', 'PERMUTATION': '!=', 'UNORDERED': '<=', 'UNORDERED_NOREPL': '<'}
DIFFS = (-2, -1, 0, 1, 2)


def cct_members(prog):
    return prog.enum_members(prog.cls(f'{CCON}:ChoiceConstraintType'))


def _eval_chain_test(test, member, flags):
    """Evaluate an if-chain test for `<x> == ChoiceConstraintType.M` atoms and boolean flag names."""
    if isinstance(test, ast.BoolOp):
        vals = [_eval_chain_test(v, member, flags) for v in test.values]
        return all(vals) if isinstance(test.op, ast.And) else any(vals)
    if isinstance(test, ast.UnaryOp) and isinstance(test.op, ast.Not):
        return not _eval_chain_test(test.operand, member, flags)
    if isinstance(test, ast.Name) and test.id in flags:
        return flags[test.id]
    if isinstance(test, ast.Compare) and len(test.ops) == 1:
        m = enum_member(test.comparators[0], 'ChoiceConstraintType')
        if m is not None and isinstance(test.ops[0], (ast.Eq, ast.Is)):
            return m == member
        if m is not None and isinstance(test.ops[0], (ast.NotEq, ast.IsNot)):
            return m != member
        if isinstance(test.ops[0], (ast.In, ast.NotIn)) and isinstance(test.comparators[0],
                                                                      (ast.List, ast.Tuple, ast.Set)):
            ms = [enum_member(e, 'ChoiceConstraintType') for e in test.comparators[0].elts]
            r = member in ms
            return r if isinstance(test.ops[0], ast.In) else not r
    raise AnalysisError(f'A14: unrecognised dispatch test `{norm(test)}`')


def _ends(stmts):
    return bool(stmts) and isinstance(stmts[-1], (ast.Return, ast.Raise, ast.Continue, ast.Break))


def _select(stmts, member, flags):
    """The statements executed for `member`: dispatch tests (on the constraint type / on flags) are decided, the
    selected branch is spliced in, and what follows a branch that does not end in an exit is kept - so an
    if/elif/else chain, a sequence of guard clauses (`if t != M: raise` followed by the code for M) and mixtures
    of both select the same statements."""
    out = []
    for st in stmts:
        if isinstance(st, ast.If):
            try:
                val = _eval_chain_test(st.test, member, flags)
            except AnalysisError:
                if 'ChoiceConstraintType' in norm(st.test):
                    raise
                val = None
            if val is not None:
                sel = _select(st.body if val else st.orelse, member, flags)
                out += sel
                if _ends(sel):
                    return out
                continue
        out.append(st)
        if _ends([st]):
            return out
    return out


def chain_branch(chain_if, member, flags):
    """The statements selected by a dispatch over the constraint type for the member (see _select)."""
    return _select([chain_if], member, flags)


def find_region(fn, subject_pred):
    """The dispatching `if` together with what follows it in its block (if/elif chain or guard-clause sequence)."""
    todo = [fn.node]
    while todo:
        nd = todo.pop(0)
        if isinstance(nd, (ast.FunctionDef, ast.AsyncFunctionDef, ast.Lambda, ast.ClassDef)) and nd is not fn.node:
            continue
        for f in ('body', 'orelse', 'finalbody'):
            b = getattr(nd, f, None)
            if isinstance(b, list) and b and isinstance(b[0], ast.stmt):
                for i, st in enumerate(b):
                    if isinstance(st, ast.If) and subject_pred(st.test):
                        return b[i:]
                    todo.append(st)
        for h in getattr(nd, 'handlers', []):
            todo.append(h)
    return None


def find_chain(fn, subject_pred):
    for s in walk_fn(fn):
        if isinstance(s, ast.If) and subject_pred(s.test):
            # outermost chain: not itself the orelse of another If
            return s
    return None


def _offset(e, kname):
    """e as (k + c) -> c ; None if e is None ; raises for other forms."""
    if e is None:
        return None
    if isinstance(e, ast.Name) and e.id == kname:
        return 0
    if isinstance(e, ast.BinOp) and isinstance(e.left, ast.Name) and e.left.id == kname and \
            isinstance(e.right, ast.Constant) and isinstance(e.op, (ast.Add, ast.Sub)):
        return e.right.value if isinstance(e.op, ast.Add) else -e.right.value
    raise AnalysisError(f'A14: unrecognised slice bound `{norm(e)}`')


def removed_diffs(expr, kname):
    """Set of d = j - k (d in DIFFS) for which option j is removed by the removal expression."""
    if isinstance(expr, ast.Subscript) and isinstance(expr.slice, ast.Slice):
        lo, hi = _offset(expr.slice.lower, kname), _offset(expr.slice.upper, kname)
        if expr.slice.step is not None:
            raise AnalysisError('A14: slice step')
        return {d for d in DIFFS if (lo is None or d >= lo) and (hi is None or d < hi)}
    if isinstance(expr, ast.List) and len(expr.elts) == 1 and isinstance(expr.elts[0], ast.Subscript):
        c = _offset(expr.elts[0].slice, kname)
        return {d for d in DIFFS if d == c}
    if isinstance(expr, ast.ListComp) and len(expr.generators) == 1:
        g = expr.generators[0]
        # [opt for j, opt in enumerate(options) if j <op> k]
        cond = g.ifs[0] if len(g.ifs) == 1 else None
        negate = False
        while isinstance(cond, ast.UnaryOp) and isinstance(cond.op, ast.Not):
            cond = cond.operand
            negate = not negate
        if isinstance(g.target, ast.Tuple) and isinstance(g.target.elts[0], ast.Name) and \
                isinstance(cond, ast.Compare) and len(cond.ops) == 1:
            j = g.target.elts[0].id
            c = cond
            if not (isinstance(c.left, ast.Name) and c.left.id == j) and isinstance(c.comparators[0], ast.Name) and \
                    c.comparators[0].id == j:
                # `k <op> j` is `j <flipped op> k`
                flip = {ast.Eq: ast.Eq, ast.NotEq: ast.NotEq, ast.Lt: ast.Gt, ast.Gt: ast.Lt, ast.LtE: ast.GtE,
                        ast.GtE: ast.LtE}.get(type(c.ops[0]))
                if flip is not None:
                    c = ast.Compare(left=c.comparators[0], ops=[flip()], comparators=[c.left])
            if isinstance(c.left, ast.Name) and c.left.id == j:
                off = _offset(c.comparators[0], kname)
                op = type(c.ops[0])
                f = {ast.NotEq: lambda d: d != off, ast.Eq: lambda d: d == off, ast.Lt: lambda d: d < off,
                     ast.LtE: lambda d: d <= off, ast.Gt: lambda d: d > off, ast.GtE: lambda d: d >= off}.get(op)
                if f:
                    return {d for d in DIFFS if f(d) != negate}
    raise AnalysisError(f'A14: unrecognised removal expression `{short(expr)}`')


def relation_from_kept(kept_later_minus_earlier):
    """Map the kept set of (later index - earlier index) to a relation symbol."""
    s = frozenset(kept_later_minus_earlier)
    table = {frozenset({0}): '=', frozenset({-2, -1, 1, 2}): '!=', frozenset({0, 1, 2}): '<=',
             frozenset({1, 2}): '<', frozenset(DIFFS): 'any', frozenset(): 'none',
             frozenset({-2, -1, 0}): '>=', frozenset({-2, -1}): '>'}
    return table.get(s, f'?{sorted(s)}')


def _dispatch_table(ctx, fn):
    """`g = TABLE.get(<constraint>.type)` / `TABLE[<constraint>.type]` followed by `g(args)`, TABLE a module-level dict
    from ChoiceConstraintType members to module functions.  Returns {'bodies': member -> statements of the registered
    function with the call's arguments substituted for its parameters, 'raises_on_missing': bool} or None."""
    import copy
    mod = fn.module
    tables = {}
    for st in mod.tree.body:
        tgt, val = None, None
        if isinstance(st, ast.Assign) and len(st.targets) == 1 and isinstance(st.targets[0], ast.Name):
            tgt, val = st.targets[0].id, st.value
        elif isinstance(st, ast.AnnAssign) and isinstance(st.target, ast.Name):
            tgt, val = st.target.id, st.value
        if tgt and isinstance(val, ast.Dict) and val.keys and all(
                k is not None and enum_member(k, 'ChoiceConstraintType') for k in val.keys) and \
                all(isinstance(v, ast.Name) and v.id in mod.functions for v in val.values):
            tables[tgt] = {enum_member(k, 'ChoiceConstraintType'): mod.functions[v.id]
                           for k, v in zip(val.keys, val.values)}
    if not tables:
        return None
    looked = {}     # local name -> table
    for a in walk_fn(fn):
        if isinstance(a, ast.Assign) and isinstance(a.targets[0], ast.Name):
            v = a.value
            if isinstance(v, ast.Call) and isinstance(v.func, ast.Attribute) and v.func.attr == 'get' and \
                    isinstance(v.func.value, ast.Name) and v.func.value.id in tables and v.args and \
                    norm(v.args[0]).endswith('.type'):
                looked[a.targets[0].id] = (tables[v.func.value.id], 'get')
            if isinstance(v, ast.Subscript) and isinstance(v.value, ast.Name) and v.value.id in tables and \
                    norm(v.slice).endswith('.type'):
                looked[a.targets[0].id] = (tables[v.value.id], 'index')
    for c in walk_fn(fn):
        if isinstance(c, ast.Call) and isinstance(c.func, ast.Name) and c.func.id in looked:
            tab, how = looked[c.func.id]
            bodies = {}
            for m, h in tab.items():
                ctx.touch(h)
                sub = dict(zip(h.params, c.args))
                sub.update({k.arg: k.value for k in c.keywords if k.arg})

                class S(ast.NodeTransformer):
                    def visit_Name(self, node):
                        return copy.deepcopy(sub[node.id]) if node.id in sub and isinstance(node.ctx, ast.Load) \
                            else node
                bodies[m] = [S().visit(copy.deepcopy(x)) for x in h.node.body
                             if not (isinstance(x, ast.Expr) and isinstance(x.value, ast.Constant))]
            # a missing entry: `.get` returns None and the function raises under `<g> is None`; `[...]` raises KeyError
            raises = how == 'index' or any(
                isinstance(i_, ast.If) and none_test(i_.test) == ('is_none', c.func.id) and
                any(isinstance(x, ast.Raise) for x in i_.body) for i_ in walk_fn(fn))
            return {'bodies': bodies, 'raises_on_missing': raises}
    return None


def removal_relations(ctx):
    """member -> relation(earlier, later) kept by get_constraint_removed_options."""
    fn = ctx.fn(f'{CCON}:get_constraint_removed_options')
    params = fn.params
    kname = params[2]
    cname = params[1]
    pred = lambda t: 'ChoiceConstraintType' in norm(t) and 'type' in norm(t)  # noqa: E731
    region = find_region(fn, pred)
    if region is None:
        # extract-method: the per-choice dispatch lives in a private helper; its parameters are renamed to the
        # caller's argument names
        from .common import unit_functions
        for h in unit_functions(ctx.prog, fn)[1:]:
            region = find_region(h, pred)
            if region is None:
                continue
            ctx.touch(h)
            cs = [c for c in walk_fn(fn) if isinstance(c, ast.Call) and call_name(c) == h.name]
            if cs:
                # the helper's statements with the call's arguments substituted for its parameters: `if is_preceding`
                # reads as `if i < i_taken_choice`, the parameter names do not matter
                import copy
                sub = dict(zip(h.params, cs[0].args))
                sub.update({k.arg: k.value for k in cs[0].keywords if k.arg})

                class S(ast.NodeTransformer):
                    def visit_Name(self, node):
                        return copy.deepcopy(sub[node.id]) if node.id in sub and isinstance(node.ctx, ast.Load) \
                            else node
                region = [S().visit(copy.deepcopy(x)) for x in region]
            break
    table = None
    if region is None:
        table = _dispatch_table(ctx, fn)
    if region is None and table is None:
        raise AnalysisError('get_constraint_removed_options: dispatch chain not found')
    out = {}
    for m in cct_members(ctx.prog):
        if table is not None:
            # dictionary dispatch: the body of the function registered for the member, with the call's arguments
            # substituted for its parameters; a member without an entry must end in the raise that follows the look-up
            body = table['bodies'].get(m)
            if body is None:
                if not table['raises_on_missing']:
                    raise AnalysisError(f'get_constraint_removed_options: no entry for {m} and no raise for a missing '
                                        f'entry')
                out[m] = 'raise'
                continue
        else:
            body = _select(region, m, {})
        if any(isinstance(s, ast.Raise) for s in body):
            out[m] = 'raise'
            continue
        # kept (later - earlier) when the *taken* choice is the earlier one (other choice i is later: i > c)
        # and when the taken one is the later one (i < c)
        rel = {}
        for side in ('other_before', 'other_after'):
            expr = _removal_expr(body, side, cname, kname)
            if expr is None:
                rel[side] = set(DIFFS)
                continue
            removed = removed_diffs(expr, kname)     # d = j - k ; j index in the *other* choice
            kept = set(DIFFS) - removed
            if side == 'other_after':
                # other is later: later - earlier = j - k
                rel[side] = kept
            else:
                # other is earlier: later - earlier = k - j = -d
                rel[side] = {-d for d in kept}
        r1, r2 = relation_from_kept(rel['other_before']), relation_from_kept(rel['other_after'])
        out[m] = r1 if r1 == r2 else f'{r1}|{r2}'
    return fn, out


def _removal_expr(body, side, cname, kname):
    """The expression assigned to removed_opts for the given side in a branch body (handles the nested
    `if i < i_taken_choice: .. else: ..` and `if enough_options: .. else: ..`)."""
    for st in body:
        if isinstance(st, ast.Assign) and norm(st.targets[0]) == 'removed_opts':
            return st.value
        if isinstance(st, ast.Return) and st.value is not None and not isinstance(st.value, ast.Name):
            v = st.value
            if isinstance(v, ast.IfExp):
                # `<removed> if enough_options else []`: the conditional-expression form of the nested test below
                t, neg = v.test, False
                if isinstance(t, ast.UnaryOp) and isinstance(t.op, ast.Not):
                    t, neg = t.operand, True
                tt = norm(t)
                if tt == 'enough_options' or tt in (f'{kname} < len(options)', f'len(options) > {kname}') or \
                        (tt.startswith('len(') and tt.endswith(f') - 1 >= {kname}')):
                    v = v.orelse if neg else v.body
                else:
                    raise AnalysisError(f'A14: unrecognised conditional removal `{norm(st.value)}`')
            if isinstance(v, (ast.List, ast.Tuple)) and not v.elts:
                return None     # nothing removed
            return v
        if isinstance(st, ast.If):
            t = norm(st.test)
            if cname in t and ('<' in t or '>' in t):
                # i < c  -> other choice is before the taken one
                tst = st.test
                if isinstance(tst, ast.Compare) and len(tst.ops) == 1 and norm(tst.left) == cname:
                    flip = {ast.Lt: ast.Gt, ast.Gt: ast.Lt, ast.LtE: ast.GtE, ast.GtE: ast.LtE}.get(type(tst.ops[0]))
                    if flip is not None:        # `c > i` is `i < c`
                        tst = ast.Compare(left=tst.comparators[0], ops=[flip()], comparators=[tst.left])
                before_first = isinstance(tst, ast.Compare) and isinstance(tst.ops[0], ast.Lt) and \
                    norm(tst.comparators[0]) == cname
                after_first = isinstance(tst, ast.Compare) and isinstance(tst.ops[0], ast.Gt) and \
                    norm(tst.comparators[0]) == cname
                if not (before_first or after_first):
                    raise AnalysisError(f'A14: unrecognised side test `{t}`')
                pick_body = (side == 'other_before') == before_first
                if pick_body:
                    return _removal_expr(st.body, side, cname, kname)
                if st.orelse:
                    return _removal_expr(st.orelse, side, cname, kname)
                continue        # guard-clause form: the other side follows
            if t == 'enough_options' or t in (f'len(options) - 1 >= {kname}', f'{kname} <= len(options) - 1',
                                              f'{kname} < len(options)', f'len(options) > {kname}'):
                return _removal_expr(st.body, side, cname, kname)
            raise AnalysisError(f'A14: unrecognised nested test `{t}`')
    return None


def validity_relations(ctx):
    """(member, is_all_permanent) -> relation(earlier, later) accepted by get_valid_idx_combinations."""
    fn = ctx.fn(f'{CCON}:get_valid_idx_combinations')
    region = find_region(fn, lambda t: 'ChoiceConstraintType' in norm(t))
    if region is None:
        raise AnalysisError('get_valid_idx_combinations: dispatch chain not found')
    flag = [p for p in fn.params if 'permanent' in p]
    flag = flag[0] if flag else 'is_all_permanent'
    out = {}
    for m in cct_members(ctx.prog):
        for perm in (False, True):
            # the statements of the dispatch region selected for the member (if/elif chain, guard clauses with early
            # return, or a mixture); what follows the region's dispatching ifs is shared and ignored here
            body = _select([x for x in region if isinstance(x, ast.If)], m, {flag: perm})
            out[(m, perm)] = _checker_relation(fn, body, m, {flag: perm})
    return fn, out


NP_OPS = {'not_equal': '!=', 'equal': '=', 'less_equal': '<=', 'less': '<', 'greater_equal': '>=', 'greater': '>'}


def _columnwise_relation(fn, body):
    """Vectorised form: a loop over column pairs (i, j) combining `compare(idx[:, i], idx[:, j])` (directly or
    through a nested helper taking the two column indices and the comparison function) into the valid mask.
    Returns (relation, pairs, skips_inactive) or None.  pairs: 'all' (itertools.combinations(.., 2)) or
    'adjacent' ((i, i+1) over range(n-1))."""
    for s in body:
        if not isinstance(s, ast.For):
            continue
        it = norm(s.iter)
        if 'combinations(' in it and it.rstrip(')').endswith(', 2'):
            pairs = 'all'
        elif it.startswith('range(') and any(isinstance(b, ast.BinOp) and isinstance(b.op, ast.Add) and
                                              isinstance(b.right, ast.Constant) and b.right.value == 1
                                              for st in s.body for b in ast.walk(st)):
            pairs = 'adjacent'
        else:
            continue
        rel, skip = None, False
        for st in s.body:
            for sub in ast.walk(st):
                if isinstance(sub, ast.Compare) and len(sub.ops) == 1 and '[:, ' in norm(sub.left) and \
                        '[:, ' in norm(sub.comparators[0]):
                    rel = {ast.NotEq: '!=', ast.Eq: '=', ast.LtE: '<=', ast.Lt: '<', ast.GtE: '>=',
                           ast.Gt: '>'}.get(type(sub.ops[0]), '?')
                if isinstance(sub, ast.Compare) and len(sub.ops) == 1 and isinstance(sub.ops[0], ast.Eq) and \
                        norm(sub.comparators[0]) == '-1':
                    skip = True
                if isinstance(sub, ast.Call) and isinstance(sub.func, ast.Name) and sub.func.id in fn.nested:
                    helper = fn.nested[sub.func.id]
                    htxt = ' '.join(norm(x) for x in helper.body)
                    for a in sub.args:
                        nm = norm(a).split('.')[-1]
                        if nm in NP_OPS:
                            rel = NP_OPS[nm]
                    if 'inactive' in htxt or '== -1' in htxt:
                        skip = True
        if rel is not None:
            return rel, pairs, skip
    return None


def _predicate_relation(h, member, hfl):
    """Relation (earlier <rel> later) kept by a row predicate function: adjacent elements compared through shifted
    views (`x[:-1]` / `x[1:]`, directly, through locals, or paired by zip), all elements compared with the first."""
    stmts = _select(list(h.node.body), member, hfl)
    role = {}
    for a in stmts:
        if isinstance(a, ast.Assign):
            tg, vs = a.targets[0], a.value
            pairs = list(zip(tg.elts, vs.elts)) if isinstance(tg, ast.Tuple) and isinstance(vs, ast.Tuple) \
                else [(tg, vs)]
            for t_, v_ in pairs:
                if isinstance(t_, ast.Name) and isinstance(v_, ast.Subscript):
                    sl = norm(v_.slice)
                    if sl == ':-1':
                        role[t_.id] = 'earlier'
                    elif sl == '1:':
                        role[t_.id] = 'later'

    def side(e, extra):
        if isinstance(e, ast.Name):
            return extra.get(e.id) or role.get(e.id)
        if isinstance(e, ast.Subscript):
            return {':-1': 'earlier', '1:': 'later', '0': 'first'}.get(norm(e.slice))
        return None
    inv = {ast.Lt: ast.GtE, ast.LtE: ast.Gt, ast.Gt: ast.LtE, ast.GtE: ast.Lt, ast.Eq: ast.NotEq, ast.NotEq: ast.Eq}
    for r in stmts:
        if not (isinstance(r, ast.Return) and r.value is not None):
            continue
        v, neg = r.value, False
        if isinstance(v, ast.Call) and isinstance(v.func, ast.Name) and v.func.id == 'bool' and len(v.args) == 1:
            v = v.args[0]
        if isinstance(v, ast.UnaryOp) and isinstance(v.op, ast.Not):
            v, neg = v.operand, True
        if not (isinstance(v, ast.Call) and call_name(v) in ('any', 'all') and len(v.args) == 1):
            return None
        arg, extra = v.args[0], {}
        if isinstance(arg, (ast.GeneratorExp, ast.ListComp)) and len(arg.generators) == 1:
            g = arg.generators[0]
            if isinstance(g.iter, ast.Call) and call_name(g.iter) == 'zip' and isinstance(g.target, ast.Tuple) and \
                    len(g.target.elts) == len(g.iter.args) == 2:
                for t_, a_ in zip(g.target.elts, g.iter.args):
                    sd = side(a_, {})
                    if isinstance(t_, ast.Name) and sd:
                        extra[t_.id] = sd
            arg = arg.elt
        if not (isinstance(arg, ast.Compare) and len(arg.ops) == 1):
            return None
        l, rr = side(arg.left, extra), side(arg.comparators[0], extra)
        op = type(arg.ops[0])
        if {l, rr} == {'later', 'first'}:
            # every other element compared with the first one
            if call_name(v) == 'all' and not neg and op is ast.Eq:
                return '='
            raise AnalysisError(f'A14: unrecognised row predicate `{norm(r.value)}`')
        if {l, rr} != {'earlier', 'later'}:
            raise AnalysisError(f'A14: unrecognised row comparison `{norm(arg)}`')
        if call_name(v) == 'any' and neg:
            op = inv[op]            # rejected when the comparison holds somewhere
        elif call_name(v) == 'all' and not neg:
            pass                    # kept when it holds everywhere
        else:
            raise AnalysisError(f'A14: unrecognised row predicate `{norm(r.value)}`')
        if l == 'later':
            kept = {ast.GtE: '<=', ast.Gt: '<', ast.LtE: '>=', ast.Lt: '>', ast.NotEq: '!=', ast.Eq: '='}
        else:
            kept = {ast.LtE: '<=', ast.Lt: '<', ast.GtE: '>=', ast.Gt: '>', ast.NotEq: '!=', ast.Eq: '='}
        return kept.get(op, '?')
    return None


def _flagged_row_predicate(fn, body, member, flags):
    """Relation kept by a row predicate chosen in the branch for this member / flag assignment: `lambda row:
    helper(row, flag=<local bool>)`, or `is_valid = <predicate function>` / `= A if <local bool> else B`; else None."""
    if member is None:
        return None
    fl = dict(flags)
    for st in body:
        if isinstance(st, ast.Assign) and isinstance(st.targets[0], ast.Name):
            try:
                fl[st.targets[0].id] = bool(_eval_chain_test(st.value, member, fl))
            except AnalysisError:
                pass

    def module_fn(name):
        return fn.module.functions.get(name) or fn.nested.get(name)

    # (iii) an `if <local flag>:` inside the branch selects between row predicates: follow the side the flag takes
    def flatten(stmts):
        out = []
        for st_ in stmts:
            if isinstance(st_, ast.If):
                try:
                    out += flatten(st_.body if _eval_chain_test(st_.test, member, fl) else st_.orelse)
                    continue
                except AnalysisError:
                    pass
            out.append(st_)
        return out
    body = flatten(body)
    # ... and a lambda that is itself the vectorised row predicate (`lambda v: not np.any(v[1:] <= v[:-1])`)
    import types
    for st in body:
        for lam in ast.walk(st):
            if isinstance(lam, ast.Lambda) and len(lam.args.args) == 1:
                fake = types.SimpleNamespace(node=types.SimpleNamespace(body=[ast.Return(value=lam.body)]))
                try:
                    r = _predicate_relation(fake, member, {})
                except AnalysisError:
                    r = None
                if r is not None:
                    return r
    for st in body:
        # (ii) a predicate function selected by assignment
        if isinstance(st, ast.Assign) and isinstance(st.targets[0], ast.Name):
            v = st.value
            if isinstance(v, ast.IfExp):
                try:
                    v = v.body if _eval_chain_test(v.test, member, fl) else v.orelse
                except AnalysisError:
                    v = None
            if isinstance(v, ast.Name) and module_fn(v.id) is not None and len(module_fn(v.id).params) == 1:
                r = _predicate_relation(module_fn(v.id), member, {})
                if r is not None:
                    return r
        # (i) lambda wrapping a helper with a strictness flag
        for lam in ast.walk(st):
            if not (isinstance(lam, ast.Lambda) and isinstance(lam.body, ast.Call) and
                    isinstance(lam.body.func, ast.Name)):
                continue
            h = module_fn(lam.body.func.id)
            if h is None:
                continue
            c = lam.body
            hfl = {}
            bind = list(zip(h.params, c.args)) + [(k.arg, k.value) for k in c.keywords if k.arg]
            for q, a in bind:
                if isinstance(a, ast.Name) and a.id in fl:
                    hfl[q] = fl[a.id]
                elif isinstance(a, ast.Constant) and isinstance(a.value, bool):
                    hfl[q] = a.value
            r = _predicate_relation(h, member, hfl)
            if r is not None:
                return r
    return None


def _checker_relation(fn, body, member=None, flags=None):
    if any(isinstance(s, ast.Raise) for s in body):
        return 'raise'
    cw = _columnwise_relation(fn, body)
    if cw is not None:
        rel, pairs, skip = cw
        if pairs == 'adjacent' and skip and rel != '=':
            return f'{rel} on adjacent columns only, skipping inactive entries (not enforced across an inactive choice)'
        return rel
    txt = ' '.join(norm(s) for s in body)
    # pairwise != over columns
    for s in body:
        for sub in ast.walk(s):
            if isinstance(sub, ast.Compare) and len(sub.ops) == 1 and 'idx_comb[:, i]' in norm(sub.left) and \
                    'idx_comb[:, j]' in norm(sub.comparators[0]):
                return {ast.NotEq: '!=', ast.Eq: '=', ast.LtE: '<=', ast.Lt: '<'}.get(type(sub.ops[0]), '?')
    # lambda v: np.all(v[1:] == v[0])
    for s in body:
        for sub in ast.walk(s):
            if isinstance(sub, ast.Lambda):
                for c in ast.walk(sub.body):
                    if isinstance(c, ast.Compare) and len(c.ops) == 1 and norm(c.left).endswith('[1:]') and \
                            norm(c.comparators[0]).endswith('[0]'):
                        return {ast.Eq: '=', ast.NotEq: '!=', ast.GtE: '<=', ast.Gt: '<'}.get(type(c.ops[0]), '?')
    # vectorised row predicate with a strictness flag: `is_strict = <test on type / flag>` ... `lambda row:
    # _is_ordered(row, strict=is_strict)` where the helper compares `row[1:]` with `row[:-1]`
    r = _flagged_row_predicate(fn, body, member, flags or {})
    if r is not None:
        return r
    # row checker function (nested, or a module-level helper handed to the row iteration):
    #   `if row[i] <op> row[i-1]: return False ... return True`, `return not any(row[i] <op> row[i-1] for i in ...)`,
    #   `return all(row[i] <op> row[i-1] for i in ...)`
    checkers = [s for s in body if isinstance(s, ast.FunctionDef)]
    for s in body:
        for c in ast.walk(s):
            if isinstance(c, ast.Call):
                for a_ in c.args:
                    if isinstance(a_, ast.Name):
                        h = fn.nested.get(a_.id) or fn.module.functions.get(a_.id)
                        if h is not None and h.node not in checkers and len(h.params) == 1:
                            checkers.append(h.node)
    _INV = {ast.Lt: ast.GtE, ast.LtE: ast.Gt, ast.Gt: ast.LtE, ast.GtE: ast.Lt, ast.Eq: ast.NotEq, ast.NotEq: ast.Eq}
    for s in checkers:
        found = []   # (compare, rejected_when_true)
        for c in ast.walk(s):
            if isinstance(c, ast.If) and isinstance(c.test, ast.Compare) and len(c.test.ops) == 1 and \
                    any(isinstance(r, ast.Return) and isinstance(r.value, ast.Constant) and r.value.value is False
                        for r in c.body):
                found.append((c.test, True))
            if isinstance(c, ast.Return) and c.value is not None:
                v, neg = c.value, False
                if isinstance(v, ast.UnaryOp) and isinstance(v.op, ast.Not):
                    v, neg = v.operand, True
                if isinstance(v, ast.Call) and isinstance(v.func, ast.Name) and v.func.id in ('any', 'all') and \
                        len(v.args) == 1 and isinstance(v.args[0], (ast.GeneratorExp, ast.ListComp)) and \
                        isinstance(v.args[0].elt, ast.Compare) and len(v.args[0].elt.ops) == 1:
                    if v.func.id == 'any' and neg:
                        found.append((v.args[0].elt, True))
                    elif v.func.id == 'all' and not neg:
                        found.append((v.args[0].elt, False))
        for cmp_, rejected in found:
            l, r = cmp_.left, cmp_.comparators[0]
            if not (isinstance(l, ast.Subscript) and isinstance(r, ast.Subscript)):
                raise AnalysisError(f'A14: unrecognised row comparison `{norm(cmp_)}`')

            def prev_of(a_, b_):
                # b_ indexes the element before a_
                return norm(b_.slice) == f'{norm(a_.slice)} - 1' or norm(a_.slice) == f'{norm(b_.slice)} + 1'
            later_first = prev_of(l, r)
            earlier_first = prev_of(r, l)
            if not (later_first or earlier_first):
                raise AnalysisError(f'A14: unrecognised row comparison `{norm(cmp_)}`')
            op = type(cmp_.ops[0])
            if rejected:
                op = _INV.get(op)
            # op now relates (left, right) of a kept row; express as earlier <rel> later
            if later_first:
                kept = {ast.GtE: '<=', ast.Gt: '<', ast.LtE: '>=', ast.Lt: '>', ast.NotEq: '!=', ast.Eq: '='}
            else:
                kept = {ast.LtE: '<=', ast.Lt: '<', ast.GtE: '>=', ast.Gt: '>', ast.NotEq: '!=', ast.Eq: '='}
            return kept.get(op, '?')
    raise AnalysisError(f'A14: unrecognised validity checker: {txt[:100]}')


def check_dispatchers(ctx, rule='A7'):
    """Every if/elif chain over ChoiceConstraintType members decides every member or ends in raise; chains that
    treat a subset only are tabled."""
    SUBSET_TABLE = {
        'adsg_core.graph.adsg:DSG.set_des_var_value': 'design-variable nodes only support LINKED; everything else raises',
        'adsg_core.graph.adsg:DSG.constrain_choices': 'design-variable nodes only support LINKED (raise otherwise); the '
                                                     'UNORDERED pair needs equal option counts',
        'adsg_core.optimization.hierarchy.fast:FastHierarchyAnalyzer._get_selection_choice_is_forced':
            'only LINKED collapses design variables in the fast encoder',
        'adsg_core.graph.choice_constraints:get_constraint_pre_removed_options':
            'pre-removal exists for PERMUTATION (too many choices) and all-permanent UNORDERED_NOREPL only; every '
            'other case returns no pre-removed options',
        'adsg_core.graph.choice_constraints:count_n_combinations_max':
            'counting fix-up for UNORDERED_NOREPL only; the count itself dispatches in '
            'get_valid_idx_combinations',
    }
    members = cct_members(ctx.prog)
    n = 0
    for fn in ctx.prog.all_functions():
        if fn.module.name.startswith('adsg_core.examples') or 'export' in fn.module.name or \
                'render' in fn.module.name:
            continue
        # dispatch regions: a dispatching `if` together with what follows it in its block (guard-clause form:
        # `if t != M: raise` followed by the code for M); dispatching ifs inside the else part of a region belong
        # to that region
        chains = []
        seen_orelse = set()

        def is_dispatch(st):
            return isinstance(st, ast.If) and 'ChoiceConstraintType.' in norm(st.test)

        def mark(stmts):
            for st in stmts:
                if is_dispatch(st):
                    seen_orelse.add(id(st))
                    mark(st.orelse)

        def blocks(node):
            for f in ('body', 'orelse', 'finalbody'):
                b = getattr(node, f, None)
                if isinstance(b, list) and b and isinstance(b[0], ast.stmt):
                    yield b
            for h in getattr(node, 'handlers', []):
                yield h.body
        todo = [fn.node]
        while todo:
            nd = todo.pop(0)
            if isinstance(nd, (ast.FunctionDef, ast.AsyncFunctionDef, ast.Lambda, ast.ClassDef)) and nd is not fn.node:
                continue
            for b in blocks(nd):
                for i, st in enumerate(b):
                    if is_dispatch(st) and id(st) not in seen_orelse:
                        mark(st.orelse)
                        # further dispatching guards of the same block belong to this region
                        for later in b[i + 1:]:
                            if is_dispatch(later):
                                seen_orelse.add(id(later))
                                mark(later.orelse)
                        chains.append((st, b[i + 1:]))
                    todo.append(st)
        for ch, rest in chains:
            n += 1
            ctx.touch(fn)
            flags_names = set()
            for x in [ch] + [r for r in rest if is_dispatch(r)]:
                node = x
                while True:
                    flags_names |= {y.id for y in ast.walk(node.test) if isinstance(y, ast.Name)}
                    nxt = [o for o in node.orelse if is_dispatch(o)]
                    if nxt:
                        node = nxt[0]
                    else:
                        break
            guard_region = any(is_dispatch(r) for r in rest) or (not ch.orelse and _ends(ch.body))
            try:
                decided = {}
                for m in members:
                    fl = {nm: True for nm in flags_names}
                    region = [ch] + (list(rest) if guard_region else [])
                    body = _select(region, m, fl)
                    body2 = _select(region, m, {nm: False for nm in flags_names})
                    decided[m] = bool(body) or bool(body2)
                undecided = [m for m in members if not decided[m]]
            except AnalysisError:
                undecided = None
            key = fn.outermost.key
            if undecided is None:
                ok = key in SUBSET_TABLE
                detail = 'dispatch test not in the recognised forms'
            elif not undecided:
                ok, detail = True, f'all members {members} reach a branch'
            else:
                ok = key in SUBSET_TABLE
                detail = f'members without a branch: {undecided}' + (f' - tabled: {SUBSET_TABLE[key]}' if ok else
                                                                      ' - silently ignored')
            if ok and key in SUBSET_TABLE:
                ctx.used_exception('A7', key, SUBSET_TABLE[key])
            ctx.ob(rule, fkey(fn, rule, f'dispatch:{short(ch.test, 50)}'), ok, f'{fn.module.relpath}:{ch.lineno}',
                   'a dispatch over ChoiceConstraintType decides every member (or raises); a subset dispatch is a '
                   'tabled, triaged site', detail)
    return n
