"""A6 TAINT-SAN instances on design vectors: the raw input vector never reaches a reported vector / a decoder
except through the correcting functions."""
import ast

from .match import FnText
from ..model import AnalysisError, norm, walk_no_nested
from ..cfg import build_cfg, node_exprs
from ..flow import forward_taint, taint_by_flag
from ..astutil import short, call_name
from ..report import fkey
from . import guards
from .common import *


def _san(names):
    names = set(names)

    def sanitizer(e):
        return isinstance(e, ast.Call) and call_name(e) in names
    return sanitizer


def make_call_summary(ctx, fn, sanitizer, depth=2):
    """Taint of the value of `self._helper(x)` through the resolved private helper: False (clean) when no return of
    the helper depends on a parameter that receives a tainted argument; None when unknown."""
    def summary(call, is_tainted):
        if not (isinstance(call.func, ast.Attribute) and isinstance(call.func.value, ast.Name) and
                call.func.value.id in ('self', 'cls') and call.func.attr.startswith('_')) or depth <= 0:
            return None
        site = next((s for s in ctx.cg.sites(fn) if s.node is call), None)
        if site is None or site.tag not in ('exact', 'typed') or not site.targets:
            return None
        for callee in site.targets:
            if isinstance(callee.node, ast.Lambda):
                return None
            params = callee.params
            off = 1 if (callee.cls is not None and not callee.is_static and params) else 0
            src = {params[i + off] for i, a in enumerate(call.args) if i + off < len(params) and is_tainted(a)}
            src |= {kw.arg for kw in call.keywords if kw.arg in params and is_tainted(kw.value)}
            IN, tainted = forward_taint(callee, src, sanitizer=sanitizer,
                                        tuple_summary=make_tuple_summary(ctx, callee, sanitizer, depth - 1),
                                        call_summary=make_call_summary(ctx, callee, sanitizer, depth - 1))
            cfg = build_cfg(callee)
            rets = [n for n in cfg.nodes if n.kind == 'stmt' and isinstance(n.ast, ast.Return) and
                    n.ast.value is not None]
            if not rets or any(tainted(n.ast.value, IN[n.id]) for n in rets):
                return None
        return False
    return summary


def make_tuple_summary(ctx, fn, sanitizer, depth=2):
    """Element-wise taint of `a, b, c = f(x)` through the resolved callee: element i is tainted iff the i-th
    element of some returned tuple of f depends on a parameter that receives a tainted argument."""
    def summary(call, is_tainted, arity):
        site = None
        for s in ctx.cg.sites(fn):
            if s.node is call:
                site = s
        if site is None or site.tag not in ('exact', 'typed', 'closure') or not site.targets or depth <= 0:
            return None
        res = [False] * arity
        for callee in site.targets:
            params = callee.params
            off = 1 if (callee.cls is not None and not callee.is_static and params) else 0
            src = set()
            for i, a in enumerate(call.args):
                if i + off < len(params) and is_tainted(a):
                    src.add(params[i + off])
            for kw in call.keywords:
                if kw.arg in params and is_tainted(kw.value):
                    src.add(kw.arg)
            if isinstance(callee.node, ast.Lambda):
                return None
            IN, tainted = forward_taint(callee, src, sanitizer=sanitizer,
                                        tuple_summary=make_tuple_summary(ctx, callee, sanitizer, depth - 1),
                                        call_summary=make_call_summary(ctx, callee, sanitizer, depth - 1))
            cfg = build_cfg(callee)
            found = False
            for n in cfg.nodes:
                if n.kind == 'stmt' and isinstance(n.ast, ast.Return) and isinstance(n.ast.value, ast.Tuple) and \
                        len(n.ast.value.elts) == arity:
                    found = True
                    for i, e in enumerate(n.ast.value.elts):
                        if tainted(e, IN[n.id]):
                            res[i] = True
                elif n.kind == 'stmt' and isinstance(n.ast, ast.Return):
                    return None
            if not found:
                return None
        return res
    return summary


def decode_no_raw_echo(ctx, rule='A6'):
    """GraphProcessor.get_graph: the returned corrected vector carries no entry of the input vector that did
    not pass a correcting function."""
    fn = ctx.fn(f'{GP}.get_graph')
    params = fn.params
    raw = params[1]
    sanitizers = {'get_graph', 'get_opt_idx', 'get_conn_idx', 'correct_value', 'des_var_value',
                  '_get_inactive_value', 'get_nodes_existence', 'len'}
    res = taint_by_flag(fn, {raw}, _san(sanitizers), 'create')
    cfg = build_cfg(fn)
    rets = [n for n in cfg.nodes if n.kind == 'stmt' and isinstance(n.ast, ast.Return) and
            isinstance(n.ast.value, ast.Tuple) and len(n.ast.value.elts) == 3]
    if not rets:
        raise AnalysisError('get_graph: result return not found')
    for r in rets:
        for val, (IN, tainted) in res.items():
            elt = r.ast.value.elts[1]
            bad = tainted(elt, IN[r.id])
            ctx.ob(rule, fkey(fn, rule, f'no-raw-echo:create={val}'), not bad, f'{fn.module.relpath}:{r.lineno}',
                   'every entry of the reported (corrected) design vector comes from the analyzer result, the '
                   'connection encoder result, the stored / corrected design-variable value or the canonical '
                   'inactive value - never directly from the input vector',
                   f'names still carrying raw input at the return: {sorted(IN[r.id] & {x.id for x in ast.walk(elt) if isinstance(x, ast.Name)})}')
    # inactive entries are routed through _get_inactive_value before the return; activeness is the None test of the
    # same value, taken before the marks are overwritten.  Decided on get_graph together with the private helpers it
    # calls, and for every spelling of "value if used else inactive value" (statement, conditional expression, flag).
    unit = unit_functions(ctx.prog, fn)
    imputes, actives, late = [], [], []
    for f in unit:
        flags = {}      # name -> (polarity, tested text) for `flag = x is not None`
        for st in walk_fn(f):
            if isinstance(st, ast.Assign) and isinstance(st.targets[0], ast.Name) and none_test(st.value):
                flags[st.targets[0].id] = none_test(st.value)

        # ... and for loop / comprehension variables paired by zip with a list of such tests
        # (`for v, act in zip(values, is_active)` with `is_active = [x is not None for x in ...]`)
        list_flags = {st.targets[0].id: none_test(st.value.elt) for st in walk_fn(f)
                      if isinstance(st, ast.Assign) and isinstance(st.targets[0], ast.Name) and
                      isinstance(st.value, (ast.ListComp, ast.GeneratorExp)) and none_test(st.value.elt)}
        for g_ in [x for c_ in ast.walk(f.node) if isinstance(c_, (ast.ListComp, ast.GeneratorExp, ast.SetComp))
                   for x in c_.generators] + [x for x in ast.walk(f.node) if isinstance(x, ast.For)]:
            it_, tg_ = g_.iter, g_.target
            if isinstance(it_, ast.Call) and call_name(it_) == 'enumerate' and it_.args and \
                    isinstance(tg_, ast.Tuple) and len(tg_.elts) == 2:
                it_, tg_ = it_.args[0], tg_.elts[1]     # `for i, (v, act) in enumerate(zip(values, is_active))`
            if isinstance(it_, ast.Call) and call_name(it_) == 'zip' and isinstance(tg_, ast.Tuple) and \
                    len(tg_.elts) == len(it_.args):
                for t_, a_ in zip(tg_.elts, it_.args):
                    if isinstance(t_, ast.Name) and isinstance(a_, ast.Name) and a_.id in list_flags:
                        flags[t_.id] = list_flags[a_.id]

        def test_of(e):
            r = none_test(e)
            if r is None and isinstance(e, ast.Name) and e.id in flags:
                r = flags[e.id]
            if r is None and isinstance(e, ast.Subscript) and isinstance(e.value, ast.Name) and \
                    e.value.id in list_flags:
                r = list_flags[e.value.id]       # an element of the list of none-tests
            if r is None and isinstance(e, ast.UnaryOp) and isinstance(e.op, ast.Not) and \
                    isinstance(e.operand, ast.Name) and e.operand.id in flags:
                pol, txt = flags[e.operand.id]
                r = ({'is_none': 'not_none', 'not_none': 'is_none'}[pol], txt)
            return r
        parents = {}
        for p_ in ast.walk(f.node):
            for ch in ast.iter_child_nodes(p_):
                parents[id(ch)] = p_
        for c in walk_fn(f):
            if isinstance(c, ast.Call) and call_name(c) == '_get_inactive_value':
                # the branch of the closest None test the call sits in
                node, side = c, None
                while id(node) in parents:
                    par = parents[id(node)]
                    if isinstance(par, ast.IfExp) and test_of(par.test):
                        pol, txt = test_of(par.test)
                        in_body = any(x is node for x in ast.walk(par.body))
                        side = ('is_none' if (pol == 'is_none') == in_body else 'not_none', txt, f, c)
                        break
                    if isinstance(par, ast.If) and test_of(par.test) and node is not par.test:
                        pol, txt = test_of(par.test)
                        in_body = any(node is x or any(node is y for y in ast.walk(x)) for x in par.body)
                        side = ('is_none' if (pol == 'is_none') == in_body else 'not_none', txt, f, c)
                        break
                    node = par
                if side is not None:
                    imputes.append(side)
            # activeness: a None test used as a value (list element, append argument, flag that is appended)
            if isinstance(c, (ast.ListComp, ast.GeneratorExp)) and none_test(c.elt):
                actives.append((none_test(c.elt), f, c))
            if isinstance(c, ast.Call) and call_name(c) == 'append' and c.args:
                r = test_of(c.args[0])
                if r is not None:
                    actives.append((r, f, c))
    good_imp = [i for i in imputes if i[0] == 'is_none']
    ok = bool(good_imp) and len(good_imp) == len(imputes)
    ctx.ob('A5', fkey(fn, 'A5', 'inactive-imputed'), ok, fn.where,
           'every entry that was not used (None) is replaced by the canonical inactive value of its variable '
           'before the vector is returned (the call of _get_inactive_value sits on the is-None side of a test of the '
           'used value)', '; '.join(f'{i[2].qualname} L{i[3].lineno} on the {i[0]} side of `{i[1]}`' for i in imputes)
           or 'no guarded call of _get_inactive_value in get_graph or its helpers')
    # activeness is `value is not None`; when the marks are overwritten in place, it is taken before that
    ok = any(a[0][0] == 'not_none' for a in actives)
    detail = '; '.join(f'{a[1].qualname} L{a[2].lineno}: {a[0][0]} of `{a[0][1]}`' for a in actives) or 'missing'
    if ok:
        for f in unit:
            inplace = [st for st in walk_fn(f) if isinstance(st, ast.Assign) and isinstance(st.targets[0], ast.Subscript)
                       and any(isinstance(c, ast.Call) and call_name(c) == '_get_inactive_value' for c in ast.walk(st.value))]
            for st in inplace:
                tab = norm(st.targets[0].value)
                for a in actives:
                    if a[1] is f and isinstance(a[2], (ast.ListComp, ast.GeneratorExp)) and \
                            norm(a[2].generators[0].iter) in (tab, f'enumerate({tab})') and a[2].lineno > st.lineno:
                        ok = False
                        detail = f'L{a[2].lineno} derives activeness from `{tab}` after L{st.lineno} overwrote its None marks'
    ctx.ob('A5', fkey(fn, 'A5', 'activeness-before-imputation'), ok, fn.where,
           'activeness is derived from the None marks before they are replaced by the inactive values', detail)
    # selection-choice entries: inactive choices are marked unused from the analyzer's activeness, which is
    # indexed in choice space (rule A21)
    from . import indexspace
    indexspace.check_index_spaces(ctx, [f'{GP}.get_graph', f'{GP}._update_comb_fixed_mask'])
    indexspace.check_translation(ctx)
    uses = [x for f_ in unit_functions(ctx.prog, fn) for x in walk_fn(f_)
            if isinstance(x, ast.Subscript) and 'is_active' in norm(x.value) and 'sel_choice' in norm(x.value)]
    exists(ctx, 'A5', fn, uses, 'inactive-choices-marked',
           'the activeness reported by the analyzer decides which selection-choice entries are used')


def inactive_value_contract(ctx, rule='A5'):
    fn = ctx.fn(f'{GP}._get_inactive_value')
    rets = returns_of(fn)
    ok = len(rets) == 1 and isinstance(rets[0].value, ast.IfExp)
    detail = short(rets[0]) if rets else 'missing'
    if ok:
        e = rets[0].value
        ok = norm(e.body) == 'X_INACTIVE_IMPUTE' and 'is_discrete' in norm(e.test) and \
            norm(e.orelse).replace(' ', '') in ('sum(des_var.bounds)/2', '(des_var.bounds[0]+des_var.bounds[1])/2')
    ctx.ob(rule, fkey(fn, rule, 'canonical-inactive-value'), ok, fn.where,
           'the canonical value of an inactive variable is X_INACTIVE_IMPUTE (discrete) or the middle of the '
           'bounds (continuous)', detail)
    r = ctx.prog.resolve(fn.module, 'X_INACTIVE_IMPUTE')
    v = r[2] if isinstance(r, tuple) and r[0] == 'expr' else None
    ctx.ob(rule, fkey(fn, rule, 'impute-constant-zero'), v is not None and norm(v) == '0', fn.where,
           'X_INACTIVE_IMPUTE is 0', norm(v) if v is not None else 'unresolved')
    r = ctx.prog.resolve(fn.module, 'X_INACTIVE_VALUE')
    v = r[2] if isinstance(r, tuple) and r[0] == 'expr' else None
    ctx.ob(rule, fkey(fn, rule, 'inactive-marker-minus-one'), v is not None and norm(v) == '-1', fn.where,
           'X_INACTIVE_VALUE (the marker of an inactive variable in stored vectors) is -1', norm(v) if v is not None
           else 'unresolved')


def eager_returns_stored_vector(ctx, rule='A6'):
    """EagerEncoder.get_matrix: every returned vector stems from the stored (-1 marked) table, the imputer or
    constants - bounds/size correction of the *input* is not enough, it does not mark inactive variables."""
    fn = ctx.fn(f'{ENC}:EagerEncoder.get_matrix')
    raw = fn.params[1]
    san = _san({'impute', 'len'})
    IN, tainted = forward_taint(fn, {raw}, sanitizer=san, tuple_summary=make_tuple_summary(ctx, fn, san),
                                call_summary=make_call_summary(ctx, fn, san))
    cfg = build_cfg(fn)
    rets = [n for n in cfg.nodes if n.kind == 'stmt' and isinstance(n.ast, ast.Return)]
    if len(rets) < 3:
        raise AnalysisError('EagerEncoder.get_matrix: returns not found')
    for r in rets:
        v = r.ast.value
        e = v.elts[0] if isinstance(v, ast.Tuple) else v
        bad = tainted(e, IN[r.id])
        ctx.ob(rule, fkey(fn, rule, f'raw-vector-returned:{short(r.ast, 70)}'), not bad,
               f'{fn.module.relpath}:{r.lineno}',
               'the vector returned with a matrix is the stored design vector of that matrix (inactive variables '
               'marked -1), the imputer result or the all-inactive vector - not the input vector',
               'returns the (size/bounds-corrected) input vector: conditionally inactive variables of a directly '
               'hit matrix are reported active' if bad else 'no raw input in the returned vector')


def corrected_before_lookup(ctx, rule='A6b'):
    """The raw vector reaches decoding / table look-up only after size *and* bounds correction."""
    items = [
        (f'{ENC}:EagerEncoder.get_matrix', {'get_matrix_index', 'impute', '_correct_vector'}),
        (f'{ENC}:EagerEncoder.is_valid_vector', {'get_matrix_index'}),
        (f'{LAZY}:LazyEncoder._get_validate_matrix', {'_decode_vector'}),
        (f'{LAZY}:LazyEncoder.is_valid_vector', {'_decode_vector'}),
    ]
    for key, sinks in items:
        fn = ctx.fn(key)
        raw = fn.params[1]
        for label, sanit in (('size', {'_correct_vector_size', 'correct_vector_size'}),
                             ('bounds', {'correct_vector_bounds'})):
            sn_ = _san(sanit)
            IN, tainted = forward_taint(fn, {raw}, sanitizer=sn_, tuple_summary=make_tuple_summary(ctx, fn, sn_),
                                        call_summary=make_call_summary(ctx, fn, sn_))
            cfg = build_cfg(fn)
            found = 0
            # a private helper of the unit that hands one of its parameters (uncorrected inside the helper) to a sink
            # is a sink for the corresponding argument (extract-method: "decode and validate" moved into a helper)
            helper_sinks = {}
            for h in unit_functions(ctx.prog, fn)[1:]:
                hp = [q for q in h.params if q not in ('self', 'cls')]
                for i_q, q in enumerate(hp):
                    INh, th = forward_taint(h, {q}, sanitizer=sn_)
                    cfgh = build_cfg(h)
                    if any(isinstance(c, ast.Call) and call_name(c) in sinks and c.args and th(c.args[0], INh[nh.id])
                           for nh in cfgh.nodes for e in node_exprs(nh) if e is not None for c in walk_no_nested(e)):
                        helper_sinks.setdefault(h.name, set()).add((i_q, q))
            for n in cfg.nodes:
                for e in node_exprs(n):
                    if e is None:
                        continue
                    for c in walk_no_nested(e):
                        if isinstance(c, ast.Call) and call_name(c) in helper_sinks and call_name(c) not in sinks:
                            for i_q, q in sorted(helper_sinks[call_name(c)]):
                                arg = c.args[i_q] if i_q < len(c.args) else kwarg(c, q)
                                if arg is None:
                                    continue
                                found += 1
                                bad = tainted(arg, IN[n.id])
                                ctx.ob(rule, fkey(fn, rule, f'{label}-corrected-before:{call_name(c)}'), not bad,
                                       f'{fn.module.relpath}:{n.lineno}',
                                       f'the vector handed to {call_name(c)} (which decodes it / looks it up) has '
                                       f'passed the {label} correction', short(c, 80))
                        if isinstance(c, ast.Call) and call_name(c) in sinks and c.args:
                            found += 1
                            bad = tainted(c.args[0], IN[n.id])
                            ctx.ob(rule, fkey(fn, rule, f'{label}-corrected-before:{call_name(c)}'), not bad,
                                   f'{fn.module.relpath}:{n.lineno}',
                                   f'the vector handed to {call_name(c)} has passed the {label} correction '
                                   f'(out-of-range or over-long input must not index the tables)',
                                   short(c, 80))
            if not found:
                raise AnalysisError(f'{key}: no decode/look-up call found')


def manager_contract(ctx, rule='A5a'):
    """All vector-returning methods of both assignment managers obtain (vector, is_active) from
    _correct_is_active applied to the encoder's vector."""
    n = 0
    for cname in ('AssignmentManager', 'LazyAssignmentManager'):
        cls = ctx.prog.cls(f'{AMGR}:{cname}')
        for m in ('correct_vector', 'get_matrix', 'get_conn_idx', 'get_conns'):
            fn = ctx.prog.find_method(cls, m)       # own method or inherited (template method in the base class)
            if fn is None:
                raise AnalysisError(f'{cname}.{m} vanished')
            ctx.touch(fn)
            src = FnText(ctx, fn)
            direct = 'self._correct_is_active(imputed_vector)' in src and \
                ('self._encoder.get_matrix(vector, existence=existence)' in src or
                 'self.encoder.get_matrix(vector, existence=existence)' in src)
            via = 'self.get_matrix(vector, existence=existence)' in src
            n += 1
            ctx.ob(rule, fkey(fn, rule, 'vector-and-activeness-from-marks'), direct or via, fn.where,
                   'the corrected vector and its activeness come from _correct_is_active applied to the encoder '
                   'output (directly, or through get_matrix of the same manager)', src[:120])
    fn = ctx.fn(f'{AMGR}:AssignmentManagerBase._correct_is_active')
    src = FnText(ctx, fn)
    # semantic form: the activeness that is returned is defined as `<array> != X_INACTIVE_VALUE`, and no store into
    # that array can precede the definition (whatever way the marks are replaced afterwards: masked store, np.where)
    from ..cfg import build_cfg
    cfg = build_cfg(fn)
    defs = [n for n in cfg.nodes if n.kind == 'stmt' and isinstance(n.ast, ast.Assign) and
            isinstance(n.ast.value, ast.Compare) and len(n.ast.value.ops) == 1 and
            isinstance(n.ast.value.ops[0], ast.NotEq) and norm(n.ast.value.comparators[0]) == 'X_INACTIVE_VALUE' and
            isinstance(n.ast.value.left, ast.Name)]
    rets = [n for n in cfg.nodes if n.kind == 'stmt' and isinstance(n.ast, ast.Return)]
    ok = False
    for d in defs:
        arr = d.ast.value.left.id
        act = norm(d.ast.targets[0])
        stores = [n for n in cfg.nodes if n.kind == 'stmt' and isinstance(n.ast, (ast.Assign, ast.AugAssign)) and
                  any(isinstance(t, ast.Subscript) and norm(t.value) == arr
                      for t in (n.ast.targets if isinstance(n.ast, ast.Assign) else [n.ast.target]))]
        returned = bool(rets) and all(isinstance(r.ast.value, ast.Tuple) and len(r.ast.value.elts) == 2 and
                                      norm(r.ast.value.elts[1]) == act for r in rets)
        if returned and not any(cfg.can_reach(s_, d) for s_ in stores):
            ok = True
    ctx.ob(rule, fkey(fn, rule, 'marks-to-activeness'), ok, fn.where,
           'activeness is `vector != -1`, taken before the -1 marks are replaced by 0', src[:160])
    # the array whose marks are overwritten in place is this function's own copy: the caller's vector may be a row
    # of an encoder's table of valid vectors (numpy view) - writing 0 over its -1 marks would change what later decodes
    # report.  `np.asarray` and friends hand back their argument when it already is an array.
    FRESH = {'array', 'copy', 'deepcopy', 'where', 'zeros', 'zeros_like', 'ones', 'empty', 'full', 'list', 'tuple'}
    ALIAS = {'asarray', 'asanyarray', 'ascontiguousarray', 'atleast_1d', 'ravel', 'reshape', 'view', 'squeeze'}
    n_st = 0
    for d in defs:
        arr = d.ast.value.left.id
        stores = [n for n in cfg.nodes if n.kind == 'stmt' and isinstance(n.ast, (ast.Assign, ast.AugAssign)) and
                  any(isinstance(t, ast.Subscript) and norm(t.value) == arr
                      for t in (n.ast.targets if isinstance(n.ast, ast.Assign) else [n.ast.target]))]
        if not stores:
            continue
        n_st += 1
        adefs = [a for a in walk_fn(fn) if isinstance(a, ast.Assign) and len(a.targets) == 1 and norm(a.targets[0]) == arr]
        def fresh(v):
            if isinstance(v, ast.Call):
                nm = call_name(v)
                if nm in ALIAS:
                    return False
                if nm in FRESH:
                    cp = kwarg(v, 'copy')
                    return not (isinstance(cp, ast.Constant) and cp.value is False)
            return False
        ok_f = bool(adefs) and all(fresh(a.value) for a in adefs) and arr not in fn.params
        ctx.ob(rule, fkey(fn, rule, 'marks-overwritten-in-own-copy'), ok_f, fn.where,
               f'`{arr}`, whose -1 marks are overwritten in place, is a new array made in this function (np.array / '
               f'copy), never the caller\'s vector or an array that may alias it (np.asarray)',
               '; '.join(short(a, 60) for a in adefs) or f'`{arr}` is not defined here')
    if not n_st and defs:
        ctx.note('A5a: the activeness function does not overwrite marks in place (nothing to alias)')
    return n + 1


# ---------------------------------------------------------------------- A21w: imputers respect the pattern width
def check_imputer_vector_width(ctx, rule='A21w'):
    """Eager imputers get the vector at the encoder's full width, while the design-vector table of an existence
    pattern (`_get_design_vectors(existence)`, the per-existence look-up maps) may have fewer columns.  In every
    `impute` the raw vector is therefore used only for `len()`, scalar element reads, being returned, or after
    being cut to the table width (`...[:<table>.shape[1]]`); anything else - arithmetic on the whole vector, a
    tuple key built from it, handing it to a helper - mixes the two widths (siblings are cross-checked: the
    imputers that are right all follow this discipline)."""
    prog = ctx.prog
    base = prog.cls('adsg_core.optimization.assign_enc.encoding:EagerImputer')
    n = 0
    for cls in prog.subclasses(base):
        fn = cls.methods.get('impute')
        if fn is None or len(fn.params) < 2:
            continue
        vec = fn.params[1]
        parents = {}
        for p in ast.walk(fn.node):
            for ch in ast.iter_child_nodes(p):
                parents[id(ch)] = p
        # names holding a width (assigned from an expression mentioning .shape[1])
        widths = {norm(s.targets[0]) for s in walk_fn(fn) if isinstance(s, ast.Assign) and '.shape[1]' in norm(s.value)}

        def is_width_slice(sub):
            return isinstance(sub, ast.Subscript) and isinstance(sub.slice, ast.Slice) and sub.slice.lower is None and \
                sub.slice.upper is not None and ('.shape[1]' in norm(sub.slice.upper) or norm(sub.slice.upper) in widths)
        # line from which the name is rebound to its cut form
        clean_from = None
        for s in walk_fn(fn):
            if isinstance(s, ast.Assign) and norm(s.targets[0]) == vec and is_width_slice(s.value) and \
                    any(isinstance(x, ast.Name) and x.id == vec for x in ast.walk(s.value.value)):
                clean_from = s.lineno if clean_from is None else min(clean_from, s.lineno)
        bad = []
        for x in ast.walk(fn.node):
            if not (isinstance(x, ast.Name) and x.id == vec and isinstance(x.ctx, ast.Load)):
                continue
            if clean_from is not None and x.lineno > clean_from:
                continue
            p = parents.get(id(x))
            # wrappers np.array(v) / list(v) / tuple(v) directly under a width slice
            q = p
            node = x
            while isinstance(q, ast.Call) and norm(q.func).split('.')[-1] in ('array', 'list', 'asarray') and node in q.args:
                node, q = q, parents.get(id(q))
            if is_width_slice(q) and q.value is node:
                continue
            if isinstance(p, ast.Call) and norm(p.func) == 'len':
                continue
            if isinstance(p, ast.Subscript) and p.value is x and not isinstance(p.slice, ast.Slice):
                continue
            if isinstance(p, (ast.Return, ast.Tuple)) and (isinstance(p, ast.Return) or
                                                          isinstance(parents.get(id(p)), ast.Return)):
                continue
            bad.append(x)
        n += 1
        ctx.touch(fn)
        ctx.ob(rule, fkey(fn, rule, 'raw-vector-only-cut-to-pattern-width'), not bad, fn.where,
               f'{cls.name}.impute uses the full-width vector only through len(), element reads, the return value or '
               f'after cutting it to the width of the existence pattern\'s table',
               'ok' if not bad else f'L{bad[0].lineno}: `{short(parents.get(id(bad[0])), 70)}` uses the whole vector at '
               f'the encoder\'s width against a table that may be narrower')
    return n


# ---------------------------------------------------------------------- A6p: the decoded pair stays together
def check_decode_pair(ctx, rule='A6p', module_prefix='adsg_core.optimization.assign_enc'):
    """`_decode(vector, existence)` returns the pair (normalised vector, matrix): inactive variables marked, indices
    clamped.  A function that hands on the matrix of such a pair hands on the vector of the *same* pair - returning
    the candidate that went into the decode together with the matrix that came out of it gives a corrected vector
    that does not reproduce itself."""
    from ..cfg import build_rd
    n = 0
    for fn in ctx.prog.all_functions():
        if not fn.module.name.startswith(module_prefix) or isinstance(fn.node, ast.Lambda):
            continue
        decode_names = set()
        unpacks = []     # (stmt, vector name, matrix name)
        for s in walk_fn(fn):
            if isinstance(s, ast.Assign) and isinstance(s.value, ast.Call) and call_name(s.value) in ('_decode', '_decode_func'):
                t = s.targets[0]
                if isinstance(t, ast.Name):
                    decode_names.add(t.id)
                elif isinstance(t, ast.Tuple) and len(t.elts) == 2 and all(isinstance(e, ast.Name) for e in t.elts):
                    unpacks.append((s, t.elts[0].id, t.elts[1].id))
        for s in walk_fn(fn):
            if isinstance(s, ast.Assign) and isinstance(s.value, ast.Name) and s.value.id in decode_names and \
                    isinstance(s.targets[0], ast.Tuple) and len(s.targets[0].elts) == 2 and \
                    all(isinstance(e, ast.Name) for e in s.targets[0].elts):
                unpacks.append((s, s.targets[0].elts[0].id, s.targets[0].elts[1].id))
        if not unpacks:
            continue
        cfg = build_cfg(fn)
        rd = build_rd(fn)
        un_nodes = {id(cfg.node_of(u[0])): u for u in unpacks if cfg.node_of(u[0]) is not None}
        for nd in cfg.nodes:
            if not (nd.kind == 'stmt' and isinstance(nd.ast, ast.Return) and isinstance(nd.ast.value, ast.Tuple) and
                    len(nd.ast.value.elts) >= 2 and all(isinstance(e, ast.Name) for e in nd.ast.value.elts[:2])):
                continue
            v, m = nd.ast.value.elts[0].id, nd.ast.value.elts[1].id
            mdefs = [d for d in rd.defs_of(m, nd) if id(d) in un_nodes and un_nodes[id(d)][2] == m]
            if not mdefs or len(mdefs) != len(list(rd.defs_of(m, nd))):
                continue            # the matrix does not (only) come out of a decode
            vdefs = list(rd.defs_of(v, nd))
            ok = bool(vdefs) and all(id(d) in un_nodes and un_nodes[id(d)][1] == v for d in vdefs) and \
                {id(d) for d in vdefs} == {id(d) for d in mdefs}
            n += 1
            ctx.touch(fn)
            ctx.ob(rule, fkey(fn, rule, f'return:{v},{m}'), ok, f'{fn.module.relpath}:{nd.lineno}',
                   f'the vector returned with a decoded matrix is the normalised vector of the same decode',
                   f'`{v}` and `{m}` come from {short(mdefs[0].ast, 50)}' if ok else
                   f'`{m}` comes from {short(mdefs[0].ast, 50)} but `{v}` is defined by ' +
                   '; '.join(short(d.ast, 50) if d.ast is not None else d.kind for d in vdefs[:2]))
    return n
