"""Obligations on the decode path (GraphProcessor.get_graph and the hierarchy analyzers) shared by several
properties."""
import ast

from .match import FnText
from ..model import AnalysisError, norm, walk_no_nested
from ..cfg import build_cfg, node_defs, node_exprs
from ..flow import Slice
from ..astutil import short, call_name, attr_chain
from ..report import fkey
from . import guards, shapes
from .common import *


ENC_MODS = ('adsg_core.optimization.assign_enc.encoding', 'adsg_core.optimization.assign_enc.lazy_encoding',
            'adsg_core.optimization.assign_enc.lazy.imputation.first',
            'adsg_core.optimization.assign_enc.lazy.imputation.delta',
            'adsg_core.optimization.assign_enc.lazy.imputation.closest',
            'adsg_core.optimization.assign_enc.lazy.imputation.constraint_violation',
            'adsg_core.optimization.assign_enc.eager.imputation.first',
            'adsg_core.optimization.assign_enc.eager.imputation.delta',
            'adsg_core.optimization.assign_enc.eager.imputation.closest',
            'adsg_core.optimization.assign_enc.eager.imputation.auto_mod',
            'adsg_core.optimization.assign_enc.eager.imputation.constraint_violation',
            'adsg_core.optimization.assign_enc.patterns.encoder',
            'adsg_core.optimization.assign_enc.patterns.patterns')


def decode_slice(ctx, extra_roots=(), extra_mods=()):
    """Functions executed by a decode: reachable from GraphProcessor.get_graph, restricted to the modules
    that implement decoding (selection of a connection encoder is C12's slice)."""
    roots = [ctx.fn(f'{GP}.get_graph')] + [ctx.fn(k) for k in extra_roots]
    reach = ctx.cg.reachable_from(roots, follow_by_name=False)
    mods = ('adsg_core.optimization.graph_processor', 'adsg_core.optimization.hierarchy.base',
            'adsg_core.optimization.hierarchy.fast', 'adsg_core.optimization.hierarchy.complete',
            'adsg_core.optimization.assign_enc.assignment_manager', 'adsg_core.graph.adsg',
            'adsg_core.graph.adsg_basic', 'adsg_core.graph.choices', 'adsg_core.graph.traversal',
            'adsg_core.graph.incompatibility', 'adsg_core.graph.adsg_nodes', 'adsg_core.graph.influence_matrix',
            'adsg_core.graph.choice_constraints', 'adsg_core.func_cache') + tuple(extra_mods)
    fns = [f for f in reach if f.module.name in mods]
    if len(fns) < 40:
        raise AnalysisError(f'decode slice has only {len(fns)} functions (hand-confirmed: more than 100): call '
                            f'resolution lost the decode path')
    return fns, reach


def _feasible_fact(name):
    def g(atom, truth):
        return truth is True and isinstance(atom, ast.Attribute) and atom.attr == 'feasible' and \
            isinstance(atom.value, ast.Name) and atom.value.id == name
    return g


def feasible_return(ctx, rule='A5'):
    """Every result tuple handed out by an analyzer's get_graph carries an instance that passed `.feasible`."""
    n = 0
    for key in (f'{BASE}.get_graph', f'{FAST}.get_graph'):
        fn = ctx.fn(key)
        cfg = build_cfg(fn)
        sinks = []
        names = set()
        for nd in cfg.nodes:
            a = nd.ast
            if nd.kind != 'stmt':
                continue
            tup = None
            if isinstance(a, ast.Return) and isinstance(a.value, ast.Tuple):
                tup = a.value
            elif isinstance(a, ast.Assign) and isinstance(a.value, ast.Tuple) and len(a.value.elts) == 4:
                tup = a.value
            if tup is not None and len(tup.elts) == 4 and isinstance(tup.elts[0], ast.Name):
                sinks.append(nd)
                names.add(tup.elts[0].id)
        if len(names) != 1:
            raise AnalysisError(f'{key}: cannot identify the instance variable of the result tuple ({names})')
        name = names.pop()
        guards.check_guarded(ctx, rule, fn, sinks, _feasible_fact(name), {name}, 'result-instance-feasible',
                             f'the result tuple (graph, option indices, activeness, combination index) is only '
                             f'built from an instance `{name}` whose `.feasible` test succeeded (infeasible '
                             f'candidates are retried / rejected, never returned)')
        n += len(sinks)
    return n


def _patterns_subscripts(fn):
    """Subscripts  <existence patterns list>[<name>]  in fn: (Subscript node, index name)."""
    alias = set()
    for s in walk_fn(fn):
        if isinstance(s, ast.Assign) and len(s.targets) == 1 and isinstance(s.targets[0], ast.Name) and \
                (attr_chain(s.value) or '').endswith('existence_patterns.patterns'):
            alias.add(s.targets[0].id)
    out = []
    for s in walk_fn(fn):
        if isinstance(s, ast.Subscript) and isinstance(s.ctx, ast.Load) and isinstance(s.slice, ast.Name):
            base = attr_chain(s.value) or ''
            if base.endswith('existence_patterns.patterns') or base in alias:
                out.append((s, s.slice.id))
    return out


def sentinel(ctx, rule='A17'):
    """Every look-up of an existence pattern by an index read from an existence map is dominated by the test
    of that index against the -1 sentinel (= 'no valid connection set for this scenario')."""
    cls = ctx.prog.cls(GP)
    n = 0
    for fn in cls.methods.values():
        subs = _patterns_subscripts(fn)
        if not subs:
            continue
        cfg = build_cfg(fn)
        sl = Slice(fn)
        for sub, idx in subs:
            nd = None
            for c in cfg.nodes:
                if any(e is not None and any(x is sub for x in ast.walk(e)) for e in node_exprs(c)):
                    nd = c
                    break
            if nd is None:
                continue
            # only indices that stem from an existence map (not loop counters over the patterns themselves)
            def from_map(e):
                return isinstance(e, ast.Name) and ('exist_map' in e.id or 'existence_map' in e.id)
            if not sl.depends_on(ast.Name(id=idx, ctx=ast.Load()), nd, from_map):
                continue
            n += 1
            g = guards.compare_fact(lambda e: isinstance(e, ast.Name) and e.id == idx,
                                    None, guards.is_minus_one, {ast.Eq: False, ast.NotEq: True})
            guards.check_guarded(ctx, rule, fn, [nd], g, {idx}, f'sentinel:{idx}',
                                 f'`{short(sub, 50)}` is evaluated only after `{idx}` was compared with -1 '
                                 f'(the marker for a connector-existence scenario without any valid connection '
                                 f'set) and found different')
    return n


def infeasible_pattern_masking(ctx, rule='A5m'):
    """Existence patterns without a valid matrix are mapped to -1, masked out of the valid combinations, and
    the mask is what the analyzers receive."""
    n = 0
    # (i) _encode_connection_choice marks empty patterns with -1 (array and dict form)
    fn = ctx.fn(f'{GP}._encode_connection_choice')
    unit = unit_functions(ctx.prog, fn)

    def empty_fact(atom, truth):
        return isinstance(atom, ast.Compare) and len(atom.ops) == 1 and 'shape[0]' in norm(atom.left) and \
            isinstance(atom.comparators[0], ast.Constant) and atom.comparators[0].value == 0 and \
            ((isinstance(atom.ops[0], ast.Eq) and truth is True) or
             (isinstance(atom.ops[0], (ast.NotEq, ast.Gt)) and truth is False))

    def filtered_names(u, seed=()):
        """Locals of u holding pattern indices collected under the emptiness test (collect-then-apply form), plus
        wrappers of them (set/list/sorted ...)."""
        assigns = [a for a in walk_fn(u) if isinstance(a, ast.Assign) and isinstance(a.targets[0], ast.Name)]
        names = set(seed)
        for a in assigns:
            for c in ast.walk(a.value):
                if isinstance(c, (ast.ListComp, ast.SetComp, ast.GeneratorExp)) and \
                        any(empty_fact(i, True) for g in c.generators for i in g.ifs):
                    names.add(a.targets[0].id)
        changed = True
        while changed:
            changed = False
            for a in assigns:
                if a.targets[0].id not in names and isinstance(a.value, ast.Call) and \
                        call_name(a.value) in ('set', 'list', 'tuple', 'sorted', 'frozenset', 'array') and \
                        a.value.args and isinstance(a.value.args[0], ast.Name) and a.value.args[0].id in names:
                    names.add(a.targets[0].id)
                    changed = True
        return names
    fnames = {fn.key: filtered_names(fn)}
    # a private helper that is handed such a collection: the parameter is a filtered name inside it
    for u in unit[1:]:
        seed = set()
        for c in calls(fn):
            if call_name(c) == u.name:
                hp = [q for q in u.params if q not in ('self', 'cls')] if isinstance(c.func, ast.Attribute) else \
                    list(u.params)
                seed |= {q for q, a in zip(hp, c.args) if isinstance(a, ast.Name) and a.id in fnames[fn.key]}
        fnames[u.key] = filtered_names(u, seed)

    def collection_name(e):
        while isinstance(e, ast.Call) and call_name(e) in ('sorted', 'list', 'tuple', 'set', 'frozenset') and e.args:
            e = e.args[0]
        return e.id if isinstance(e, ast.Name) else None

    def from_collection(u, st):
        # existence_map[np.isin(existence_map, <filtered>)] = -1  /  {...: -1 if i in <filtered> else i ...}
        for c in ast.walk(st.ast):
            if isinstance(c, ast.Call) and call_name(c) == 'isin' and len(c.args) == 2 and \
                    collection_name(c.args[1]) in fnames[u.key]:
                return True
            if isinstance(c, ast.Compare) and len(c.ops) == 1 and isinstance(c.ops[0], ast.In) and \
                    collection_name(c.comparators[0]) in fnames[u.key]:
                return True
        return False
    # marking sites: a store into / a rebuilt dict of the existence map that writes -1 (here or in a helper)
    sites = []
    for u in unit:
        for nd in build_cfg(u).nodes:
            a = nd.ast
            if nd.kind != 'stmt' or not isinstance(a, (ast.Assign, ast.Return)) or a.value is None:
                continue
            txt = norm(a)
            if '-1' not in txt:
                continue
            if isinstance(a, ast.Assign) and (('existence_map' in norm(a.targets[0])) or
                                              (u is not fn and isinstance(a.targets[0], ast.Subscript))):
                sites.append((u, nd))
            elif isinstance(a, ast.Return) and u is not fn and isinstance(a.value, ast.DictComp):
                sites.append((u, nd))
    ok = len(sites) >= 2
    ctx.ob(rule, fkey(fn, rule, 'mark-empty-pattern'), ok, fn.where,
           'both representations of the existence map (array by combination, dict by existence mask) mark a '
           'pattern whose aggregate matrix is empty with -1',
           f'{len(sites)} marking site(s): ' + '; '.join(short(nd.ast, 60) for _, nd in sites))
    n += 1
    if sites:
        direct = {}
        for i, (u, st) in enumerate(sites):
            if from_collection(u, st):
                ctx.ob(rule, fkey(fn, rule, f'mark-only-empty:collected#{i}'), True, f'{u.module.relpath}:{st.lineno}',
                       'the patterns marked -1 are those collected under the test that their aggregate matrix has '
                       'zero rows', short(st.ast, 80))
            else:
                direct.setdefault(u.key, (u, []))[1].append(st)
        for u, sts in direct.values():
            guards.check_guarded(ctx, rule, u, sts, empty_fact, set(), 'mark-only-empty',
                                 'a pattern is marked -1 only under the test that its aggregate matrix has zero rows')
        n += 1
    # (ii) _get_des_vars clears the mask where the map is -1
    fn = ctx.fn(f'{GP}._get_des_vars')
    hits = []
    for s in walk_fn(fn):
        if isinstance(s, ast.Assign) and isinstance(s.targets[0], ast.Subscript) and \
                isinstance(s.value, ast.Constant) and s.value.value is False:
            idx = s.targets[0].slice
            if isinstance(idx, ast.Compare) and isinstance(idx.ops[0], ast.Eq) and \
                    guards.is_minus_one(idx.comparators[0]) and 'exist' in norm(idx.left):
                hits.append(s)
    exists(ctx, rule, fn, hits, 'mask-minus-one',
           'the combination mask is cleared wherever the existence map holds -1 (combinations whose connector '
           'scenario admits no connection set are not valid designs)')
    n += 1
    ret = [r for r in returns_of(fn) if isinstance(r.value, ast.Tuple) and len(r.value.elts) == 4]
    mask_names = {norm(h.targets[0].value) for h in hits}
    ok = bool(ret) and all(norm(r.value.elts[3]) in mask_names for r in ret)
    ctx.ob(rule, fkey(fn, rule, 'mask-returned'), ok, fn.where,
           'the cleared mask is the 4th element of the design-variable data (read back as '
           '_existence_infeasibility_mask)',
           f'returns: {[short(r.value, 80) for r in ret]}; mask variable(s): {sorted(mask_names)}')
    n += 1
    # (iii) the mask property combines infeasibility and fixed masks, and decode passes it on
    cls = ctx.prog.cls(GP)
    p = cls.methods.get('_existence_mask')
    if p is None:
        raise AnalysisError('GraphProcessor._existence_mask vanished')
    rets = returns_of(p)
    ok = bool(rets) and all('_existence_infeasibility_mask' in norm(r.value) for r in rets)
    ctx.ob(rule, fkey(p, rule, 'existence-mask-includes-infeasibility'), ok, p.where,
           'every value of _existence_mask includes _existence_infeasibility_mask',
           '; '.join(short(r, 70) for r in rets))
    n += 1
    p2 = cls.methods.get('_existence_infeasibility_mask')
    ok = p2 is not None and all(norm(r.value).endswith('_all_des_var_data[3]') for r in returns_of(p2))
    ctx.ob(rule, fkey(p2 or p, rule, 'infeasibility-mask-source'), ok, (p2 or p).where,
           '_existence_infeasibility_mask reads the 4th element of the design-variable data',
           '; '.join(short(r, 70) for r in returns_of(p2)) if p2 else 'property missing')
    n += 1
    fn = ctx.fn(f'{GP}.get_graph')
    cs = calls(fn, pred=lambda c: isinstance(c.func, ast.Attribute) and c.func.attr in ('get_graph', 'get_opt_idx')
               and '_hierarchy_analyzer' in norm(c.func.value))
    if len(cs) < 2:
        raise AnalysisError('GraphProcessor.get_graph: analyzer calls not found')
    for c in cs:
        m = kwarg(c, 'mask')
        ok = m is not None and is_self_attr(m, '_existence_mask')
        ctx.ob(rule, fkey(fn, rule, f'mask-passed:{c.func.attr}'), ok, f'{fn.module.relpath}:{c.lineno}',
               f'the analyzer call {c.func.attr}(..) receives mask=self._existence_mask',
               short(c, 120))
        n += 1
    return n


def fallback_to_fast(ctx, rule='A9f'):
    fn = ctx.fn(f'{GP}._get_hierarchy_analyzer')
    n = 0
    tries = [t for t in try_statements(fn) if any(call_name(c) == 'run_timeout' for b in t.body
                                                  for c in ast.walk(b) if isinstance(c, ast.Call))]
    if not tries:
        raise AnalysisError('_get_hierarchy_analyzer: protected run_timeout call not found')
    t = tries[0]
    caught = set()
    fast_built = False
    for h in t.handlers:
        names = handler_type_names(h)
        builds = any(isinstance(s, (ast.Assign, ast.Return)) and s.value is not None and
                     'SelChoiceEncoderType.FAST' in norm(s.value) and
                     'encoders' in norm(s.value) for b in h.body for s in ast.walk(b))
        if builds:
            fast_built = True
            caught |= set(names)
    ok = fast_built and {'TimeoutError', 'MemoryError'} <= caught
    ctx.ob(rule, fkey(fn, rule, 'complete-analysis-fallback'), ok, f'{fn.module.relpath}:{t.lineno}',
           'TimeoutError and MemoryError from the complete analysis are handled by constructing the FAST '
           'encoder (encoders[SelChoiceEncoderType.FAST])',
           f'handlers constructing FAST catch {sorted(caught)}')
    n += 1
    # the encoders registry maps every SelChoiceEncoderType member
    cls = ctx.prog.cls(GP)
    ca = cls.class_attrs.get('encoders')
    members = ctx.prog.enum_members(ctx.prog.cls('adsg_core.optimization.hierarchy.registry:SelChoiceEncoderType'))
    keys = []
    vals = {}
    if ca and isinstance(ca[0], ast.Dict):
        for k, v in zip(ca[0].keys, ca[0].values):
            m = enum_member(k, 'SelChoiceEncoderType')
            if m:
                keys.append(m)
                vals[m] = norm(v)
    ok = set(keys) == set(members)
    ctx.ob('A7', fkey(fn, 'A7', 'encoders-registry'), ok, cls.where,
           f'GraphProcessor.encoders has an analyzer class for every SelChoiceEncoderType member {members}',
           f'keys {keys} -> {vals}')
    n += 1
    want = {'FAST': 'FastHierarchyAnalyzer', 'COMPLETE': 'HierarchyAnalyzer'}
    for m, cname in want.items():
        if m in vals:
            r = ctx.prog.resolve(cls.module, vals[m])
            enc = None
            if r is not None and hasattr(r, 'methods'):
                gm = ctx.prog.find_method(r, 'get_encoder_type')
                if gm is not None:
                    rr = returns_of(gm)
                    enc = enum_member(rr[0].value, 'SelChoiceEncoderType') if rr else None
            ctx.ob('A7', fkey(fn, 'A7', f'encoders-registry:{m}'), enc == m, cls.where,
                   f'the class registered for {m} reports get_encoder_type() == {m}',
                   f'{vals[m]}.get_encoder_type returns {enc}')
            n += 1
    return n


def crash_shapes(ctx, functions):
    n = shapes.check_return_arity(ctx, functions)
    n += shapes.check_none_deref(ctx, functions)
    # constant index into a list that a filter may have emptied: the analyzers and the processor as a whole (the
    # set-up code runs before any vector is decoded)
    wide = [f for f in ctx.prog.all_functions() if f.module.name.startswith(
        ('adsg_core.optimization.hierarchy', 'adsg_core.optimization.graph_processor'))]
    n += shapes.check_filtered_index(ctx, wide)
    ctx.floor('A10e', 2, 'constant indices into filtered lists (hierarchy analyzers, graph processor)')
    return n


def closest_combination_distance(ctx, rule='A5d'):
    """Complete encoder, closest valid combination: the distance between the requested and a valid option-index
    combination ignores (a) choices that are inactive in the candidate and (b) forced choices (they have no
    design variable; their requested value is a placeholder)."""
    fn = ctx.fn(f'{COMPLETE}._get_comb_idx')
    inner = fn.nested.get('_find_correct_opt_idx')
    if inner is None:
        raise AnalysisError('_get_comb_idx._find_correct_opt_idx vanished')
    ctx.touch(inner)
    dist = [s for s in walk_fn(inner) if isinstance(s, ast.Assign) and norm(s.targets[0]) == 'dist']
    if not dist:
        raise AnalysisError('_find_correct_opt_idx: distance computation not found')
    dnames = {x.id for x in ast.walk(dist[0].value) if isinstance(x, ast.Name)}
    texts = []
    for s in walk_fn(inner):
        if isinstance(s, ast.Assign) and s.lineno <= dist[0].lineno:
            tg = s.targets[0]
            base = tg
            while isinstance(base, ast.Subscript):
                base = base.value
            if isinstance(base, ast.Name) and base.id in dnames:
                texts.append(norm(s))
    txt = ' '.join(texts)
    ok_a = 'X_INACTIVE_VALUE' in txt
    ok_b = 'is_forced' in txt
    ctx.ob(rule, fkey(inner, rule, 'distance-ignores-inactive'), ok_a, f'{inner.module.relpath}:{dist[0].lineno}',
           'the distance to a candidate combination ignores the choices that are inactive (-1) in that candidate',
           txt[:160])
    ctx.ob(rule, fkey(inner, rule, 'distance-ignores-forced'), ok_b, f'{inner.module.relpath}:{dist[0].lineno}',
           'the distance ignores forced choices: they are not design variables, their requested value is a '
           'placeholder and must not pull the correction towards low option indices', txt[:160])
    # exact matches are compared on the non-forced choices only
    t = FnText(ctx, inner)
    ok = 'np.all(opt_idx_comb[non_forced_mask] == mod_opt_idx[non_forced_mask])' in t
    ctx.ob(rule, fkey(inner, rule, 'exact-match-on-non-forced'), ok, inner.where,
           'a requested vector that agrees with a valid combination on every non-forced choice selects that '
           'combination (a valid vector is returned unchanged)', '')
    ok = 'i_min_dist = np.argmin(dist)' in t
    ctx.ob(rule, fkey(inner, rule, 'closest-is-argmin'), ok, inner.where,
           'otherwise the combination with the smallest distance is selected', '')
    return 4
