"""A4 EDGE-FILTER - every graph walk decides every EdgeType member.

For each walk site (call of an edge iterator, or an un-filterable networkx accessor on a graph) the set of
edge types the consuming loop / comprehension *accepts* is computed by evaluating the guards on
`get_edge_type(<loop var>)` under the assumption "the edge has type M" for every member M of EdgeType
(three-valued; unknown guards are assumed passable) and asking the CFG whether any effectful statement of
the loop body is reachable.  The computed set is compared with a committed reference table of semantic
facts (sa/tables/edge_walks.json); unknown sites fall back to the default rule.
"""
import ast
import json
import os
import re

from ..model import AnalysisError, norm, walk_no_nested
from ..cfg import build_cfg, node_defs
from ..astutil import parent_map, ancestors, get_arg, attr_chain, short
from ..report import fkey

EDGE_ITERS = {'iter_in_edges': 2, 'iter_out_edges': 2, 'iter_edges': 1,
              'iter_in_edges_cached': 2, 'iter_out_edges_cached': 2,
              'get_in_degree': 2, 'get_out_degree': 2}    # name -> position of edge_type
NX_ACCESSORS = {'predecessors', 'successors', 'in_edges', 'out_edges', 'edges', 'in_degree', 'out_degree'}
GRAPH_RECV = re.compile(r'(^|\.)_?graph(_copy)?$|^g$')
TABLE = os.path.join(os.path.dirname(os.path.dirname(os.path.abspath(__file__))), 'tables', 'edge_walks.json')

T, F, UT, UO = 1, 0, 2, 3   # true, false, unknown because of a symbolic edge-type operand, unknown (unrelated)
U = UO


def edge_type_members(prog):
    c = prog.cls('adsg_core.graph.graph_edges:EdgeType')
    members = prog.enum_members(c)
    if len(members) < 2:
        raise AnalysisError('EdgeType has fewer than two members')
    return members


def _unk(a, b):
    return UT if UT in (a, b) else UO


def _and(a, b):
    if a == F or b == F:
        return F
    if a == T and b == T:
        return T
    return _unk(a, b)


def _or(a, b):
    if a == T or b == T:
        return T
    if a == F and b == F:
        return F
    return _unk(a, b)


def _not(a):
    return a if a in (UT, UO) else (F if a == T else T)


class _Eval:
    """Three-valued evaluation of guard expressions under 'edge variable has type M'."""

    def __init__(self, fn, edge_vars, alias_vars, member, members):
        self.fn = fn
        self.edge_vars = edge_vars      # names of loop variables holding the edge
        self.alias = alias_vars         # names assigned from get_edge_type(<edge var>)
        self.m = member
        self.members = members
        self.symbols = set()

    def is_type_expr(self, e):
        if isinstance(e, ast.Name) and e.id in self.alias:
            return True
        if isinstance(e, ast.Call) and isinstance(e.func, ast.Name) and e.func.id == 'get_edge_type' and e.args:
            a = e.args[0]
            return isinstance(a, ast.Name) and a.id in self.edge_vars
        # edge[3]['type'] / edge[-1]['type']
        return False

    def member_of(self, e):
        """EdgeType.X -> 'X' ; else None"""
        if isinstance(e, ast.Attribute) and isinstance(e.value, ast.Name) and e.value.id == 'EdgeType' and \
                e.attr in self.members:
            return e.attr
        return None

    def set_contents(self, e):
        """(must, may, symbolic) member names of a set/list/tuple expression or a local name holding one."""
        if isinstance(e, (ast.Set, ast.List, ast.Tuple)):
            must, sym = set(), set()
            for x in e.elts:
                m = self.member_of(x)
                if m is not None:
                    must.add(m)
                else:
                    sym.add(short(x, 30))
            return must, set(must), sym
        if isinstance(e, ast.Name):
            must, may, sym = None, set(), set()
            found = False
            f = self.fn
            while f is not None and not found:
                root = ast.Module(body=list(f.body), type_ignores=[])
                for sub in walk_no_nested(root):
                    if isinstance(sub, ast.Assign) and any(isinstance(t, ast.Name) and t.id == e.id
                                                           for t in sub.targets):
                        found = True
                        if isinstance(sub.value, (ast.Set, ast.List, ast.Tuple)):
                            m1, m2, s = self.set_contents(sub.value)
                            must = m1 if must is None else (must & m1)
                            may |= m2
                            sym |= s
                        else:
                            sym.add(short(sub.value, 30))
                            must = set()
                    elif isinstance(sub, ast.Call) and isinstance(sub.func, ast.Attribute) and \
                            sub.func.attr in ('add', 'append') and isinstance(sub.func.value, ast.Name) and \
                            sub.func.value.id == e.id and sub.args:
                        m = self.member_of(sub.args[0])
                        if m is not None:
                            may.add(m)
                        else:
                            sym.add(short(sub.args[0], 30))
                if not found:
                    if e.id in f.params:
                        return set(), set(), {'$' + e.id}
                    f = f.parent
            if not found:
                # a module-level constant collection (`_CONFIRMING_EDGE_TYPES = (EdgeType.DERIVES, ...)`)
                mod = self.fn.module
                val = mod.assigns.get(e.id) if hasattr(mod, 'assigns') else None
                if isinstance(val, (ast.Set, ast.List, ast.Tuple)):
                    return self.set_contents(val)
                if isinstance(val, ast.Call) and isinstance(val.func, ast.Name) and \
                        val.func.id in ('frozenset', 'set', 'tuple', 'list') and val.args and \
                        isinstance(val.args[0], (ast.Set, ast.List, ast.Tuple)):
                    return self.set_contents(val.args[0])
                return set(), set(), {'$' + e.id}
            return must or set(), may, sym
        return set(), set(), {short(e, 30)}

    def ev(self, e):
        if isinstance(e, ast.UnaryOp) and isinstance(e.op, ast.Not):
            return _not(self.ev(e.operand))
        if isinstance(e, ast.BoolOp):
            vals = [self.ev(v) for v in e.values]
            r = vals[0]
            for v in vals[1:]:
                r = _and(r, v) if isinstance(e.op, ast.And) else _or(r, v)
            return r
        if isinstance(e, ast.Constant):
            return T if e.value else F
        if isinstance(e, ast.Compare) and len(e.ops) == 1:
            l, op, r = e.left, e.ops[0], e.comparators[0]
            if self.is_type_expr(r) and not self.is_type_expr(l):
                l, r = r, l
            if self.is_type_expr(l):
                if isinstance(op, (ast.Eq, ast.Is, ast.NotEq, ast.IsNot)):
                    m = self.member_of(r)
                    if m is None:
                        self.symbols.add('$' + short(r, 30))
                        return UT
                    res = T if self.m == m else F
                    return res if isinstance(op, (ast.Eq, ast.Is)) else _not(res)
                if isinstance(op, (ast.In, ast.NotIn)):
                    must, may, sym = self.set_contents(r)
                    self.symbols |= {s if s.startswith('$') else '$' + s for s in sym}
                    if self.m in must:
                        res = T
                    elif self.m in may or sym:
                        res = UT
                    else:
                        res = F
                    return res if isinstance(op, ast.In) else _not(res)
        return UO


def _is_effect(n, alias_vars, edge_vars):
    a = n.ast
    if n.kind != 'stmt':
        return False
    if isinstance(a, (ast.Continue, ast.Pass)):
        return False
    if isinstance(a, ast.Assign) and len(a.targets) == 1 and isinstance(a.targets[0], ast.Name) and \
            a.targets[0].id in alias_vars:
        return False
    if isinstance(a, ast.Expr) and isinstance(a.value, ast.Constant):
        return False
    # naming a component of the edge (`src = edge[0]`, `u, v = edge[0], edge[1]`) before the type test decides nothing
    if isinstance(a, ast.Assign) and len(a.targets) == 1 and \
            all(isinstance(t, ast.Name) for t in (a.targets[0].elts if isinstance(a.targets[0], ast.Tuple)
                                                 else [a.targets[0]])):
        vals = a.value.elts if isinstance(a.value, ast.Tuple) else [a.value]
        if all((isinstance(v, ast.Subscript) and isinstance(v.value, ast.Name) and v.value.id in edge_vars and
                isinstance(v.slice, ast.Constant)) or (isinstance(v, ast.Name) and v.id in edge_vars) for v in vals):
            return False
    return True


def _alias_vars(body_nodes, edge_vars):
    out = set()
    for n in body_nodes:
        a = n.ast
        if n.kind == 'stmt' and isinstance(a, ast.Assign) and len(a.targets) == 1 and \
                isinstance(a.targets[0], ast.Name) and isinstance(a.value, ast.Call) and \
                isinstance(a.value.func, ast.Name) and a.value.func.id == 'get_edge_type' and a.value.args and \
                isinstance(a.value.args[0], ast.Name) and a.value.args[0].id in edge_vars:
            out.add(a.targets[0].id)
    return out


def accepted_in_for(fn, for_stmt, members):
    """(may, must, symbols): members for which an effectful statement of the loop body may / must be
    reachable, by CFG evaluation of the guards on the edge type."""
    cfg = build_cfg(fn)
    head = cfg.node_of(for_stmt)
    if not isinstance(for_stmt.target, ast.Name):
        return set(members), set(members), set()
    edge_vars = {for_stmt.target.id}
    body_ids = set()
    for st in _all_stmts(for_stmt.body):
        n = cfg.by_stmt.get(id(st))
        if n is not None:
            body_ids.add(n.id)
    body_nodes = [cfg.nodes[i] for i in body_ids]
    alias = _alias_vars(body_nodes, edge_vars)
    may, must, symbols = set(), set(), set()
    for m in members:
        for mode in ('may', 'must'):
            ev = _Eval(fn, edge_vars, alias, m, members)
            seen = set()
            stack = [t for t, lab in head.succ if lab == 'T']
            hit = False
            while stack and not hit:
                n = stack.pop()
                if n.id in seen or n is head:
                    continue
                seen.add(n.id)
                if n.id not in body_ids and n.kind not in ('dispatch', 'handler', 'join'):
                    continue
                if _is_effect(n, alias, edge_vars):
                    hit = True
                    break
                if n.kind == 'test':
                    v = ev.ev(n.ast)
                    if v == UT and mode == 'must':
                        continue
                    for s, lab in n.succ:
                        if lab == 'T' and v == F:
                            continue
                        if lab == 'F' and v == T:
                            continue
                        stack.append(s)
                else:
                    for s, lab in n.succ:
                        stack.append(s)
            symbols |= ev.symbols
            if hit:
                (may if mode == 'may' else must).add(m)
    return may, must, symbols


def _all_stmts(body):
    out = []
    for st in body:
        out.append(st)
        if isinstance(st, (ast.FunctionDef, ast.AsyncFunctionDef, ast.ClassDef)):
            continue
        for field in ('body', 'orelse', 'finalbody'):
            sub = getattr(st, field, None)
            if isinstance(sub, list):
                out += _all_stmts(sub)
        for h in getattr(st, 'handlers', []) or []:
            out += _all_stmts(h.body)
    return out


def accepted_in_comprehension(fn, comp_node, gen, members):
    if not isinstance(gen.target, ast.Name):
        return set(members), set(members), set()
    edge_vars = {gen.target.id}
    may, must, symbols = set(), set(), set()
    for m in members:
        ev = _Eval(fn, edge_vars, set(), m, members)
        ok = T
        for cond in gen.ifs:
            ok = _and(ok, ev.ev(cond))
        # `any(<test on the edge type> for edge in ...)`: only edges passing the test have an effect on the result
        if isinstance(comp_node, (ast.GeneratorExp, ast.ListComp)) and getattr(comp_node, '_in_any', False) and \
                isinstance(comp_node.elt, (ast.Compare, ast.BoolOp, ast.UnaryOp)):
            ok = _and(ok, ev.ev(comp_node.elt))
        symbols |= ev.symbols
        if ok != F:
            may.add(m)
        if ok in (T, UO):
            must.add(m)
    return may, must, symbols


class WalkSite:
    def __init__(self, fn, call, iterator, node_arg, accepted, must, symbols, consumer):
        self.fn = fn
        self.call = call
        self.iterator = iterator
        self.node_arg = node_arg
        self.accepted = accepted      # members that may be accepted
        self.must = must              # members accepted whatever the symbolic operands are
        self.symbols = symbols        # symbolic operands met while deciding
        self.consumer = consumer      # for | comp | value
        self.ordinal = 0

    @property
    def key(self):
        k = f'{self.fn.key}|{self.iterator}|{self.node_arg}'
        if self.ordinal:
            k += f'#{self.ordinal}'
        return k

    @property
    def where(self):
        return f'{self.fn.module.relpath}:{self.call.lineno}'

    def signature(self):
        sig = sorted(self.accepted)
        if self.must != self.accepted:
            sig += ['definitely:' + ','.join(sorted(self.must))]
        return sig + sorted(self.symbols)


def find_walk_sites(prog, members, functions=None):
    sites = []
    for fn in (functions if functions is not None else prog.all_functions()):
        if isinstance(fn.node, ast.Lambda):
            root = fn.node.body
        else:
            root = ast.Module(body=list(fn.node.body), type_ignores=[])
        local = []
        for sub in walk_no_nested(root):
            if not isinstance(sub, ast.Call):
                continue
            f = sub.func
            iterator = None
            if isinstance(f, ast.Name) and f.id in EDGE_ITERS:
                r = prog.resolve(fn.module, f.id)
                if r is not None and getattr(r, 'module', None) is not None and \
                        r.module.name in ('adsg_core.graph.graph_edges', 'adsg_core.graph.traversal'):
                    iterator = f.id
            elif isinstance(f, ast.Attribute) and f.attr in NX_ACCESSORS:
                recv = attr_chain(f.value)
                if recv is not None and GRAPH_RECV.search(recv):
                    iterator = 'nx.' + f.attr
            if iterator is None:
                continue
            local.append(_analyse_site(prog, fn, sub, iterator, members))
        # ordinals for exact duplicates
        seen = {}
        for s in local:
            k = s.key
            seen[k] = seen.get(k, 0) + 1
            if seen[k] > 1:
                s.ordinal = seen[k] - 1
        sites += local
    return sites


def _analyse_site(prog, fn, call, iterator, members):
    all_m = set(members)
    symbols = set()
    base = set(all_m)
    if iterator in EDGE_ITERS:
        node_arg = short(call.args[1], 50) if len(call.args) > 1 else ''
        et = get_arg(call, EDGE_ITERS[iterator], 'edge_type')
        if et is not None and not (isinstance(et, ast.Constant) and et.value is None):
            if isinstance(et, ast.Attribute) and isinstance(et.value, ast.Name) and et.value.id == 'EdgeType' and \
                    et.attr in all_m:
                base = {et.attr}
            else:
                symbols.add('$' + short(et, 30))
    else:
        node_arg = short(call.args[0], 50) if call.args else ''
        node_arg = f'{attr_chain(call.func.value)}|{node_arg}'
    # find the consumer: a for loop or comprehension generator whose iter contains this call
    consumer = 'value'
    accepted = set(base)
    must = set(base) if not symbols else set()
    for a in [call] + ancestors(fn, call):
        pm = parent_map(fn)
        p = pm.get(id(a))
        if p is None:
            break
        if isinstance(p, (ast.For, ast.AsyncFor)) and a is p.iter:
            acc, mst, sym = accepted_in_for(fn, p, members)
            accepted = base & acc
            must = must & mst
            symbols |= sym
            consumer = 'for'
            break
        if isinstance(p, ast.comprehension) and a is p.iter:
            comp = pm.get(id(p))
            outer = pm.get(id(comp))
            if isinstance(outer, ast.Call) and isinstance(outer.func, ast.Name) and outer.func.id == 'any' and \
                    outer.args and outer.args[0] is comp:
                comp._in_any = True
            acc, mst, sym = accepted_in_comprehension(fn, comp, p, members)
            accepted = base & acc
            must = must & mst
            symbols |= sym
            consumer = 'comp'
            break
        if isinstance(p, ast.stmt):
            break
    return WalkSite(fn, call, iterator, node_arg, accepted, must, symbols, consumer)


def load_table():
    if not os.path.exists(TABLE):
        raise AnalysisError(f'reference table missing: {TABLE}')
    with open(TABLE) as fp:
        return json.load(fp)


DERIV = {'DERIVES', 'CONNECTS'}


def _direction(iterator):
    it = iterator.split('.')[-1]
    if 'in_' in it or it in ('predecessors', 'in_edges', 'in_degree'):
        return 'in'
    if 'out_' in it or it in ('successors', 'out_edges', 'out_degree'):
        return 'out'
    return 'all'


def check_walks(ctx, categories=None, anchors=(), rule='A4'):
    """Compare every walk site with the reference table (restricted to `categories` when given)."""
    prog = ctx.prog
    members = edge_type_members(prog)
    table = load_table()
    rows = table['sites']
    if set(table['members']) != set(members):
        ctx.ob(rule, 'adsg_core.graph.graph_edges:EdgeType:members', False,
               prog.cls('adsg_core.graph.graph_edges:EdgeType').where,
               f'EdgeType members are {sorted(table["members"])}: every walk was triaged against exactly these',
               f'members are now {sorted(members)}; a new edge type is undecided at every walk')
    sites = find_walk_sites(prog, members)
    by_key = {s.key: s for s in sites}
    # a triaged walk that moved into another function of the same module (extract / inline method) is the same walk:
    # a table row without a site is paired with an un-tabled site of that module that walks in the same direction
    # and accepts exactly the same edge types
    moved = {}
    free_sites = [s for s in sites if s.key not in rows]
    for k in sorted(k for k in rows if k not in by_key):
        mod = k.split(':')[0]
        want_dir = _direction(k.split('|')[1])
        for s in free_sites:
            if s.fn.module.name == mod and _direction(s.iterator) == want_dir and \
                    s.signature() == list(rows[k]['signature']):
                moved[k] = s
                break
    moved_sites = {}
    for k, s_ in moved.items():
        moved_sites.setdefault(id(s_), k)       # one helper may now serve several of the triaged walks
    n = 0
    for s in sites:
        ctx.touch(s.fn)
        row = rows.get(s.key)
        if row is None and id(s) in moved_sites:
            k = moved_sites[id(s)]
            row = rows[k]
            if categories is not None and row['category'] not in categories:
                continue
            n += 1
            ctx.ob(rule, k, True, s.where,
                   f'walk [{row["category"]}] accepts exactly {list(row["signature"])} ({row.get("reason", "")})',
                   f'found in {s.fn.qualname} (same module, same direction, same edge types): {short(s.call, 70)}')
            continue
        if row is not None:
            if categories is not None and row['category'] not in categories:
                continue
            n += 1
            exp = list(row['signature'])
            ok = s.signature() == exp
            ctx.ob(rule, f'{s.key}', ok, s.where,
                   f'walk [{row["category"]}] accepts exactly {exp} ({row.get("reason", "")})',
                   f'accepts {s.signature()} via {s.consumer}: {short(s.call, 70)}')
        else:
            # default layer: unknown site
            if categories is not None and 'default' not in categories:
                continue
            n += 1
            acc = s.accepted
            ok = acc <= DERIV or (len(acc) == 1 and not s.symbols)
            ctx.ob(rule, f'{s.key}', ok, s.where,
                   'un-tabled walk must follow only derivation edges (subset of DERIVES, CONNECTS) or exactly '
                   'one explicitly named edge type',
                   f'accepts {s.signature()} via {s.consumer}: {short(s.call, 70)} - unclassified walk over '
                   f'constraint edges (EXCLUDES / INCOMPATIBILITY are not derivations)')
    missing = [k for k in rows if k not in by_key and k not in moved]
    for k in missing:
        fkey_ = k.split('|')[0]
        if fkey_ in anchors or (prog.func_opt(fkey_) is not None and rows[k].get('anchor')):
            if categories is not None and rows[k]['category'] not in categories:
                continue
            fn_ = prog.func_opt(fkey_)
            if fn_ is None:
                raise AnalysisError(f'anchored walk site vanished together with its function: {k}')
            # the function is still there but no longer contains the triaged walk: what it walks now does not do
            # the same job unless some walk in it has the same direction and accepts the same edge types
            want_dir = _direction(k.split('|')[1])
            same = [s for s in sites if s.fn is fn_ and _direction(s.iterator) == want_dir and
                    s.signature() == list(rows[k]['signature']) and s.key not in rows]
            n += 1
            now = '; '.join(f'{s.iterator}({s.node_arg}) accepts {s.signature()}' for s in sites if s.fn is fn_)
            ctx.ob(rule, k, bool(same), fn_.where,
                   f'{fn_.qualname} contains the triaged walk [{rows[k]["category"]}]: {want_dir}-edges accepting '
                   f'exactly {list(rows[k]["signature"])} ({rows[k].get("reason", "")})',
                   f'equivalent walk found: {same[0].key}' if same else
                   f'that walk is gone; the function now walks: {now or "nothing"}')
            continue
        ctx.note(f'table row without a matching site (moved or removed code): {k}')
    for a in anchors:
        prog.func(a)
    return n


def dump_sites(prog):
    members = edge_type_members(prog)
    out = {}
    for s in find_walk_sites(prog, members):
        out[s.key] = {'signature': s.signature(), 'consumer': s.consumer,
                      'where': s.where, 'text': short(s.call, 100)}
    return members, out


# ---------------------------------------------------------------------- A4x: accumulating edge scans are exhaustive
def check_exhaustive_scans(ctx, module_prefix='adsg_core.graph', rule='A4x'):
    """A loop over the in- / out-edges (or neighbours) of a node that *collects* what it finds (adds to a set / list
    that outlives the loop) has to look at every edge: it contains no `break` of its own.  Loops that only search for
    the existence of something (no accumulation) may stop at the first hit - the code base has six of those and none
    of the collecting loops stops early."""
    from ..astutil import call_name, short
    scans = ('iter_in_edges', 'iter_out_edges', 'iter_edges', 'in_edges', 'out_edges', 'predecessors', 'successors')
    n = 0

    def own_breaks(stmts):
        out = []
        for st in stmts:
            if isinstance(st, (ast.For, ast.While)):
                out += own_breaks(st.orelse)
                continue
            if isinstance(st, ast.Break):
                out.append(st)
            for f in ('body', 'orelse', 'finalbody'):
                b = getattr(st, f, None)
                if isinstance(b, list) and b and isinstance(b[0], ast.stmt):
                    out += own_breaks(b)
            for h in getattr(st, 'handlers', []):
                out += own_breaks(h.body)
        return out
    for fn in ctx.prog.all_functions():
        if not fn.module.name.startswith(module_prefix) or isinstance(fn.node, ast.Lambda):
            continue
        for lp in [x for x in ast.walk(fn.node) if isinstance(x, ast.For)]:
            if not any(isinstance(c, ast.Call) and any(call_name(c) == s or (call_name(c) or '').startswith(s + '_')
                                                       for s in scans) for c in ast.walk(lp.iter)):
                continue
            body = [x for st in lp.body for x in ast.walk(st)]
            acc = [x for x in body if (isinstance(x, ast.Call) and call_name(x) in ('add', 'update', 'append', 'extend'))
                   or (isinstance(x, ast.AugAssign) and isinstance(x.op, ast.BitOr))]
            if not acc:
                continue
            n += 1
            ctx.touch(fn)
            brk = own_breaks(lp.body)
            ctx.ob(rule, fkey(fn, rule, f'collecting-scan-exhaustive:{short(lp.iter, 50)}'), not brk,
                   f'{fn.module.relpath}:{lp.lineno}',
                   'a loop that collects over the edges / neighbours of a node examines all of them (no break)',
                   'no break' if not brk else f'`break` at L{brk[0].lineno}: edges after it are never examined')
    return n
