"""Truth tables of pure boolean expressions over named atoms (finite-domain semantic comparison)."""
import ast
import itertools

from ..model import AnalysisError, norm


def truth_table(expr, atoms):
    """atoms: dict name -> predicate(ast node) identifying the atom.  Returns {assignment tuple: bool}."""
    names = list(atoms)

    def ev(e, env):
        for nm in names:
            if atoms[nm](e):
                return env[nm]
        if isinstance(e, ast.BoolOp):
            vals = [ev(v, env) for v in e.values]
            return all(vals) if isinstance(e.op, ast.And) else any(vals)
        if isinstance(e, ast.UnaryOp) and isinstance(e.op, ast.Not):
            return not ev(e.operand, env)
        if isinstance(e, ast.Constant) and isinstance(e.value, bool):
            return e.value
        raise AnalysisError(f'truth table: unrecognised sub-expression `{norm(e)}`')
    out = {}
    for vals in itertools.product((False, True), repeat=len(names)):
        env = dict(zip(names, vals))
        out[vals] = bool(ev(expr, env))
    return names, out


def is_not_none(attr_suffix):
    def p(e):
        return isinstance(e, ast.Compare) and len(e.ops) == 1 and isinstance(e.ops[0], ast.IsNot) and \
            norm(e.left).endswith(attr_suffix) and isinstance(e.comparators[0], ast.Constant) and \
            e.comparators[0].value is None
    return p
