"""A11 SHARED-WRITE - who may write shared objects.

(i)  fields of node objects (shared between all graphs derived from one model): every store outside a
     node constructor is enumerated and must be tabled with its reason; the one run-time field cache
     (degree of a connector grouping node) obeys recompute-before-read at every consumer.
(ii) class-level attributes written from methods are enumerated and must be tabled.
(iii) constructor-store discipline: a mutable container of an existing graph never becomes part of a new
     graph without a copy.
"""
import ast

from ..model import AnalysisError, norm, walk_no_nested
from ..cfg import build_cfg
from ..astutil import short, call_name, attr_chain
from ..report import fkey
from . import guards
from .common import *

NODE_BASE = 'adsg_core.graph.adsg_nodes:DSGNode'

FIELD_WRITE_TABLE = {
    'adsg_core.graph.adsg_nodes:ConnectorDegreeGroupingNode.update_deg':
        'degree cache of a grouping node; consumers recompute before reading (checked below)',
    'adsg_core.graph.adsg_nodes:DSGNode.update_node_id': 'identity initialisation (constructor / copy_node)',
    'adsg_core.graph.adsg_nodes:DSGNode.copy_node': 'fields of the fresh copy',
    'adsg_core.graph.adsg_basic:BasicDSG.add_selection_choice':
        'builder API: default option_id of an option node that has none, before the graph is initialised',
    'adsg_core.graph.adsg:DSG._get_graph_for_export': 'assigned_value is documented as export-only',
}

CLASS_WRITE_TABLE = {
    ('DSG', '_taken_single_choices'):
        'scratch record of automatically taken choices; reset to [] before each nested apply and read back '
        'immediately (single-threaded hand-over between resolve_single_selection_choices frames)',
    ('EncoderSelector', '_numba_initialized'): 'process-wide one-way flag: numba kernels are compiled once',
    ('Encoder', '_early_detect_high_imp_ratio'):
        'context-manager scoped threshold, restored in a finally block',
}

DEG_FIELDS = {'deg_list', 'deg_min', 'deg_max', 'repeated_allowed'}


def node_classes(prog):
    base = prog.cls(NODE_BASE)
    return [base] + prog.subclasses(base)


def node_fields(prog):
    fields = set()
    for c in node_classes(prog):
        init = c.methods.get('__init__')
        if init is None:
            continue
        for sub in walk_fn(init):
            if isinstance(sub, ast.Attribute) and isinstance(sub.ctx, ast.Store) and \
                    isinstance(sub.value, ast.Name) and sub.value.id == 'self':
                fields.add(sub.attr)
    return fields


def check_node_field_writes(ctx, rule='A11'):
    prog = ctx.prog
    fields = node_fields(prog)
    ncls = set(node_classes(prog))
    if len(fields) < 15:
        raise AnalysisError(f'only {len(fields)} node fields found (hand-confirmed: more than 20)')
    n = 0
    for fn in prog.all_functions():
        if fn.module.name.startswith('adsg_core.examples'):
            continue
        for sub in walk_fn(fn):
            if not (isinstance(sub, ast.Attribute) and isinstance(sub.ctx, ast.Store) and sub.attr in fields):
                continue
            # receiver must be (possibly) a node
            ts = ctx.types.of(sub.value, fn)
            recv_classes = [t[1] for t in ts if t[0] == 'cls']
            if recv_classes and not any(c in ncls for c in recv_classes):
                continue
            if not recv_classes:
                # untyped receiver: only count fields unique to node classes
                others = [c for c in prog.all_classes() if c not in ncls and sub.attr in c.instance_attrs]
                if others:
                    continue
            oc = fn.owner_class
            if fn.name == '__init__' and oc in ncls and isinstance(sub.value, ast.Name) and sub.value.id == 'self':
                continue
            n += 1
            ctx.touch(fn)
            k = fn.outermost.key
            ok = k in FIELD_WRITE_TABLE
            if ok:
                ctx.used_exception('A11', k, FIELD_WRITE_TABLE[k])
            ctx.ob(rule, fkey(fn, rule, f'node-field-store:{sub.attr}'), ok, f'{fn.module.relpath}:{sub.lineno}',
                   'node objects are shared by every graph derived from one model: a store to a node field '
                   'outside node construction must be a tabled, triaged site',
                   (f'tabled: {FIELD_WRITE_TABLE[k]}' if ok else
                    f'`{short(sub, 50)}` writes field `{sub.attr}` of a (shared) node object in {fn.qualname}: '
                    f'every other graph holding this node sees the new value'))
    return n


def check_degree_recompute(ctx, rule='A11'):
    """Consumers of the grouping-node degree cache recompute it for their own graph before reading."""
    n = 0
    # (a) get_unconnected_connectors: every is_valid() on the base connector is preceded by update_deg(graph)
    fn = ctx.fn(f'{TRAV}:get_unconnected_connectors')
    cfg = build_cfg(fn)
    sinks = guards.call_nodes(cfg, 'is_valid')
    recv = {norm(c.func.value) for s in sinks for c in ast.walk(s.ast) if isinstance(c, ast.Call) and
            call_name(c) == 'is_valid' and isinstance(c.func, ast.Attribute)}
    # `is_valid` read inside a private helper that receives the connector as an argument: the call of the helper is
    # the read (extract method)
    via_helper = {}
    for h in unit_functions(ctx.prog, fn)[1:]:
        readers = {norm(c.func.value) for c in walk_fn(h) if isinstance(c, ast.Call) and call_name(c) == 'is_valid' and
                   isinstance(c.func, ast.Attribute) and isinstance(c.func.value, ast.Name)}
        for pi, pn in enumerate(h.params):
            if pn in readers:
                for nd in cfg.nodes:
                    if nd.ast is None or nd.kind not in ('stmt', 'test'):
                        continue
                    for c in ast.walk(nd.ast):
                        if isinstance(c, ast.Call) and call_name(c) == h.name and len(c.args) > pi and \
                                isinstance(c.args[pi], ast.Name):
                            via_helper.setdefault(c.args[pi].id, []).append(nd)
    if not sinks and not via_helper:
        raise AnalysisError('get_unconnected_connectors: no is_valid() consumer found')
    recv |= set(via_helper)
    for r in sorted(recv):
        upd = guards.call_nodes(cfg, 'update_deg', pred=lambda c, r=r: isinstance(c.func, ast.Attribute) and
                                norm(c.func.value) == r and c.args and 'graph' in norm(c.args[0]))
        not_grouping = cfg.edges_implying(
            lambda atom, truth, r=r: truth is False and isinstance(atom, ast.Call) and
            call_name(atom) == 'isinstance' and len(atom.args) == 2 and norm(atom.args[0]) == r and
            'ConnectorDegreeGroupingNode' in norm(atom.args[1]))
        kills = [k for k in cfg.nodes if r in __import__('sa.cfg', fromlist=['node_defs']).node_defs(k)]
        my_sinks = [s for s in sinks if any(isinstance(c, ast.Call) and call_name(c) == 'is_valid' and
                                            norm(c.func.value) == r for c in ast.walk(s.ast))] + via_helper.get(r, [])
        for i, s in enumerate(my_sinks):
            # from the last binding of r, the sink is unreachable without passing update_deg (or the
            # not-a-grouping-node edge)
            starts = []
            for k in kills:
                starts += [m for m, lab in k.succ]
            reach = cfg.reachable(starts, blocked_nodes=upd, blocked_edges=not_grouping)
            bad = s.id in reach
            detail = f'update_deg({r}) at ' + ', '.join(f'L{u.lineno}' for u in upd) if upd else \
                'no update_deg(<graph>) call on that connector in the function'
            if bad:
                for st in starts:
                    p = cfg.find_path(st, s, blocked_nodes=upd, blocked_edges=not_grouping)
                    if p:
                        detail = f'read without recompute: {guards.path_text(p)}'
                        break
            n += 1
            ctx.ob(rule, fkey(fn, rule, f'degree-recomputed-before:{r}.is_valid#{i}'), not bad,
                   f'{fn.module.relpath}:{s.lineno}',
                   f'the degree of a grouping node is stored on the shared node: `{r}.is_valid(..)` reads it only '
                   f'after `{r}.update_deg(<this graph>)` (or after learning that `{r}` is not a grouping node)',
                   detail)
    # (b) _get_assign_nodes: update_deg over all source and target connectors precedes to_assign_node
    fn = ctx.fn(f'{NODES}:ConnectionChoiceNode._get_assign_nodes')
    cfg = build_cfg(fn)
    upd = guards.call_nodes(cfg, 'update_deg')
    conv = guards.call_nodes(cfg, 'to_assign_node')
    if not conv:
        raise AnalysisError('_get_assign_nodes: to_assign_node consumer not found')
    ok = bool(upd)
    detail = 'no update_deg call'
    if upd:
        u = upd[0]
        # the update loop iterates over both connector lists
        loops = [a for a in ast.walk(fn.node) if isinstance(a, ast.For) and any(x is u.ast for x in ast.walk(a))]
        outer = loops[0] if loops else None
        covers = outer is not None and all(nm in norm(outer.iter) for nm in ('src_nodes', 'tgt_nodes'))
        before = all(not cfg.can_reach(c, u) for c in conv) and all(cfg.can_reach(u, c) for c in conv)
        ok = covers and before and 'graph' in norm(u.ast)
        detail = f'update loop over `{norm(outer.iter) if outer else "?"}` at L{u.lineno}; ' \
                 f'covers both sides: {covers}; strictly before the conversions: {before}'
    n += 1
    ctx.ob(rule, fkey(fn, rule, 'degree-recomputed-before:to_assign_node'), ok, fn.where,
           'grouping-node degrees are recomputed for this graph (all source and target connectors) before they '
           'are converted to assignment nodes', detail)
    # (c) the graph constructor recomputes the degrees of its own grouping nodes
    fn = ctx.fn(f'{DSG}.__init__')
    cs = calls(fn, '_update_connector_grouping_degrees')
    exists(ctx, rule, fn, cs, 'constructor-recomputes-degrees',
           'every new graph object recomputes the degrees of the grouping nodes it contains')
    f2 = ctx.fn(f'{DSG}._update_connector_grouping_degrees')
    cs = calls(f2, 'update_deg', pred=lambda c: c.args and norm(c.args[0]) == 'self._graph')
    exists(ctx, rule, f2, cs, 'recompute-uses-own-graph', 'the recomputation uses the graph being constructed')
    # (d) the recomputation itself is unconditional: the degree lives on the node object, which all graphs of a design
    # space share - every normal path through update_deg re-assigns it from the members found in *this* graph (a
    # shortcut "nothing changed since the last call" compares with whatever graph was looked at last)
    f3 = ctx.fn(f'{NODES}:ConnectorDegreeGroupingNode.update_deg')
    cfg3 = build_cfg(f3)
    assigns = [nd for nd in cfg3.nodes if nd.kind == 'stmt' and isinstance(nd.ast, ast.Assign) and
               any(is_self_attr(t_) and t_.attr.startswith('deg_')
                   for t in nd.ast.targets for t_ in (t.elts if isinstance(t, ast.Tuple) else [t]))]
    if not assigns:
        raise AnalysisError('ConnectorDegreeGroupingNode.update_deg: the degree attributes are not assigned here')
    guards.check_passes(ctx, rule, f3, [cfg3.exit], assigns, 'degree-reassigned-on-every-path',
                        'every normal path through update_deg re-assigns the combined degree from the members present '
                        'in the given graph (no shortcut on remembered state: the node object is shared by all graphs)')
    return n + 3


def check_class_level_writes(ctx, rule='A11c'):
    prog = ctx.prog
    n = 0
    for fn in prog.all_functions():
        for sub in walk_fn(fn):
            if not (isinstance(sub, ast.Attribute) and isinstance(sub.ctx, ast.Store)):
                continue
            v = sub.value
            cname = None
            if isinstance(v, ast.Attribute) and v.attr == '__class__':
                cname = fn.owner_class.name if fn.owner_class else '?'
            elif isinstance(v, ast.Name) and v.id == 'cls' and fn.is_classmethod:
                cname = fn.owner_class.name if fn.owner_class else '?'
            elif isinstance(v, ast.Name):
                r = prog.resolve(fn.module, v.id)
                if r is not None and hasattr(r, 'methods'):
                    cname = r.name
            if cname is None:
                continue
            n += 1
            ctx.touch(fn)
            ok = (cname, sub.attr) in CLASS_WRITE_TABLE
            if ok:
                ctx.used_exception('A11c', f'{cname}.{sub.attr}', CLASS_WRITE_TABLE[(cname, sub.attr)])
            ctx.ob(rule, fkey(fn, rule, f'class-attr-store:{cname}.{sub.attr}'), ok,
                   f'{fn.module.relpath}:{sub.lineno}',
                   'state stored on a class is shared by every instance (and every graph / processor): a store '
                   'to a class attribute from a method must be a tabled, triaged site',
                   f'tabled: {CLASS_WRITE_TABLE[(cname, sub.attr)]}' if ok else
                   f'`{short(sub, 50)}` in {fn.qualname} writes class-level state')
    return n


def _effective_keywords(prog, f, call):
    """(name, value, function the value is evaluated in) for the keywords of a call, expanding `**self.m(...)`
    where m returns a dict display with constant keys (a state-bundling helper)."""
    for kw in call.keywords:
        if kw.arg is not None:
            yield kw.arg, kw.value, f
            continue
        v = kw.value
        if isinstance(v, ast.Call) and isinstance(v.func, ast.Attribute) and isinstance(v.func.value, ast.Name) and v.func.value.id == 'self' and \
                f.owner_class is not None:
            m = next((c.methods[v.func.attr] for c in prog.mro(f.owner_class) if v.func.attr in c.methods), None)
            if m is None:
                continue
            for sub in walk_fn(m):
                if isinstance(sub, ast.Return) and isinstance(sub.value, ast.Dict):
                    for k, val in zip(sub.value.keys, sub.value.values):
                        if isinstance(k, ast.Constant) and isinstance(k.value, str):
                            yield k.value, val, m
                elif isinstance(sub, ast.Return) and isinstance(sub.value, ast.Call) and \
                        isinstance(sub.value.func, ast.Name) and sub.value.func.id == 'dict':
                    for k2 in sub.value.keywords:
                        if k2.arg is not None:
                            yield k2.arg, k2.value, m


_PROG = [None]


def _fresh_call(f, c, depth=0):
    """Is the value of the call a new object: .copy(), a constructor of a builtin container, _get_empty_graph(), or
    a helper of the same class all of whose returns are such values (one `extract method` away)?"""
    if isinstance(c.func, ast.Attribute) and c.func.attr in ('copy', 'deepcopy', '_get_empty_graph'):
        return True
    if isinstance(c.func, ast.Name) and c.func.id in ('list', 'dict', 'set'):
        return True
    prog = _PROG[0]
    if prog is not None and depth < 2 and isinstance(c.func, ast.Attribute) and isinstance(c.func.value, ast.Name) and \
            c.func.value.id == 'self' and f.owner_class is not None:
        m = next((k.methods[c.func.attr] for k in prog.mro(f.owner_class) if c.func.attr in k.methods), None)
        if m is not None:
            rets = [r for r in walk_fn(m) if isinstance(r, ast.Return)]
            return bool(rets) and all(r.value is not None and _fresh_value(m, r.value, depth + 1) for r in rets)
    return False


def _fresh_value(f, v, depth=0):
    if isinstance(v, ast.Name):
        defs = [s for s in walk_fn(f) if isinstance(s, ast.Assign) and norm(s.targets[0]) == v.id]
        # definitions made only for the in-place mode do not reach a constructor call (that mode returns self)
        live = [d for d in defs if not _only_inplace(f, d)]
        return bool(live) and all(
            (isinstance(d.value, ast.Call) and _fresh_call(f, d.value, depth)) or
            (isinstance(d.value, ast.IfExp) and 'inplace' in norm(d.value.test))
            for d in live)
    if isinstance(v, ast.Call):
        return _fresh_call(f, v, depth)
    return False


def _only_inplace(f, d):
    """Is the statement inside the `if inplace:` branch (or the else branch of `if not inplace`) of f?"""
    for node in ast.walk(f.node):
        if isinstance(node, ast.If):
            t = norm(node.test)
            if t == 'inplace' and any(x is d for st in node.body for x in ast.walk(st)):
                return True
            if t in ('not inplace', 'inplace is False', 'inplace == False') and \
                    any(x is d for st in node.orelse for x in ast.walk(st)):
                return True
    return False


def _through_params(prog, classes, f, call, v, vf, depth=2):
    """The constructor argument as the *callers* supply it: when the value is a parameter of a private helper that
    wraps the constructor call (`_derive_instance(self, graph, constraints)`), it is followed to every call site of
    that helper in the class family (extract-method invariance); otherwise it is the value itself."""
    fallback = None
    reassigned = [s_ for s_ in walk_fn(vf) if isinstance(s_, ast.Assign) and norm(s_.targets[0]) == getattr(v, 'id', None)]
    if isinstance(v, ast.Name) and v.id in vf.params and reassigned:
        # `if p is None: p = <fallback>` - the optional-argument idiom: callers that pass the argument supply the value,
        # the others get the fallback
        guards_ = [i_ for i_ in walk_fn(vf) if isinstance(i_, ast.If) and none_test(i_.test) == ('is_none', v.id) and
                   len(i_.body) == 1 and i_.body[0] in reassigned and not i_.orelse]
        if len(reassigned) == 1 and len(guards_) == 1 and isinstance(vf.param_default(v.id), ast.Constant) and \
                vf.param_default(v.id).value is None:
            fallback = reassigned[0].value
            reassigned = []
    if isinstance(v, ast.Name) and v.id in vf.params and v.id not in ('self', 'cls') and depth > 0 and \
            not reassigned:
        found = False
        for g in prog.all_functions():
            if g.owner_class not in classes:
                continue
            for c2 in calls(g):
                if isinstance(c2.func, ast.Attribute) and isinstance(c2.func.value, ast.Name) and \
                        c2.func.value.id in ('self', 'cls') and c2.func.attr == vf.name:
                    hp = [q for q in vf.params if q not in ('self', 'cls')]
                    arg = None
                    if v.id in hp and hp.index(v.id) < len(c2.args):
                        arg = c2.args[hp.index(v.id)]
                    for k in c2.keywords:
                        if k.arg == v.id:
                            arg = k.value
                    if arg is None or (isinstance(arg, ast.Constant) and arg.value is None):
                        if fallback is not None:
                            found = True
                            yield g, c2, fallback, vf
                        continue
                    found = True
                    yield from _through_params(prog, classes, g, c2, arg, g, depth - 1)
        if found:
            return
    yield f, call, v, vf


def _flagged_wrapper_sites(prog, classes, vf, p):
    """vf wraps the constructor call and decides with boolean parameters what it passes as `p` (e.g.
    `if copy_constraints: lst = lst.copy()`): for every call site of vf in the class family the wrapper is interpreted
    abstractly (rules/absint.py) with the constants that site passes; the value that reaches the constructor's keyword
    is fresh when it is a copy / new container.  Returns [(caller, call, fresh, expression shown)] or None."""
    from . import absint
    def _is_bool(a):
        return isinstance(a, ast.Constant) and isinstance(a.value, bool)
    hp0 = [q for q in vf.params if q not in ('self', 'cls')]
    flags = [q for q in vf.params if _is_bool(vf.param_default(q))]
    # a flag without a default: a parameter every call site in the class family supplies with a boolean constant
    for g in prog.all_functions():
        if g.owner_class not in classes:
            continue
        for c2 in calls(g):
            if isinstance(c2.func, ast.Attribute) and isinstance(c2.func.value, ast.Name) and \
                    c2.func.value.id in ('self', 'cls') and c2.func.attr == vf.name:
                for q, a in list(zip(hp0, c2.args)) + [(k.arg, k.value) for k in c2.keywords if k.arg]:
                    if _is_bool(a) and q in vf.params and q not in flags:
                        flags.append(q)
    if not flags:
        return None
    out = []
    for g in prog.all_functions():
        if g.owner_class not in classes:
            continue
        for c2 in calls(g):
            if not (isinstance(c2.func, ast.Attribute) and isinstance(c2.func.value, ast.Name) and
                    c2.func.value.id in ('self', 'cls') and c2.func.attr == vf.name):
                continue
            hp = [q for q in vf.params if q not in ('self', 'cls')]
            env = {q: vf.param_default(q).value for q in flags if _is_bool(vf.param_default(q))}
            for q, a in list(zip(hp, c2.args)) + [(k.arg, k.value) for k in c2.keywords if k.arg]:
                if q in flags:
                    if not (isinstance(a, ast.Constant) and isinstance(a.value, bool)):
                        return None
                    env[q] = a.value
            if any(q not in env for q in flags):
                return None
            paths = absint.Interp(vf, {}).run(env=env)
            fresh, shown, vt = True, ast.Name(id=p, ctx=ast.Load()), None
            found = False
            for q_ in paths:
                if q_.outcome[0] != 'return':
                    continue
                t = absint._t(q_.outcome[1])
                if not (isinstance(t, tuple) and t[0] == 'call' and t[1] == ('attr', ('name', 'self'), '__class__')):
                    continue
                kw = dict(x for x in t[2] if isinstance(x, tuple) and len(x) == 2 and isinstance(x[0], str))
                if p not in kw:
                    continue
                found = True
                vt = kw[p]
                is_new = isinstance(vt, tuple) and vt[0] == 'call' and (
                    (vt[1][0] == 'attr' and vt[1][2] in ('copy', 'deepcopy')) or
                    vt[1] in (('name', 'list'), ('name', 'dict'), ('name', 'set')))
                fresh = fresh and is_new
                if not is_new:
                    shown = ast.Name(id=absint.fmt(vt)[:60], ctx=ast.Load())
            if not found:
                return None
            out.append((g, c2, fresh, shown, vt))
    return out or None


def check_constructor_store(ctx, cls_key=DSG, rule='A11s'):
    """Containers of a graph that are mutated in place somewhere must not be shared between an existing and a
    new graph object: the constructor copies its argument, or every constructor call passes a fresh object."""
    from .prov import MUTATORS
    prog = ctx.prog
    _PROG[0] = prog
    cls = prog.cls(cls_key)
    classes = [cls] + prog.subclasses(cls)
    # attributes with in-place writers
    mutated = {}
    for c in classes:
        for m in c.methods.values():
            if m.name == '__init__':
                continue
            for sub in walk_fn(m):
                if isinstance(sub, (ast.Assign, ast.AugAssign, ast.Delete)):
                    tgts = sub.targets if isinstance(sub, (ast.Assign, ast.Delete)) else [sub.target]
                    for t in tgts:
                        if isinstance(t, ast.Subscript) and is_self_attr(t.value):
                            mutated.setdefault(t.value.attr, m)
                if isinstance(sub, ast.Call) and isinstance(sub.func, ast.Attribute) and \
                        sub.func.attr in MUTATORS and is_self_attr(sub.func.value):
                    mutated.setdefault(sub.func.value.attr, m)
    n = 0
    for c in classes:
        init = c.methods.get('__init__')
        if init is None:
            continue
        for sub in walk_fn(init):
            if not isinstance(sub, (ast.Assign, ast.AnnAssign)):
                continue
            tgts = sub.targets if isinstance(sub, ast.Assign) else [sub.target]
            for t in tgts:
                if not (is_self_attr(t) and t.attr in mutated) or sub.value is None:
                    continue
                params = [p for p in init.params[1:] if p in {x.id for x in ast.walk(sub.value)
                                                              if isinstance(x, ast.Name)}]
                if not params:
                    continue
                p = params[0]
                copied = any(isinstance(x, ast.Call) and isinstance(x.func, ast.Attribute) and
                             x.func.attr in ('copy', 'deepcopy') for x in ast.walk(sub.value)) or \
                    any(isinstance(x, ast.Call) and isinstance(x.func, ast.Name) and
                        x.func.id in ('list', 'dict', 'set') for x in ast.walk(sub.value))
                n += 1
                if copied:
                    ctx.ob(rule, fkey(init, rule, f'{t.attr}<-{p}'), True, f'{init.module.relpath}:{sub.lineno}',
                           f'`self.{t.attr}` (mutated in place by {mutated[t.attr].qualname}) never aliases the '
                           f'container of another graph object', f'constructor copies: {short(sub, 80)}')
                    continue
                # every constructor call site must pass a fresh object for p
                bad = []
                sites = 0
                for f in prog.all_functions():
                    if f.owner_class not in classes:
                        continue
                    for call in calls(f):
                        if not (isinstance(call.func, ast.Attribute) and norm(call.func) == 'self.__class__'):
                            continue
                        for kw_arg, v, vf in _effective_keywords(prog, f, call):
                            if kw_arg == p:
                                flagged = _flagged_wrapper_sites(prog, classes, vf, p) \
                                    if isinstance(v, ast.Name) and v.id not in vf.params and \
                                    not _fresh_value(vf, v) else None
                                if flagged:
                                    # a wrapper that copies under a boolean parameter: decided per call site of the
                                    # wrapper with the flag values that site passes
                                    for bf, bcall, fresh, shown, _vt in flagged:
                                        sites += 1
                                        if not fresh:
                                            bad.append((bf, bcall, shown))
                                    continue
                                for bf, bcall, bv, bvf in _through_params(prog, classes, f, call, v, vf):
                                    sites += 1
                                    if not _fresh_value(bvf, bv):
                                        bad.append((bf, bcall, bv))
                info_only = [b for b in bad if b[0].name == 'get_for_kept_edges']
                real = [b for b in bad if b[0].name != 'get_for_kept_edges']
                if sites == 0:
                    ctx.note(f'information: {c.name}.__init__ stores `{p}` uncopied into self.{t.attr} and no '
                             f'explicit constructor call passes it (it travels through **kwargs of the derive '
                             f'operations): derived copies share this container; not claimed under C08')
                    n -= 1
                    continue
                for b in info_only:
                    ctx.note(f'information (not among the operations of C08): {b[0].qualname} passes '
                             f'`{norm(b[2])}` uncopied as {p}')
                ctx.ob(rule, fkey(init, rule, f'{t.attr}<-{p}'), not real, f'{init.module.relpath}:{sub.lineno}',
                       f'`self.{t.attr}` (mutated in place by {mutated[t.attr].qualname}) never aliases the '
                       f'container of another graph object: the constructor copies `{p}` or every derive '
                       f'operation passes a fresh container',
                       (f'{sites} constructor call(s) pass a fresh container' if not real else
                        f'{real[0][0].qualname} L{real[0][1].lineno} passes `{norm(real[0][2])}` (the receiver\'s '
                        f'own container) and the constructor stores it uncopied'))
    return n


# ---------------------------------------------------------------------- A11m: mutable containers in a class body
def _mutable_display(v):
    if isinstance(v, (ast.Dict, ast.List, ast.Set, ast.ListComp, ast.DictComp, ast.SetComp)):
        return True
    if isinstance(v, ast.Call):
        nm = norm(v.func).split('.')[-1]
        return nm in ('set', 'dict', 'list', 'defaultdict', 'OrderedDict', 'deque', 'zeros', 'ones', 'empty', 'array')
    return False


def check_class_level_containers(ctx, rule='A11m'):
    """A mutable container created in a class body is one object shared by every instance (and every processor /
    graph of the session).  It is acceptable only as a read-only table: unless `__init__` gives every instance its
    own object, the attribute must never be written in place, handed to a call (the callee may write it), aliased
    or returned through an instance."""
    from .prov import MUTATORS
    prog = ctx.prog
    n = 0
    for cls in prog.all_classes():
        if cls.module.name.startswith('adsg_core.examples'):
            continue
        for st in cls.node.body:
            if isinstance(st, ast.Assign) and len(st.targets) == 1 and isinstance(st.targets[0], ast.Name):
                name, v = st.targets[0].id, st.value
            elif isinstance(st, ast.AnnAssign) and st.value is not None and isinstance(st.target, ast.Name):
                name, v = st.target.id, st.value
            else:
                continue
            if not _mutable_display(v) or (cls.name, name) in CLASS_WRITE_TABLE:
                continue
            if any(d.split('(')[0].split('.')[-1] == 'dataclass' for d in cls.decorators):
                continue        # dataclasses reject mutable defaults themselves
            family = [cls] + prog.subclasses(cls)
            # does every instance get its own object?
            own = False
            for k in prog.mro(cls):
                ini = k.methods.get('__init__')
                if ini is not None:
                    own = any(isinstance(s, (ast.Assign, ast.AnnAssign)) and
                              any(is_self_attr(t, name) for t in (s.targets if isinstance(s, ast.Assign) else [s.target]))
                              for s in ini.body)
                    break
            if own:
                continue
            escapes = []
            for fn in prog.all_functions():
                if fn.owner_class not in family:
                    continue
                parents = {}
                for p in ast.walk(fn.node):
                    for ch in ast.iter_child_nodes(p):
                        parents[id(ch)] = p
                for sub in walk_fn(fn):
                    if not (isinstance(sub, ast.Attribute) and sub.attr == name and
                            norm(sub.value) in ('self', 'cls', 'self.__class__', cls.name)):
                        continue
                    par = parents.get(id(sub))
                    how = None
                    if isinstance(sub.ctx, (ast.Store, ast.Del)):
                        continue            # re-binding is the business of A11c
                    if isinstance(par, ast.Subscript) and par.value is sub and isinstance(par.ctx, (ast.Store, ast.Del)):
                        how = 'item written in place'
                    elif isinstance(par, ast.AugAssign) and par.target is sub:
                        how = 'augmented assignment'
                    elif isinstance(par, ast.Attribute) and par.value is sub and par.attr in MUTATORS and \
                            isinstance(parents.get(id(par)), ast.Call) and parents[id(par)].func is par:
                        how = f'.{par.attr}() in place'
                    elif isinstance(par, ast.Call) and sub in par.args:
                        how = f'handed to {short(par.func, 40)}()'
                    elif isinstance(par, ast.keyword):
                        how = f'handed to a call as {par.arg}='
                    elif isinstance(par, (ast.Return, ast.Yield)):
                        how = 'returned'
                    elif isinstance(par, (ast.Assign, ast.AnnAssign)) and par.value is sub:
                        how = 'aliased'
                    if how:
                        escapes.append((fn, sub, how))
            n += 1
            ctx.ob(rule, f'{cls.key}:{rule}:{name}', not escapes, f'{cls.module.relpath}:{st.lineno}',
                   f'`{cls.name}.{name}` is a mutable container created in the class body (one object for all '
                   f'instances) and no __init__ gives each instance its own: it is only ever read',
                   'read-only uses' if not escapes else
                   f'{escapes[0][0].qualname} L{escapes[0][1].lineno}: {escapes[0][2]} - every '
                   f'{cls.name} of the session shares what is written there')
    return n


# ---------------------------------------------------------------------- A27: setter-owned backing fields
def check_setter_owned_fields(ctx, module_prefix='adsg_core.optimization.assign_enc', rule='A27'):
    """A property setter that, besides storing the value in its backing field, recomputes other state (`matrix.setter`
    encodes the design vectors and re-initialises the imputer) owns that field: a second writer that stores into the
    backing field directly - on `self` or on a copy made inside the class - leaves the derived state describing the old
    value.  Allowed writers: the setter itself and __init__ (construction)."""
    prog = ctx.prog
    n = 0
    for cls in [c for m in prog.modules.values() if m.name.startswith(module_prefix) for c in m.all_classes]:
        setters = [m for m in cls.methods.values() if any(d.endswith('.setter') for d in m.decorators)]
        for st in setters:
            stores = [a for a in walk_fn(st) if isinstance(a, ast.Assign) and is_self_attr(a.targets[0])]
            if len(st.params) < 2:
                continue
            backing = [a.targets[0].attr for a in stores if isinstance(a.value, ast.Name) and a.value.id == st.params[1]
                       or (isinstance(a.value, ast.Name) and any(
                           isinstance(b, ast.Assign) and norm(b.targets[0]) == a.value.id and
                           any(isinstance(x, ast.Name) and x.id == st.params[1] for x in ast.walk(b.value))
                           for b in walk_fn(st)))]
            derived = [a.targets[0].attr for a in stores if a.targets[0].attr not in backing]
            if not backing or not derived:
                continue
            field = backing[0]
            family = [cls] + prog.subclasses(cls)
            writers = []
            for c in family:
                for m in c.methods.values():
                    if m.name == '__init__' or (m.name == st.name and m in setters):
                        continue
                    for a in walk_fn(m):
                        tgts = a.targets if isinstance(a, ast.Assign) else ([a.target] if isinstance(a, ast.AugAssign) else [])
                        for t in tgts:
                            if isinstance(t, ast.Attribute) and t.attr == field and isinstance(t.value, ast.Name):
                                writers.append((m, a))
            n += 1
            ctx.touch(st)
            ctx.ob(rule, fkey(st, rule, f'only-writer-of:{field}'), not writers, st.where,
                   f'`{field}` is only stored by its property setter `{st.name}` (which also recomputes '
                   f'{sorted(set(derived))[:4]}) and by __init__: state derived from it never describes another value',
                   'no other writer' if not writers else
                   f'{writers[0][0].qualname} L{writers[0][1].lineno} stores `{short(writers[0][1], 60)}` without the '
                   f'recomputation the setter does')
    return n


# ---------------------------------------------------------------------- A26: what __getstate__ drops can be rebuilt
def check_getstate_drops(ctx, module_prefix='adsg_core', rule='A26'):
    """Objects of this package are pickled (selection cache, matrix cache, processors sent to worker processes).  A
    `__getstate__` that replaces an attribute by an empty value claims "this is a cache that is rebuilt on demand".
    That is only true if the class rebuilds it: (a) an empty *container* must be one the class fills as a memo (a
    subscript store into it outside __init__) ; (b) a `None` must have a lazy initialiser (an assignment of the
    attribute under the test that it is None) or be restored in `__setstate__`.  An attribute that only some mutating
    operation computes (e.g. a mask derived from the fixed values) is state, not cache.  Other rewrites of the state
    (replacing an attribute by a derived object) are not modelled: exit 2."""
    prog = ctx.prog
    n = 0
    for cls in [c for m in prog.modules.values() if m.name.startswith(module_prefix) for c in m.all_classes]:
        gs = cls.methods.get('__getstate__')
        if gs is None:
            continue
        ss = cls.methods.get('__setstate__')
        methods = {}
        for k in prog.mro(cls):
            for nm, m in k.methods.items():
                methods.setdefault(nm, m)
        for a in walk_fn(gs):
            if not (isinstance(a, ast.Assign) and isinstance(a.targets[0], ast.Subscript) and
                    isinstance(a.targets[0].slice, ast.Constant) and isinstance(a.targets[0].slice.value, str)):
                continue
            attr, v = a.targets[0].slice.value, a.value
            n += 1
            ctx.touch(gs)
            empty_container = (isinstance(v, (ast.Dict, ast.List, ast.Set)) and not (getattr(v, 'keys', None) or
                                                                                  getattr(v, 'elts', None))) or \
                (isinstance(v, ast.Call) and isinstance(v.func, ast.Name) and v.func.id in ('dict', 'list', 'set') and
                 not v.args and not v.keywords)
            is_none = isinstance(v, ast.Constant) and v.value is None
            if not (empty_container or is_none):
                if ss is not None and any(is_self_attr(x, attr) for x in ast.walk(ss.node)):
                    # replaced by a derived object that __setstate__ works on again: whether that makes it whole is
                    # decided by the writer-discipline rule A27 (a re-attached field has one writer), not here
                    ctx.note(f'A26 {gs.qualname}: `{attr}` is replaced by `{short(v, 50)}` and handled again in '
                             f'__setstate__ - not decided by this rule')
                    n -= 1
                    continue
                raise AnalysisError(f'A26 {gs.qualname}: the pickled state replaces `{attr}` by `{short(v, 50)}` - '
                                    f'a rewrite of the state this rule does not model')
            restored = ss is not None and any(
                (isinstance(x, (ast.Assign, ast.AugAssign)) and any(is_self_attr(t, attr) for t in
                                                                     (x.targets if isinstance(x, ast.Assign) else [x.target])))
                for x in walk_fn(ss))
            rebuilt = restored
            how = '__setstate__ restores it' if restored else ''
            for m in methods.values():
                if rebuilt or m.name in ('__init__', '__getstate__'):
                    continue
                if empty_container:
                    aliases = {norm(x.targets[0]) for x in walk_fn(m) if isinstance(x, ast.Assign) and
                               isinstance(x.targets[0], ast.Name) and is_self_attr(x.value, attr)}
                    aliases |= {norm(x.targets[0]) for g in m.nested.values() for x in walk_fn(g)
                                if isinstance(x, ast.Assign) and isinstance(x.targets[0], ast.Name) and
                                is_self_attr(x.value, attr)}
                    scope = [m] + list(m.nested.values())
                    if any(isinstance(x, ast.Assign) and any(
                            isinstance(t, ast.Subscript) and (is_self_attr(t.value, attr) or norm(t.value) in aliases)
                            for t in ast.walk(x) if isinstance(t, ast.Subscript) and isinstance(t.ctx, ast.Store))
                           for f_ in scope for x in walk_fn(f_)) or \
                            any(isinstance(x, ast.Call) and call_name(x) in ('add', 'setdefault') and
                                isinstance(x.func, ast.Attribute) and is_self_attr(x.func.value, attr)
                                for x in walk_fn(m)):
                        rebuilt, how = True, f'memo container filled by {m.qualname}'
                else:
                    from ..cfg import build_cfg
                    cfg = build_cfg(m)
                    sts = [nd for nd in cfg.nodes if nd.kind == 'stmt' and isinstance(nd.ast, ast.Assign) and
                           any(is_self_attr(t, attr) for t in nd.ast.targets)]
                    if sts:
                        ge = cfg.edges_implying(lambda atom, truth, attr=attr: (
                            isinstance(atom, ast.Compare) and len(atom.ops) == 1 and is_self_attr(atom.left, attr) and
                            isinstance(atom.comparators[0], ast.Constant) and atom.comparators[0].value is None and
                            ((isinstance(atom.ops[0], (ast.Is, ast.Eq)) and truth is True) or
                             (isinstance(atom.ops[0], (ast.IsNot, ast.NotEq)) and truth is False))))
                        if ge and all(not cfg.can_reach(cfg.entry, s_, blocked_edges=ge) for s_ in sts):
                            rebuilt, how = True, f'lazily initialised under `self.{attr} is None` in {m.qualname}'
            ctx.ob(rule, fkey(gs, rule, f'dropped-state-is-rebuilt:{attr}'), rebuilt, f'{gs.module.relpath}:{a.lineno}',
                   f'`{attr}` is left out of the pickled state of {cls.name}: the class rebuilds it on demand (memo '
                   f'container / lazy initialiser / __setstate__)',
                   how or f'nothing recomputes `{attr}` after unpickling: it is only assigned by operations that '
                          f'change the object ({", ".join(sorted(m.name for m in methods.values() if m.name not in ("__init__", "__getstate__") and any(isinstance(x, ast.Assign) and any(is_self_attr(t, attr) for t in x.targets) for x in walk_fn(m)))[:3]) or "nobody"}), '
                          f'so the restored object silently loses it')
    return n
