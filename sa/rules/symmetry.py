"""A23 SIDE-SYMMETRY - the source side and the target side of a connection problem are sibling implementations.

(i)  pair construction: a 2-tuple whose first element only mentions `src` identifiers and whose second only
     mentions `tgt` identifiers is built from mirror-image expressions;
(ii) sibling statements: within one function, an assignment to `<..src..>` and an assignment to the mirrored
     name `<..tgt..>` have mirror-image right-hand sides.
Mirror image = identical structure after swapping src<->tgt in identifiers and attribute names, modulo a
consistent renaming of other local names, of the literal subscripts 0 <-> 1 (edge[0] / edge[1], axis=1 /
axis=0) and of transposition.  Mismatches that are legitimate are tabled.
"""
import ast
import copy
import re

from ..model import norm, walk_no_nested
from ..astutil import short, call_name
from ..report import fkey
from .match import Matcher
from .common import *

SCOPE = ('adsg_core.optimization.assign_enc', 'adsg_core.graph.adsg_nodes', 'adsg_core.optimization.graph_processor',
         'adsg_core.graph.choices')

TABLE = {
    ('adsg_core.optimization.assign_enc.matrix:NodeExistence.__repr__', 'max_src_conn_str|max_tgt_conn_str'):
        'display strings with the literal prefixes ms / mt',
    ('adsg_core.optimization.assign_enc.matrix:_validate_matrix', 'n_src|n_tgt'):
        'row sum versus column sum: the mirror image of matrix[i, :] is matrix[:, i]',
    ('adsg_core.optimization.assign_enc.matrix:NodeExistence.get_effective_settings', 'src|_get_max_outgoing_conn(tgt)'):
        'not a (source, target) pair: (nodes to convert, maximum from the opposite side)',
    ('adsg_core.optimization.assign_enc.lazy.encodings.group_amount:LazyAmountFirstEncoder._encode_matrix',
     'tuple(n_src)|tuple(mat_n_tgt[i])'):
        'the source amounts are fixed for the group while the target amounts vary per matrix',
}


def _swap(s):
    return re.sub(r'src|tgt|source|target', lambda m: {'src': 'tgt', 'tgt': 'src', 'source': 'target',
                                                        'target': 'source'}[m.group(0)], s)


class _Mirror(ast.NodeTransformer):
    def visit_Name(self, node):
        return ast.copy_location(ast.Name(id=_swap(node.id), ctx=node.ctx), node)

    def visit_Attribute(self, node):
        self.generic_visit(node)
        node.attr = _swap(node.attr)
        return node

    def visit_keyword(self, node):
        self.generic_visit(node)
        if node.arg:
            node.arg = _swap(node.arg)
        return node

    def visit_Constant(self, node):
        if isinstance(node.value, int) and not isinstance(node.value, bool) and node.value in (0, 1):
            return ast.copy_location(ast.Constant(value='__AXIS__'), node)
        return node


class _Axis(ast.NodeTransformer):
    def visit_Constant(self, node):
        if isinstance(node.value, int) and not isinstance(node.value, bool) and node.value in (0, 1):
            return ast.copy_location(ast.Constant(value='__AXIS__'), node)
        return node


def mirror_equal(ctx, fn, a, b):
    """a (source-side expression) mirrored equals b (target-side expression)?"""
    ma = _Mirror().visit(copy.deepcopy(a))
    nb = _Axis().visit(copy.deepcopy(b))
    m = Matcher(fn, ctx.prog)
    return m.unify(ma, nb, {}, {})


def _mentions(e, word):
    return any((isinstance(x, ast.Name) and word in x.id) or (isinstance(x, ast.Attribute) and word in x.attr)
               for x in ast.walk(e))


def _pair_functions(ctx, _cache={}):
    """Names of functions (in scope) that return a (source, target) pair built from mirror-image expressions -
    directly, or through an attribute they assign such a pair to."""
    key = id(ctx.prog)
    if key in _cache:
        return _cache[key]
    out = set()
    for fn in ctx.prog.all_functions():
        if not fn.module.name.startswith(SCOPE) or isinstance(fn.node, ast.Lambda):
            continue
        pairs = {}
        for st in walk_fn(fn):
            if isinstance(st, ast.Assign) and isinstance(st.value, ast.Tuple) and len(st.value.elts) == 2:
                a, b = st.value.elts
                if _mentions(a, 'src') and _mentions(b, 'tgt') and mirror_equal(ctx, fn, a, b):
                    pairs[norm(st.targets[0])] = True
        for st in walk_fn(fn):
            if isinstance(st, ast.Return) and st.value is not None:
                v = st.value
                if isinstance(v, ast.Tuple) and len(v.elts) == 2 and _mentions(v.elts[0], 'src') and \
                        _mentions(v.elts[1], 'tgt') and mirror_equal(ctx, fn, v.elts[0], v.elts[1]):
                    out.add(fn.name)
                elif norm(v) in pairs:
                    out.add(fn.name)
    _cache[key] = out
    return out


def check_side_symmetry(ctx, rule='A23'):
    n = 0
    for fn in ctx.prog.all_functions():
        if not fn.module.name.startswith(SCOPE):
            continue
        # (i) pairs
        for s in walk_fn(fn):
            if isinstance(s, ast.Tuple) and len(s.elts) == 2 and isinstance(s.ctx, ast.Load):
                a, b = s.elts
                if _mentions(a, 'src') and _mentions(b, 'tgt') and not _mentions(a, 'tgt') and not _mentions(b, 'src'):
                    n += 1
                    key = (fn.key, f'{norm(a)}|{norm(b)}')
                    ok = mirror_equal(ctx, fn, a, b)
                    why = 'mirror images'
                    if not ok and key in TABLE:
                        ok, why = True, f'tabled: {TABLE[key]}'
                        ctx.used_exception('A23', f'{fn.qualname}:{key[1]}', TABLE[key])
                    ctx.touch(fn)
                    ctx.ob(rule, fkey(fn, rule, f'pair:{short(s, 60)}'), ok, f'{fn.module.relpath}:{s.lineno}',
                           'a (source, target) pair is built from mirror-image expressions: what is done to the '
                           'source element (index remapping, look-up, conversion) is done to the target element',
                           why if ok else f'`{norm(a)}` mirrored is not `{norm(b)}`: one side is treated '
                           f'differently')
        # (iii) a value shared by both elements of a mirrored pair is side-neutral: it is not one element of a
        # (source, target) pair returned by another function
        pair_fns = _pair_functions(ctx)
        for s in walk_fn(fn):
            if not (isinstance(s, ast.Tuple) and len(s.elts) == 2 and isinstance(s.ctx, ast.Load)):
                continue
            a, b = s.elts
            if not (_mentions(a, 'src') and _mentions(b, 'tgt') and not _mentions(a, 'tgt') and not _mentions(b, 'src')):
                continue
            shared = ({x.id for x in ast.walk(a) if isinstance(x, ast.Name)} &
                      {x.id for x in ast.walk(b) if isinstance(x, ast.Name)})
            for nm in sorted(shared):
                defs = [d for d in walk_fn(fn) if isinstance(d, ast.Assign) and len(d.targets) == 1 and
                        isinstance(d.targets[0], ast.Name) and d.targets[0].id == nm]
                for d in defs:
                    one_sided = [x for x in ast.walk(d.value) if isinstance(x, ast.Subscript) and
                                 isinstance(x.slice, ast.Constant) and x.slice.value in (0, 1) and
                                 isinstance(x.value, ast.Call) and call_name(x.value) in pair_fns]
                    if not one_sided:
                        continue
                    n += 1
                    ctx.touch(fn)
                    ctx.ob(rule, fkey(fn, rule, f'shared:{nm}'), False, f'{fn.module.relpath}:{d.lineno}',
                           f'`{nm}` is used for the source element and for the target element of a pair alike: it is '
                           f'not taken from one side of a (source, target) pair',
                           f'`{short(d, 80)}` takes element {one_sided[0].slice.value} of the pair returned by '
                           f'{call_name(one_sided[0].value)}() and applies it to both sides')
        # (ii) sibling assignments
        assigns = {}
        for s in walk_fn(fn):
            if isinstance(s, ast.Assign) and len(s.targets) == 1 and isinstance(s.targets[0], ast.Name):
                assigns.setdefault(s.targets[0].id, []).append(s)
        for name, sts in assigns.items():
            if 'src' not in name or len(sts) != 1:
                continue
            other = _swap(name)
            if other == name or other not in assigns or len(assigns[other]) != 1:
                continue
            a, b = sts[0].value, assigns[other][0].value
            n += 1
            key = (fn.key, f'{name}|{other}')
            ok = mirror_equal(ctx, fn, a, b)
            why = 'mirror images'
            if not ok and key in TABLE:
                ok, why = True, f'tabled: {TABLE[key]}'
                ctx.used_exception('A23', f'{fn.qualname}:{key[1]}', TABLE[key])
            ctx.touch(fn)
            ctx.ob(rule, fkey(fn, rule, f'siblings:{name}/{other}'), ok, f'{fn.module.relpath}:{sts[0].lineno}',
                   f'`{name}` and `{other}` are computed by mirror-image expressions (the source side and the '
                   f'target side are handled alike)',
                   why if ok else f'`{short(a, 60)}` mirrored is not `{short(b, 60)}`')
    return n


# ---------------------------------------------------------------------- A23t: transposed copies are complete
TRANSPOSE_OMIT_TABLE = {
    ('NodeExistence', 'src_exists'): 'the constructor folds src_exists into src_n_conn_override, which is passed',
    ('NodeExistence', 'tgt_exists'): 'the constructor folds tgt_exists into tgt_n_conn_override, which is passed',
}


def _ctor_params(cls):
    init = cls.methods.get('__init__')
    if init is not None:
        return [p for p in init.params[1:]]
    if any(d.split('(')[0].split('.')[-1] == 'dataclass' for d in cls.decorators):
        return [s.target.id for s in cls.node.body if isinstance(s, ast.AnnAssign) and
                isinstance(s.target, ast.Name) and 'ClassVar' not in norm(s.annotation)]
    return None


def check_transpose_complete(ctx, module='adsg_core.optimization.assign_enc.matrix', rule='A23t'):
    """A method that returns the transposed copy of its receiver (`get_transpose*`, constructing its own class)
    hands every constructor parameter to the copy: a parameter that is left out silently falls back to its
    default in the transposed problem, which is then not the same problem seen from the other side."""
    prog = ctx.prog
    n = 0
    for fn in prog.all_functions():
        if fn.module.name != module or fn.owner_class is None or 'transpose' not in fn.name:
            continue
        cls = fn.owner_class
        params = _ctor_params(cls)
        if params is None:
            continue
        for ret in walk_fn(fn):
            if not (isinstance(ret, ast.Return) and isinstance(ret.value, ast.Call)):
                continue
            call = ret.value
            cname = norm(call.func)
            if cname not in (cls.name, 'self.__class__', 'cls'):
                continue
            if any(kw.arg is None for kw in call.keywords) or any(isinstance(a, ast.Starred) for a in call.args):
                raise AnalysisError(f'{fn.key}: transposed copy built with */** arguments - idiom not recognised')
            passed = set(params[:len(call.args)]) | {kw.arg for kw in call.keywords}
            missing = []
            for p in params:
                if p in passed:
                    continue
                if (cls.name, p) in TRANSPOSE_OMIT_TABLE:
                    ctx.used_exception(rule, f'{cls.name}.{p}', TRANSPOSE_OMIT_TABLE[(cls.name, p)])
                else:
                    missing.append(p)
            n += 1
            ctx.touch(fn)
            ctx.ob(rule, fkey(fn, rule, 'all-fields-forwarded'), not missing, f'{fn.module.relpath}:{ret.lineno}',
                   f'{fn.qualname} builds the transposed {cls.name} from every constructor parameter '
                   f'({", ".join(params)})',
                   f'passes {sorted(passed)}' if not missing else
                   f'{missing} not passed: the transposed copy falls back to the default instead of the '
                   f'receiver\'s value')
    return n
