"""Small obligation helpers used by several property modules."""
import ast

from ..model import AnalysisError, norm, walk_no_nested, stmts_of
from ..cfg import build_cfg
from ..astutil import short, call_name, attr_chain
from ..report import fkey

GP = 'adsg_core.optimization.graph_processor:GraphProcessor'
BASE = 'adsg_core.optimization.hierarchy.base:HierarchyAnalyzerBase'
FAST = 'adsg_core.optimization.hierarchy.fast:FastHierarchyAnalyzer'
COMPLETE = 'adsg_core.optimization.hierarchy.complete:HierarchyAnalyzer'
DSG = 'adsg_core.graph.adsg:DSG'
BASIC = 'adsg_core.graph.adsg_basic:BasicDSG'
TRAV = 'adsg_core.graph.traversal'
NODES = 'adsg_core.graph.adsg_nodes'
CHOICES = 'adsg_core.graph.choices'
INCOMP = 'adsg_core.graph.incompatibility'
CCON = 'adsg_core.graph.choice_constraints'
ENC = 'adsg_core.optimization.assign_enc.encoding'
LAZY = 'adsg_core.optimization.assign_enc.lazy_encoding'
AMGR = 'adsg_core.optimization.assign_enc.assignment_manager'
SEL = 'adsg_core.optimization.assign_enc.selector:EncoderSelector'
MATRIX = 'adsg_core.optimization.assign_enc.matrix'
TLIM = 'adsg_core.optimization.assign_enc.time_limiter'
SUP = 'adsg_core.graph.sup.dsg'
INFL = 'adsg_core.graph.influence_matrix:InfluenceMatrix'


def body_root(fn):
    if isinstance(fn.node, ast.Lambda):
        return fn.node.body
    return ast.Module(body=list(fn.node.body), type_ignores=[])


def walk_fn(fn, include_lambda_bodies=True):
    return walk_no_nested(body_root(fn), include_lambda_bodies=include_lambda_bodies)


def calls(fn, name=None, pred=None):
    out = []
    for sub in walk_fn(fn):
        if isinstance(sub, ast.Call) and (name is None or call_name(sub) == name) and (pred is None or pred(sub)):
            out.append(sub)
    return out


def argv(call, name, pos=None):
    """The argument of a call given by keyword `name` or, failing that, at position `pos` (the analysed program is
    in canonical argument style, but whether a parameter has a default - and so which style it gets - is the
    repository's business)."""
    for kw in call.keywords:
        if kw.arg == name:
            return kw.value
    if pos is not None and len(call.args) > pos and not any(isinstance(a, ast.Starred) for a in call.args[:pos + 1]):
        return call.args[pos]
    return None


def kwarg(call, name):
    for kw in call.keywords:
        if kw.arg == name:
            return kw.value
    return None


def is_self_attr(e, attr=None):
    return isinstance(e, ast.Attribute) and isinstance(e.value, ast.Name) and e.value.id == 'self' and \
        (attr is None or e.attr == attr)


def exists(ctx, rule, fn, items, keytext, desc, found_text=None, missing_text=None):
    ctx.touch(fn)
    ok = len(items) > 0
    where = f'{fn.module.relpath}:{(items[0].lineno if ok and hasattr(items[0], "lineno") else fn.lineno)}'
    detail = (found_text or (f'{len(items)} occurrence(s), first: {short(items[0], 70)}' if ok else '')) if ok \
        else (missing_text or f'no such construct in {fn.qualname}')
    return ctx.ob(rule, fkey(fn, rule, keytext), ok, where, desc, detail)


def handler_type_names(h):
    t = h.type
    if t is None:
        return ['<bare>']
    if isinstance(t, ast.Tuple):
        return [norm(e) for e in t.elts]
    return [norm(t)]


def try_statements(fn):
    return [s for s in walk_fn(fn) if isinstance(s, ast.Try)]


def returns_of(fn):
    return [s for s in walk_fn(fn, include_lambda_bodies=False) if isinstance(s, ast.Return)]


def assigns_to_attr(fn, attr):
    """Statements `self.<attr> = ..` / `self.<attr>[..] = ..` / aug-assign in fn."""
    out = []
    for s in walk_fn(fn):
        if isinstance(s, (ast.Assign, ast.AugAssign, ast.AnnAssign)):
            tgts = s.targets if isinstance(s, ast.Assign) else [s.target]
            for t in tgts:
                base = t
                while isinstance(base, ast.Subscript):
                    base = base.value
                if is_self_attr(base, attr):
                    out.append(s)
    return out


def enum_member(e, enum_name):
    if isinstance(e, ast.Attribute) and norm(e.value).split('.')[-1] == enum_name:
        return e.attr
    return None


def unit_functions(prog, fn, depth=2):
    """fn together with the private helpers of its own class / module that it calls (self._x(...), _x(...)) - what a
    maintainer gets by 'extract method'.  Clauses about what a function does are decided on this unit, so that moving
    a few statements into a helper does not change the verdict."""
    out = [fn]
    seen = {fn.key}
    frontier = [fn]
    for _ in range(depth):
        nxt = []
        for f in frontier:
            for c in walk_fn(f):
                if not isinstance(c, ast.Call):
                    continue
                name = None
                if isinstance(c.func, ast.Attribute) and isinstance(c.func.value, ast.Name) and \
                        c.func.value.id in ('self', 'cls') and c.func.attr.startswith('_') and \
                        not c.func.attr.startswith('__'):
                    name = c.func.attr
                    cand = None
                    if f.owner_class is not None:
                        for k in prog.mro(f.owner_class):
                            if name in k.methods:
                                cand = k.methods[name]
                                break
                elif isinstance(c.func, ast.Name) and c.func.id.startswith('_'):
                    name = c.func.id
                    cand = f.module.functions.get(name) if hasattr(f.module, 'functions') else None
                    if cand is None:
                        cand = f.nested.get(name) or (f.parent.nested.get(name) if f.parent is not None else None)
                else:
                    continue
                if cand is not None and cand.key not in seen:
                    seen.add(cand.key)
                    out.append(cand)
                    nxt.append(cand)
            for g in f.nested.values():
                if g.key not in seen:
                    seen.add(g.key)
                    out.append(g)
                    nxt.append(g)
        frontier = nxt
    return out


def none_test(e):
    """('is_none'|'not_none', tested expression text) for `x is None` / `x is not None` / `x == None`, else None."""
    if isinstance(e, ast.UnaryOp) and isinstance(e.op, ast.Not):
        r = none_test(e.operand)
        return None if r is None else ({'is_none': 'not_none', 'not_none': 'is_none'}[r[0]], r[1])
    if isinstance(e, ast.Compare) and len(e.ops) == 1 and isinstance(e.comparators[0], ast.Constant) and \
            e.comparators[0].value is None:
        if isinstance(e.ops[0], (ast.Is, ast.Eq)):
            return 'is_none', norm(e.left)
        if isinstance(e.ops[0], (ast.IsNot, ast.NotEq)):
            return 'not_none', norm(e.left)
    return None
