"""Small obligation helpers used by several property modules."""
import ast

from ..model import AnalysisError, norm, walk_no_nested, stmts_of
from ..cfg import build_cfg
from ..astutil import short, call_name, attr_chain
from ..report import fkey

GP = 'adsg_core.optimization.graph_processor:GraphProcessor'
BASE = 'adsg_core.optimization.hierarchy.base:HierarchyAnalyzerBase'
FAST = 'adsg_core.optimization.hierarchy.fast:FastHierarchyAnalyzer'
COMPLETE = 'adsg_core.optimization.hierarchy.complete:HierarchyAnalyzer'
DSG = 'adsg_core.graph.adsg:DSG'
BASIC = 'adsg_core.graph.adsg_basic:BasicDSG'
TRAV = 'adsg_core.graph.traversal'
NODES = 'adsg_core.graph.adsg_nodes'
CHOICES = 'adsg_core.graph.choices'
INCOMP = 'adsg_core.graph.incompatibility'
CCON = 'adsg_core.graph.choice_constraints'
ENC = 'adsg_core.optimization.assign_enc.encoding'
LAZY = 'adsg_core.optimization.assign_enc.lazy_encoding'
AMGR = 'adsg_core.optimization.assign_enc.assignment_manager'
SEL = 'adsg_core.optimization.assign_enc.selector:EncoderSelector'
MATRIX = 'adsg_core.optimization.assign_enc.matrix'
TLIM = 'adsg_core.optimization.assign_enc.time_limiter'
SUP = 'adsg_core.graph.sup.dsg'
INFL = 'adsg_core.graph.influence_matrix:InfluenceMatrix'


def body_root(fn):
    if isinstance(fn.node, ast.Lambda):
        return fn.node.body
    return ast.Module(body=list(fn.node.body), type_ignores=[])


def walk_fn(fn, include_lambda_bodies=True):
    return walk_no_nested(body_root(fn), include_lambda_bodies=include_lambda_bodies)


def calls(fn, name=None, pred=None):
    out = []
    for sub in walk_fn(fn):
        if isinstance(sub, ast.Call) and (name is None or call_name(sub) == name) and (pred is None or pred(sub)):
            out.append(sub)
    return out


def argv(call, name, pos=None):
    """The argument of a call given by keyword `name` or, failing that, at position `pos` (the analysed program is
    in canonical argument style, but whether a parameter has a default - and so which style it gets - is the
    repository's business)."""
    for kw in call.keywords:
        if kw.arg == name:
            return kw.value
    if pos is not None and len(call.args) > pos and not any(isinstance(a, ast.Starred) for a in call.args[:pos + 1]):
        return call.args[pos]
    return None


def kwarg(call, name):
    for kw in call.keywords:
        if kw.arg == name:
            return kw.value
    return None


def is_self_attr(e, attr=None):
    return isinstance(e, ast.Attribute) and isinstance(e.value, ast.Name) and e.value.id == 'self' and \
        (attr is None or e.attr == attr)


def exists(ctx, rule, fn, items, keytext, desc, found_text=None, missing_text=None):
    ctx.touch(fn)
    ok = len(items) > 0
    where = f'{fn.module.relpath}:{(items[0].lineno if ok and hasattr(items[0], "lineno") else fn.lineno)}'
    detail = (found_text or (f'{len(items)} occurrence(s), first: {short(items[0], 70)}' if ok else '')) if ok \
        else (missing_text or f'no such construct in {fn.qualname}')
    return ctx.ob(rule, fkey(fn, rule, keytext), ok, where, desc, detail)


def handler_type_names(h):
    t = h.type
    if t is None:
        return ['<bare>']
    if isinstance(t, ast.Tuple):
        return [norm(e) for e in t.elts]
    return [norm(t)]


def try_statements(fn):
    return [s for s in walk_fn(fn) if isinstance(s, ast.Try)]


def returns_of(fn):
    return [s for s in walk_fn(fn, include_lambda_bodies=False) if isinstance(s, ast.Return)]


def assigns_to_attr(fn, attr):
    """Statements `self.<attr> = ..` / `self.<attr>[..] = ..` / aug-assign in fn."""
    out = []
    for s in walk_fn(fn):
        if isinstance(s, (ast.Assign, ast.AugAssign, ast.AnnAssign)):
            tgts = s.targets if isinstance(s, ast.Assign) else [s.target]
            for t in tgts:
                base = t
                while isinstance(base, ast.Subscript):
                    base = base.value
                if is_self_attr(base, attr):
                    out.append(s)
    return out


def enum_member(e, enum_name):
    if isinstance(e, ast.Attribute) and norm(e.value).split('.')[-1] == enum_name:
        return e.attr
    return None


def unit_functions(prog, fn, depth=2):
    """fn together with the private helpers of its own class / module that it calls (self._x(...), _x(...)) - what a
    maintainer gets by 'extract method'.  Clauses about what a function does are decided on this unit, so that moving
    a few statements into a helper does not change the verdict."""
    out = [fn]
    seen = {fn.key}
    frontier = [fn]
    for _ in range(depth):
        nxt = []
        for f in frontier:
            for c in walk_fn(f):
                if not isinstance(c, ast.Call):
                    continue
                name = None
                if isinstance(c.func, ast.Attribute) and isinstance(c.func.value, ast.Name) and \
                        c.func.value.id in ('self', 'cls') and c.func.attr.startswith('_') and \
                        not c.func.attr.startswith('__'):
                    name = c.func.attr
                    cand = None
                    if f.owner_class is not None:
                        for k in prog.mro(f.owner_class):
                            if name in k.methods:
                                cand = k.methods[name]
                                break
                elif isinstance(c.func, ast.Attribute) and isinstance(c.func.value, ast.Name) and \
                        c.func.attr.startswith('_') and not c.func.attr.startswith('__') and \
                        f.owner_class is not None and c.func.value.id in {
                            a.targets[0].id for a in walk_fn(f) if isinstance(a, ast.Assign) and
                            isinstance(a.targets[0], ast.Name) and
                            (norm(a.value) == 'self' or (isinstance(a.value, ast.Call) and
                                                         isinstance(a.value.func, ast.Attribute) and
                                                         isinstance(a.value.func.value, ast.Name) and
                                                         a.value.func.value.id in ('self', a.targets[0].id)))}:
                    # a private method called on a local that holds this object or an object derived from it by one
                    # of its own methods (`graph = self` ... `graph = graph.get_for_...()`): same class family
                    name = c.func.attr
                    cand = None
                    for k in prog.mro(f.owner_class):
                        if name in k.methods:
                            cand = k.methods[name]
                            break
                elif isinstance(c.func, ast.Name) and c.func.id.startswith('_'):
                    name = c.func.id
                    cand = f.module.functions.get(name) if hasattr(f.module, 'functions') else None
                    if cand is None:
                        cand = f.nested.get(name) or (f.parent.nested.get(name) if f.parent is not None else None)
                else:
                    continue
                if cand is not None and cand.key not in seen:
                    seen.add(cand.key)
                    out.append(cand)
                    nxt.append(cand)
            for g in f.nested.values():
                if g.key not in seen:
                    seen.add(g.key)
                    out.append(g)
                    nxt.append(g)
        frontier = nxt
    return out


def none_test(e):
    """('is_none'|'not_none', tested expression text) for `x is None` / `x is not None` / `x == None`, else None."""
    if isinstance(e, ast.UnaryOp) and isinstance(e.op, ast.Not):
        r = none_test(e.operand)
        return None if r is None else ({'is_none': 'not_none', 'not_none': 'is_none'}[r[0]], r[1])
    if isinstance(e, ast.Compare) and len(e.ops) == 1 and isinstance(e.comparators[0], ast.Constant) and \
            e.comparators[0].value is None:
        if isinstance(e.ops[0], (ast.Is, ast.Eq)):
            return 'is_none', norm(e.left)
        if isinstance(e.ops[0], (ast.IsNot, ast.NotEq)):
            return 'not_none', norm(e.left)
    return None


# ---------------------------------------------------------------------------------------------------------------
# extract-method invariance for path rules: a *view* of a function in which calls of private helpers that are
# used as statements (`_helper(a, b)` / `self._helper(a)`, no value returned) are replaced by the helper's body.
def inlined_view(prog, fn, depth=2, keep=()):
    """Copy of `fn` (FunctionInfo) whose body has the void private helpers it calls as statements spliced in:
    parameters are replaced by the argument expressions, the helper's own locals get a prefix, early `return`s become
    if/else nesting.  Rules that reason over paths of one function (CFG reachability, data-flow origins) use the
    view, so that moving a block of statements into a helper does not change what they see.  Helpers that return a
    value, yield, or are called inside expressions are left as calls, and so are the helpers named in `keep` (calls
    the rule itself uses as anchors)."""
    import copy
    unit = {f.name: f for f in unit_functions(prog, fn, depth=depth)[1:]}
    if not unit:
        return fn

    def void(h):
        for x in walk_fn(h):
            if isinstance(x, ast.Return) and x.value is not None and not (
                    isinstance(x.value, ast.Constant) and x.value.value is None):
                return False
            if isinstance(x, (ast.Yield, ast.YieldFrom)):
                return False
        return not isinstance(h.node, ast.Lambda) and not h.node.args.vararg and not h.node.args.kwarg

    def elim(stmts):
        out = []
        for i, st in enumerate(stmts):
            if isinstance(st, ast.Return):
                return out
            if isinstance(st, ast.If) and not st.orelse and st.body and isinstance(st.body[-1], ast.Return):
                rest = elim(stmts[i + 1:])
                body = elim(st.body)
                new = ast.If(test=st.test, body=body or [ast.Pass()], orelse=rest)
                out.append(ast.copy_location(new, st))
                return out
            if any(isinstance(x, ast.Return) for x in ast.walk(st)):
                return None     # a return nested deeper: not handled
            out.append(st)
        return out

    changed = [False]
    caller_names = {t.id for t in ast.walk(fn.node) if isinstance(t, ast.Name)} | set(fn.params)

    def splice(stmts, level):
        res = []
        for st in stmts:
            for f in ('body', 'orelse', 'finalbody'):
                b = getattr(st, f, None)
                if isinstance(b, list) and b and isinstance(b[0], ast.stmt) and \
                        not isinstance(st, (ast.FunctionDef, ast.AsyncFunctionDef, ast.ClassDef)):
                    setattr(st, f, splice(b, level))
            for hd in getattr(st, 'handlers', []):
                hd.body = splice(hd.body, level)
            c = st.value if isinstance(st, ast.Expr) and isinstance(st.value, ast.Call) else None
            # `targets = helper(args)` where the helper computes its result in a body that ends in its only return
            assign_to = None
            if c is None and isinstance(st, ast.Assign) and len(st.targets) == 1 and isinstance(st.value, ast.Call):
                c, assign_to = st.value, st.targets[0]
            h = None
            if c is not None and all(k.arg is not None for k in c.keywords) and \
                    all(isinstance(a, (ast.Name, ast.Attribute, ast.Constant))
                        for a in list(c.args) + [k.value for k in c.keywords]):
                if isinstance(c.func, ast.Name):
                    h = unit.get(c.func.id)
                elif isinstance(c.func, ast.Attribute) and isinstance(c.func.value, ast.Name) and \
                        c.func.value.id in ('self', 'cls'):
                    h = unit.get(c.func.attr)
            single_ret = None
            if h is not None and assign_to is not None:
                rets_ = [x for x in walk_fn(h) if isinstance(x, ast.Return)]
                if len(rets_) == 1 and h.node.body and h.node.body[-1] is rets_[0] and rets_[0].value is not None and \
                        not any(isinstance(x, (ast.Yield, ast.YieldFrom)) for x in walk_fn(h)) and \
                        not h.node.args.vararg and not h.node.args.kwarg and len(h.node.body) > 1:
                    single_ret = rets_[0]
                else:
                    h = None
            if h is None or h.name in fn.nested or h.name in keep or (single_ret is None and not void(h)) or \
                    level <= 0:
                res.append(st)
                continue
            params = list(h.params)
            if params and params[0] in ('self', 'cls') and isinstance(c.func, ast.Attribute):
                params = params[1:]
            sub = dict(zip(params, c.args))
            sub.update({k.arg: k.value for k in c.keywords if k.arg in params})
            # parameters left to their defaults take the default expression (constants only)
            a_ = h.node.args
            pos_ = [x.arg for x in a_.posonlyargs + a_.args]
            for nm_, d_ in list(zip(pos_[len(pos_) - len(a_.defaults):], a_.defaults)) + \
                    [(x.arg, d_) for x, d_ in zip(a_.kwonlyargs, a_.kw_defaults) if d_ is not None]:
                if nm_ in params and nm_ not in sub and isinstance(d_, ast.Constant):
                    sub[nm_] = d_
            if set(sub) != set(params) or len(c.args) > len(params):
                res.append(st)
                continue
            # the helper's own locals keep their names unless the caller uses the same name for something else
            # ... a name the caller binds for the first time *by this very statement* (`x = helper()` where the helper
            # calls its result x as well) is the same variable, not a collision
            before = {t.id for t in ast.walk(fn.node) if isinstance(t, ast.Name) and
                      getattr(t, 'lineno', 0) < st.lineno} | set(fn.params)
            later_targets = {t.id for t in ast.walk(assign_to) if isinstance(t, ast.Name)} if assign_to is not None \
                else set()
            locs = ({t.id for x in walk_fn(h) for t in ast.walk(x) if isinstance(t, ast.Name) and
                     isinstance(t.ctx, ast.Store)} - set(sub)) & (caller_names - (later_targets - before))

            class S(ast.NodeTransformer):
                def visit_Name(self, node):
                    if node.id in sub and isinstance(node.ctx, ast.Load):
                        return copy.deepcopy(sub[node.id])
                    if node.id in sub and isinstance(sub[node.id], ast.Name):
                        return ast.copy_location(ast.Name(id=sub[node.id].id, ctx=node.ctx), node)
                    if node.id in locs:
                        return ast.copy_location(ast.Name(id=f'_{h.name}__{node.id}', ctx=node.ctx), node)
                    return node
            # a helper that re-binds a parameter is kept as a call - except for augmented assignments (`acc |= x`)
            # to a parameter whose argument is a plain name: on the sets / lists this code base threads through, that
            # is the in-place update the caller sees, and it reads the same when spliced in
            aug = {id(x.target) for x in walk_fn(h) if isinstance(x, ast.AugAssign) and isinstance(x.target, ast.Name)
                   and isinstance(sub.get(x.target.id), ast.Name)}
            if any(isinstance(t, ast.Name) and isinstance(t.ctx, ast.Store) and t.id in sub and id(t) not in aug
                   for x in walk_fn(h) for t in ast.walk(x)):
                res.append(st)
                continue
            body = [s_ for s_ in copy.deepcopy(h.node.body)
                    if not (isinstance(s_, ast.Expr) and isinstance(s_.value, ast.Constant))]
            tail_assign = None
            if single_ret is not None:
                # body without its final return, followed by `targets = <returned expression>`
                last = body.pop()
                tail_assign = ast.copy_location(
                    ast.Assign(targets=[copy.deepcopy(assign_to)], value=S().visit(last.value)), st)
            else:
                body = elim(body)
            if body is None:
                res.append(st)
                continue
            body = [S().visit(s_) for s_ in body]
            if tail_assign is not None:
                body.append(tail_assign)
            for s_ in body:
                for x in ast.walk(s_):
                    if hasattr(x, 'lineno'):
                        x.lineno = st.lineno
                        x.end_lineno = getattr(st, 'end_lineno', st.lineno)
            changed[0] = True
            res += splice(body, level - 1) or [ast.copy_location(ast.Pass(), st)]
        return res

    node = copy.deepcopy(fn.node)
    node.body = splice(node.body, depth)
    if not changed[0]:
        return fn
    ast.fix_missing_locations(node)
    view = copy.copy(fn)
    view.node = node
    return view


def expand_locals(fn, e, depth=3):
    """Copy of expression e in which local names that are assigned exactly once in fn (plain or element-wise tuple
    assignment) are replaced by their defining expression - hoisted sub-expressions are read through."""
    import copy
    single = {}
    for a in walk_fn(fn):
        if isinstance(a, ast.Assign) and len(a.targets) == 1:
            t = a.targets[0]
            if isinstance(t, ast.Name):
                single.setdefault(t.id, []).append(a.value)
            elif isinstance(t, ast.Tuple) and isinstance(a.value, ast.Tuple) and len(t.elts) == len(a.value.elts):
                for el, v in zip(t.elts, a.value.elts):
                    if isinstance(el, ast.Name):
                        single.setdefault(el.id, []).append(v)
            elif isinstance(t, ast.Tuple):
                for el in t.elts:
                    if isinstance(el, ast.Name):
                        single.setdefault(el.id, []).extend([None, None])
        elif isinstance(a, (ast.AugAssign, ast.For, ast.With, ast.NamedExpr)):
            tg = a.target if hasattr(a, 'target') else None
            for x in ast.walk(tg) if tg is not None else []:
                if isinstance(x, ast.Name):
                    single.setdefault(x.id, []).extend([None, None])
    single = {k: v[0] for k, v in single.items() if len(v) == 1 and v[0] is not None and k not in fn.params and
              not any(isinstance(x, ast.Name) and x.id == k for x in ast.walk(v[0]))}

    def ex(node, d):
        class S(ast.NodeTransformer):
            def visit_Name(self, n):
                if isinstance(n.ctx, ast.Load) and n.id in single and d > 0:
                    return ex(single[n.id], d - 1)
                return n
        return S().visit(copy.deepcopy(node))
    return ex(e, depth)


def text_through_helpers(prog, fn, e, depth=2):
    """Normalised text of expression e, followed by the text of what the private helpers called in it return
    (extract-method: `idx = self._index_of(x)` reads as the helper's `return self.items.index(x)`)."""
    t = norm(e)
    if depth <= 0:
        return t
    hs = {h.name: h for h in unit_functions(prog, fn)[1:]}
    for c in ast.walk(e):
        if isinstance(c, ast.Call) and call_name(c) in hs:
            h = hs[call_name(c)]
            for r in walk_fn(h):
                if isinstance(r, ast.Return) and r.value is not None:
                    t += ' ' + text_through_helpers(prog, h, r.value, depth - 1)
    return t


def origins_through_helpers(prog, fn, expr, at_node, depth=2):
    """The expressions feeding `expr` at `at_node` of fn (backward slice on reaching definitions), extended through the
    private helpers of the unit: a helper call is followed into the helper's returned expressions and their origins,
    with the call's arguments substituted for the helper's parameters (extract-method invariance of origin clauses)."""
    import copy
    from ..flow import Slice
    from ..cfg import build_cfg
    sl = Slice(fn)
    out = [expr] + [v for _, v, _, _ in sl.origins(expr, at_node) if v is not None]
    if depth <= 0:
        return out
    hs = {h.name: h for h in unit_functions(prog, fn)[1:]}
    seen = set()
    for o in list(out):
        for c in ast.walk(o):
            h = hs.get(call_name(c)) if isinstance(c, ast.Call) else None
            if h is None or id(c) in seen:
                continue
            seen.add(id(c))
            hp = [q for q in h.params if q not in ('self', 'cls')] if isinstance(c.func, ast.Attribute) and \
                h.params and h.params[0] in ('self', 'cls') else list(h.params)
            sub = {q: a for q, a in zip(hp, c.args)}
            sub.update({k.arg: k.value for k in c.keywords if k.arg})

            class S(ast.NodeTransformer):
                def visit_Name(self, node):
                    return copy.deepcopy(sub[node.id]) if node.id in sub and isinstance(node.ctx, ast.Load) else node
            hcfg = build_cfg(h)
            for r in (x for x in walk_fn(h) if isinstance(x, ast.Return) and x.value is not None):
                for v in origins_through_helpers(prog, h, r.value, hcfg.node_of(r), depth - 1):
                    out.append(S().visit(copy.deepcopy(v)))
    return out
