"""A12 ABSTRACT-COMPLETE - registered classes leave no hook abstract."""
import ast

from ..model import AnalysisError, norm, ClassInfo
from ..astutil import short
from ..report import fkey
from .common import *


def is_abstract_body(fn):
    body = [s for s in fn.body if not (isinstance(s, ast.Expr) and isinstance(s.value, ast.Constant))]
    return len(body) == 1 and isinstance(body[0], ast.Raise) and 'NotImplementedError' in norm(body[0])


def registered_classes(ctx, module_name):
    m = ctx.prog.modules.get(module_name)
    if m is None:
        raise AnalysisError(f'module vanished: {module_name}')
    out = []
    for c in ast.walk(m.tree):
        if isinstance(c, ast.Call):
            r = ctx.prog.resolve_dotted(m, c.func) if isinstance(c.func, (ast.Name, ast.Attribute)) else None
            if isinstance(r, ClassInfo) and r not in out:
                out.append(r)
    for name, v in m.assigns.items():
        if isinstance(v, ast.Name):
            r = ctx.prog.resolve(m, v.id)
            if isinstance(r, ClassInfo) and r not in out:
                out.append(r)
    return out


def check_complete(ctx, classes, rule='A12', skip=('__repr__', '__str__')):
    n = 0
    for c in classes:
        names = set()
        for k in ctx.prog.mro(c):
            for nm, f in k.methods.items():
                if is_abstract_body(f):
                    names.add(nm)
        missing = []
        for nm in sorted(names):
            f = ctx.prog.find_method(c, nm)
            if f is not None and is_abstract_body(f) and nm not in skip:
                missing.append(f'{nm} (declared abstract in {f.cls.name})')
        n += 1
        ctx.ob(rule, f'{c.key}:{rule}:hooks-implemented', not missing, c.where,
               f'{c.name} is instantiated by a registry: every hook declared abstract in its bases is implemented',
               f'{len(names)} abstract hook(s) in the hierarchy, all overridden' if not missing else
               f'still abstract: {missing}')
    return n
