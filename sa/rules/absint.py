"""Term-domain abstract interpreter for small decision procedures.

Some clauses of the properties are decision tables over a *finite* input domain (the role of a metric as a function of
its declared type and of two predicates; which list an item goes to as a function of the role bits) or statements
about *which expression* ends up in a result (the value reported for a constraint is `ref` exactly under the
absence test).  How the code spells them - nested ifs, guard clauses, flag variables, a comprehension, a private
helper - is irrelevant to the property, so these clauses are decided by interpreting the function body abstractly:

  * values are Python constants (for the finite inputs the caller enumerates) or opaque terms `Sym(term)`
    (everything the analysis does not model: objects, calls it does not know, loop elements);
  * a test on a constant selects one branch; a test on an opaque term forks the path and records the assumption
    (the same term tested again on that path takes the recorded outcome);
  * a `for` loop (and a comprehension) is interpreted for one generic element `elem(<iterable>)`;
  * calls of private helpers / nested functions of the unit are interpreted in place (extract-method invariance);
    `lst.append(v)` on a list the function created extends the abstract list; every other call is an opaque term
    and is recorded in the path's trace;
  * the result is the set of paths, each with its assumptions, trace, return value (or raise).

Nothing is executed: the interpreter only walks the syntax tree of /repo's current source.  Anything it does not
understand that *matters* (a test or a result that depends on an unmodelled construct in a way the caller needs
concrete) surfaces as an opaque term, which the calling rule reports as unrecognised (exit 2), never as a verdict.
"""
import ast
import copy

from ..model import AnalysisError, norm
from ..astutil import short


class Sym:
    __slots__ = ('term',)

    def __init__(self, term):
        self.term = term

    def __eq__(self, other):
        return isinstance(other, Sym) and self.term == other.term

    def __hash__(self):
        return hash(('Sym', self.term))

    def __repr__(self):
        return f'<{fmt(self.term)}>'


def fmt(t):
    if isinstance(t, tuple):
        k = t[0]
        if k == 'name':
            return t[1]
        if k == 'attr':
            return f'{fmt(t[1])}.{t[2]}'
        if k == 'elem':
            return f'elem({fmt(t[1])})' + (f'[{t[2]}]' if len(t) > 2 else '')
        if k == 'call':
            return f'{fmt(t[1])}({", ".join(fmt(a) for a in t[2])})'
        return f'{k}(' + ', '.join(fmt(a) for a in t[1:]) + ')'
    if isinstance(t, Sym):
        return fmt(t.term)
    return repr(t)


class AList:
    """A list created by the interpreted code; items are abstract values."""
    def __init__(self, items=None):
        self.items = list(items or [])

    def __repr__(self):
        return f'AList({self.items!r})'


class ATuple(tuple):
    pass


class Path:
    def __init__(self):
        self.env = {}
        self.conds = []        # (term, truth)
        self.trace = []        # ('call', term) / ('append', list name, value) / ('store', target text, value)
        self.outcome = None    # ('return', value) | ('raise', text) | ('fall', None)

    def fork(self):
        return copy.deepcopy(self)

    def assumed(self, term):
        term, flip = canon(term)
        for t, v in self.conds:
            if t == term:
                return (not v) if flip else v
        return None

    def assume(self, term, truth):
        term, flip = canon(term)
        self.conds.append((term, (not truth) if flip else truth))


def canon(term):
    """Strip negations: (positive term, flipped?)."""
    flip = False
    while isinstance(term, tuple) and len(term) == 2 and term[0] == 'not':
        term = term[1]
        flip = not flip
    return term, flip


NOTHING = object()


class Interp:
    def __init__(self, fn, helpers=None, oracle=None, loop_binder=None, max_paths=64, split_tests=False):
        self.fn = fn
        self.split_tests = split_tests      # fork on the atoms of `a and b` / `a or b` tests (short-circuit order)
        self.helpers = dict(helpers or {})
        for k, v in fn.nested.items():
            self.helpers.setdefault(k, v)
        self.oracle = oracle or (lambda kind, node, args, path: NOTHING)
        self.loop_binder = loop_binder or (lambda target, it, path: None)
        self.max_paths = max_paths
        self._depth = 0

    # ------------------------------------------------------------------ expressions
    def ev(self, e, p):
        r = self.oracle('expr', e, None, p)
        if r is not NOTHING:
            return r
        if isinstance(e, ast.Constant):
            return e.value
        if isinstance(e, ast.Name):
            if e.id in p.env:
                return p.env[e.id]
            return Sym(('name', e.id))
        if isinstance(e, ast.Attribute):
            b = self.ev(e.value, p)
            r = self.oracle('attr', e, [b], p)
            if r is not NOTHING:
                return r
            return Sym(('attr', _t(b), e.attr))
        if isinstance(e, ast.Tuple):
            return ATuple(self.ev(x, p) for x in e.elts)
        if isinstance(e, ast.List):
            return AList([self.ev(x, p) for x in e.elts])
        if isinstance(e, ast.Subscript):
            b = self.ev(e.value, p)
            i = self.ev(e.slice, p) if not isinstance(e.slice, ast.Slice) else Sym(('slice', norm(e.slice)))
            if isinstance(b, (ATuple, tuple)) and isinstance(i, int) and not isinstance(i, bool) and -len(b) <= i < len(b):
                return b[i]
            return Sym(('index', _t(b), _t(i)))
        if isinstance(e, ast.UnaryOp):
            v = self.ev(e.operand, p)
            if isinstance(e.op, ast.Not):
                if _concrete(v):
                    return not v
                a = p.assumed(_t(v))
                return (not a) if a is not None else Sym(('not', _t(v)))
            if isinstance(e.op, ast.USub) and isinstance(v, (int, float)):
                return -v
            return Sym(('unary', type(e.op).__name__, _t(v)))
        if isinstance(e, ast.BoolOp):
            is_and = isinstance(e.op, ast.And)
            vals = []
            for x in e.values:
                v = self.ev(x, p)
                if _concrete(v):
                    if is_and and not v:
                        return v if not vals else (False if all(_concrete(y) for y in vals) else v)
                    if not is_and and v:
                        return v if not vals else Sym(('or',) + tuple(_t(y) for y in vals) + (_t(v),))
                    continue        # neutral element
                a = p.assumed(_t(v))
                if a is not None:
                    if is_and and not a:
                        return False
                    if not is_and and a:
                        return True
                    continue
                vals.append(v)
            if not vals:
                return is_and
            if len(vals) == 1:
                return vals[0]
            return Sym((('and' if is_and else 'or'),) + tuple(_t(y) for y in vals))
        if isinstance(e, ast.Compare):
            left = self.ev(e.left, p)
            res = []
            for op, r_ in zip(e.ops, e.comparators):
                right = self.ev(r_, p)
                c = _compare(op, left, right)
                if c is False:
                    return False
                if c is not True:
                    res.append(c)
                left = right
            if not res:
                return True
            return res[0] if len(res) == 1 else Sym(('and',) + tuple(_t(x) for x in res))
        if isinstance(e, ast.BinOp):
            a, b = self.ev(e.left, p), self.ev(e.right, p)
            if isinstance(a, (int, float)) and isinstance(b, (int, float)) and not isinstance(a, bool) and \
                    not isinstance(b, bool):
                try:
                    return {ast.BitOr: lambda: a | b, ast.BitAnd: lambda: a & b, ast.Add: lambda: a + b,
                            ast.Sub: lambda: a - b, ast.Mult: lambda: a * b}[type(e.op)]()
                except (KeyError, TypeError):
                    pass
            return Sym(('binop', type(e.op).__name__, _t(a), _t(b)))
        if isinstance(e, ast.IfExp):
            t = self.ev(e.test, p)
            if _concrete(t):
                return self.ev(e.body if t else e.orelse, p)
            a = p.assumed(_t(t))
            if a is not None:
                return self.ev(e.body if a else e.orelse, p)
            return Sym(('ite', _t(t), _t(self.ev(e.body, p)), _t(self.ev(e.orelse, p))))
        if isinstance(e, (ast.SetComp, ast.DictComp)) and len(e.generators) == 1:
            g = e.generators[0]
            it = self.ev(g.iter, p)
            saved = dict(p.env)
            self._bind_loop(g.target, it, p)
            conds = tuple(_t(self.ev(c, p)) for c in g.ifs)
            if isinstance(e, ast.SetComp):
                t = ('setcomp', _t(self.ev(e.elt, p)), _t(it)) + conds
            else:
                t = ('dictcomp', _t(self.ev(e.key, p)), _t(self.ev(e.value, p)), _t(it)) + conds
            p.env = saved
            return Sym(t)
        if isinstance(e, (ast.ListComp, ast.GeneratorExp)):
            if len(e.generators) != 1:
                return Sym(('expr', norm(e)))
            g = e.generators[0]
            it = self.ev(g.iter, p)
            saved = dict(p.env)
            self._bind_loop(g.target, it, p)
            conds = [self.ev(c, p) for c in g.ifs]
            v = self.ev(e.elt, p)
            p.env = saved
            conds = [c for c in conds if c is not True]
            if conds:
                v = Sym(('filtered', _t(v)) + tuple(_t(c) for c in conds))
            out = AList([v])
            out.iter = it
            return out
        if isinstance(e, ast.Call):
            return self._call(e, p)
        if isinstance(e, ast.Starred):
            return Sym(('star', _t(self.ev(e.value, p))))
        return Sym(('expr', norm(e)))

    def _bind_loop(self, target, it, p):
        b = self.loop_binder(target, it, p)
        if b is not None:
            p.env.update(b)
            return
        base = ('elem', _t(it))
        if isinstance(target, ast.Name):
            p.env[target.id] = Sym(base)
        elif isinstance(target, (ast.Tuple, ast.List)):
            for i, el in enumerate(target.elts):
                if isinstance(el, ast.Name):
                    p.env[el.id] = Sym(base + (i,))

    def _call(self, e, p):
        f = e.func
        args = [self.ev(a, p) for a in e.args]
        kwargs = {k.arg: self.ev(k.value, p) for k in e.keywords if k.arg}
        r = self.oracle('call', e, (args, kwargs), p)
        if r is not NOTHING:
            return r
        name = f.attr if isinstance(f, ast.Attribute) else (f.id if isinstance(f, ast.Name) else None)
        # list mutation
        if isinstance(f, ast.Attribute) and f.attr == 'append' and len(args) == 1:
            recv = self.ev(f.value, p)
            if isinstance(recv, AList):
                recv.items.append(args[0])
                p.trace.append(('append', norm(f.value), args[0]))
                return None
        if isinstance(f, ast.Name) and f.id == 'bool' and len(args) == 1:
            return bool(args[0]) if _concrete(args[0]) else args[0]
        if isinstance(f, ast.Name) and f.id == 'isinstance' and len(args) == 2 and _concrete(args[0]) and \
                args[0] is None:
            return False
        if isinstance(f, ast.Name) and f.id in ('list', 'tuple') and len(args) == 1 and isinstance(args[0], AList):
            return args[0]
        # helpers of the unit
        h = self.helpers.get(name)
        if h is not None and self._depth < 3 and (isinstance(f, ast.Name) or (
                isinstance(f.value, ast.Name) and f.value.id in ('self', 'cls'))):
            return self._inline(h, e, args, kwargs, p)
        fterm = _t(self.ev(f.value, p)) if isinstance(f, ast.Attribute) else None
        term = ('call', ('attr', fterm, f.attr) if fterm is not None else ('name', name or norm(f)),
                tuple(_t(a) for a in args) + tuple((k, _t(v)) for k, v in sorted(kwargs.items())))
        p.trace.append(('call', term))
        return Sym(term)

    def _inline(self, h, call, args, kwargs, p):
        params = list(h.params)
        if params and params[0] in ('self', 'cls') and isinstance(call.func, ast.Attribute):
            params = params[1:]
        env = dict(p.env) if h.name in self.fn.nested else {}
        # defaults
        a = h.node.args
        pos = [x.arg for x in a.posonlyargs + a.args]
        for nm, d in zip(pos[len(pos) - len(a.defaults):], a.defaults):
            env[nm] = self.ev(d, p)
        for nm, v in zip(params, args):
            env[nm] = v
        env.update({k: v for k, v in kwargs.items() if k in params})
        outer = p.env
        p.env = env
        self._depth += 1
        try:
            paths = self.block(h.node.body, [p])
        finally:
            self._depth -= 1
        # a helper that forks is supported only when every fork returns (values are merged per path by the caller
        # through the path list) - keep it simple: require a single path here, else give an opaque value
        if len(paths) != 1:
            raise _Forked(paths, outer)
        q = paths[0]
        out = q.outcome
        q.env = outer
        if out and out[0] == 'raise':
            raise _Raised(out[1])
        q.outcome = None
        return out[1] if out and out[0] == 'return' else None

    # ------------------------------------------------------------------ statements
    def block(self, stmts, paths):
        for st in stmts:
            nxt = []
            for p in paths:
                if p.outcome is not None:
                    nxt.append(p)
                    continue
                nxt += self.stmt(st, p)
            paths = nxt
            if len(paths) > self.max_paths:
                raise AnalysisError(f'absint: more than {self.max_paths} paths in {self.fn.qualname}')
        return paths

    def stmt(self, st, p):
        try:
            return self._stmt(st, p)
        except _Raised as r:
            p.outcome = ('raise', r.text)
            return [p]

    def _test(self, test, p, then, orelse):
        """Fork on an opaque test."""
        if self.split_tests:
            return self._test_k(test, p, lambda q: self.block(then, [q]), lambda q: self.block(orelse, [q]))
        try:
            v = self.ev(test, p)
        except _Forked:
            raise AnalysisError(f'absint: helper with several outcomes inside a test `{short(test)}`')
        if _concrete(v):
            return self.block(then if v else orelse, [p])
        a = p.assumed(_t(v))
        if a is not None:
            return self.block(then if a else orelse, [p])
        q = p.fork()
        p.assume(_t(v), True)
        q.assume(_t(v), False)
        return self.block(then, [p]) + self.block(orelse, [q])

    def _test_k(self, test, p, k_true, k_false):
        """Continuation form of _test that forks on the atoms of a compound test in short-circuit order, so that two
        tests sharing an atom (`if a and not b: ...` followed by `if a: ...`) are decided consistently."""
        if isinstance(test, ast.BoolOp) and len(test.values) >= 2:
            first = test.values[0]
            rest = test.values[1] if len(test.values) == 2 else ast.BoolOp(op=test.op, values=test.values[1:])
            if isinstance(test.op, ast.And):
                return self._test_k(first, p, lambda q: self._test_k(rest, q, k_true, k_false), k_false)
            return self._test_k(first, p, k_true, lambda q: self._test_k(rest, q, k_true, k_false))
        if isinstance(test, ast.UnaryOp) and isinstance(test.op, ast.Not):
            return self._test_k(test.operand, p, k_false, k_true)
        try:
            v = self.ev(test, p)
        except _Forked:
            raise AnalysisError(f'absint: helper with several outcomes inside a test `{short(test)}`')
        if _concrete(v):
            return k_true(p) if v else k_false(p)
        a = p.assumed(_t(v))
        if a is not None:
            return k_true(p) if a else k_false(p)
        q = p.fork()
        p.assume(_t(v), True)
        q.assume(_t(v), False)
        return k_true(p) + k_false(q)

    def _stmt(self, st, p):
        if isinstance(st, (ast.Pass, ast.FunctionDef, ast.Import, ast.ImportFrom, ast.Global, ast.Nonlocal)):
            return [p]
        if isinstance(st, ast.Expr):
            if isinstance(st.value, ast.Constant):
                return [p]
            return self._with_forks(st, st.value, p, lambda v, q: None)
        if isinstance(st, ast.Return):
            if st.value is None:
                p.outcome = ('return', None)
                return [p]

            def fin(v, q):
                q.outcome = ('return', v)
            return self._with_forks(st, st.value, p, fin)
        if isinstance(st, ast.Raise):
            p.outcome = ('raise', norm(st.exc.func) if isinstance(st.exc, ast.Call) else norm(st.exc) if st.exc else '')
            return [p]
        if isinstance(st, ast.Continue):
            p.outcome = ('continue', None)
            return [p]
        if isinstance(st, ast.Break):
            p.outcome = ('break', None)
            return [p]
        if isinstance(st, (ast.Assign, ast.AnnAssign)):
            value = st.value
            targets = st.targets if isinstance(st, ast.Assign) else [st.target]
            if value is None:
                return [p]

            def fin(v, q):
                for t in targets:
                    self._assign(t, v, q)
            return self._with_forks(st, value, p, fin)
        if isinstance(st, ast.AugAssign):
            def fin(v, q):
                cur = self.ev(st.target, q)
                if isinstance(cur, (int, float)) and isinstance(v, (int, float)):
                    fake = ast.BinOp(left=ast.Constant(cur), op=st.op, right=ast.Constant(v))
                    self._assign(st.target, self.ev(fake, q), q)
                else:
                    self._assign(st.target, Sym(('binop', type(st.op).__name__, _t(cur), _t(v))), q)
            return self._with_forks(st, st.value, p, fin)
        if isinstance(st, ast.If):
            return self._test(st.test, p, st.body, st.orelse)
        if isinstance(st, ast.For):
            it = self.ev(st.iter, p)
            self._bind_loop(st.target, it, p)
            p.trace.append(('loop', _t(it)))
            out = self.block(st.body, [p])
            for q in out:
                if q.outcome and q.outcome[0] in ('continue', 'break'):
                    q.outcome = None
            return out
        if isinstance(st, ast.With):
            return self.block(st.body, [p])
        if isinstance(st, ast.Try):
            return self.block(st.body + st.orelse + st.finalbody, [p])
        if isinstance(st, (ast.Assert, ast.Delete)):
            return [p]
        raise AnalysisError(f'absint: unsupported statement `{short(st, 60)}` in {self.fn.qualname}')

    def _with_forks(self, st, expr, p, fin):
        """Evaluate expr for the path; a helper call inside it that forks multiplies the paths."""
        try:
            v = self.ev(expr, p)
        except _Forked as f:
            # re-run the statement on each fork with the helper outcome assumed: simplest sound treatment is to
            # continue every fork with the value it returned, when the statement is `x = helper(..)`/`return helper(..)`
            # or `lst.append(helper(..))`
            outs = []
            for q in f.paths:
                out = q.outcome
                q.env = dict(f.outer)
                q.outcome = None
                if out and out[0] == 'raise':
                    q.outcome = out
                    outs.append(q)
                    continue
                hv = out[1] if out and out[0] == 'return' else None
                if isinstance(expr, ast.Call) and self.helpers.get(_callname(expr)) is not None:
                    fin(hv, q)
                elif isinstance(expr, ast.Call) and _callname(expr) == 'append' and len(expr.args) == 1:
                    recv = self.ev(expr.func.value, q)
                    if isinstance(recv, AList):
                        recv.items.append(hv)
                        q.trace.append(('append', norm(expr.func.value), hv))
                elif isinstance(expr, ast.Tuple):
                    # (a, helper(..)) - rebuild with the helper value in place
                    vals = []
                    for x in expr.elts:
                        if isinstance(x, ast.Call) and self.helpers.get(_callname(x)) is not None:
                            vals.append(hv)
                        else:
                            vals.append(self.ev(x, q))
                    fin(ATuple(vals), q)
                else:
                    raise AnalysisError(f'absint: helper with several outcomes inside `{short(st, 60)}`')
                outs.append(q)
            return outs
        fin(v, p)
        return [p]

    def _assign(self, t, v, p):
        if isinstance(t, ast.Name):
            p.env[t.id] = v
        elif isinstance(t, (ast.Tuple, ast.List)):
            for i, el in enumerate(t.elts):
                if isinstance(v, (tuple, ATuple)) and len(v) == len(t.elts):
                    self._assign(el, v[i], p)
                else:
                    self._assign(el, Sym(('index', _t(v), i)), p)
        else:
            p.trace.append(('store', norm(t), v))

    # ------------------------------------------------------------------ entry
    def run(self, env=None, body=None):
        p = Path()
        p.env = dict(env or {})
        paths = self.block(body if body is not None else self.fn.node.body, [p])
        for q in paths:
            if q.outcome is None:
                q.outcome = ('fall', None)
        return paths


class _Raised(Exception):
    def __init__(self, text):
        self.text = text


class _Forked(Exception):
    def __init__(self, paths, outer):
        self.paths = paths
        self.outer = outer


def _callname(c):
    f = c.func
    return f.attr if isinstance(f, ast.Attribute) else (f.id if isinstance(f, ast.Name) else None)


def _concrete(v):
    return v is None or isinstance(v, (bool, int, float, str))


def _t(v):
    """Hashable term of a value."""
    if isinstance(v, Sym):
        return v.term
    if isinstance(v, AList):
        return ('list',) + tuple(_t(x) for x in v.items)
    if isinstance(v, tuple):
        return ('tuple',) + tuple(_t(x) for x in v)
    return v


def _compare(op, a, b):
    ca, cb = _concrete(a), _concrete(b)
    if ca and cb:
        try:
            return {ast.Eq: lambda: a == b, ast.NotEq: lambda: a != b, ast.Is: lambda: a is b or a == b,
                    ast.IsNot: lambda: not (a is b or a == b), ast.Lt: lambda: a < b, ast.LtE: lambda: a <= b,
                    ast.Gt: lambda: a > b, ast.GtE: lambda: a >= b}[type(op)]()
        except (KeyError, TypeError):
            pass
    if isinstance(op, (ast.Is, ast.Eq)) and (a is None) != (b is None) and (ca or cb) and \
            (isinstance(a, (int, float, str)) or isinstance(b, (int, float, str))):
        return False
    if isinstance(op, (ast.IsNot, ast.NotEq)) and (a is None) != (b is None) and (ca or cb) and \
            (isinstance(a, (int, float, str)) or isinstance(b, (int, float, str))):
        return True
    name = {ast.Eq: 'eq', ast.NotEq: 'ne', ast.Is: 'is', ast.IsNot: 'isnot', ast.In: 'in', ast.NotIn: 'notin',
            ast.Lt: 'lt', ast.LtE: 'le', ast.Gt: 'gt', ast.GtE: 'ge'}[type(op)]
    if name in ('ne', 'isnot', 'notin'):
        pos = {'ne': 'eq', 'isnot': 'is', 'notin': 'in'}[name]
        return Sym(('not', (pos, _t(a), _t(b))))
    return Sym((name, _t(a), _t(b)))


def contains(term, sub):
    """sub occurs inside term."""
    if term == sub:
        return True
    if isinstance(term, tuple):
        return any(contains(x, sub) for x in term)
    return False


def find(term, pred):
    """All sub-terms satisfying pred."""
    out = []
    if isinstance(term, tuple):
        if pred(term):
            out.append(term)
        for x in term:
            out += find(x, pred)
    return out
