"""A16 INTERVAL-CLAMP - abstract interpretation of clamp / range-check code over the finite partition that
the code's own comparison constants induce on the checked variable.

Domain: for a variable v compared only against a finite set of symbolic constants (0, n-1, n, lower, upper,
...), the real line is partitioned into the regions "below / at / between / above" those constants.  All
operations the interpreter accepts are region-uniform: comparisons of v against the constants (any boolean
combination), assignments of v to one of the constants, raise, return.  Hence one representative per region
(for every admissible ordering of the constants: n = 1 makes 0 and n-1 coincide) decides the region.
Anything else that touches v is an unrecognised idiom (AnalysisError, exit 2) - the rule never guesses.
"""
import ast

from ..model import AnalysisError, norm
from ..astutil import short
from . import intcmp


class Outcome:
    def __init__(self, kind, value=None, node=None, extra=None):
        self.kind = kind      # 'return' | 'raise' | 'fall' | 'store'
        self.value = value
        self.node = node
        self.extra = extra


def _mentions(node, var):
    return any(isinstance(x, ast.Name) and x.id == var for x in ast.walk(node))


_NEGOP = {ast.Eq: ast.NotEq, ast.NotEq: ast.Eq, ast.Is: ast.IsNot, ast.IsNot: ast.Is, ast.In: ast.NotIn,
          ast.NotIn: ast.In}


def _negated_text(test):
    """Text of the logical negation of a single comparison (`x is not None` <-> `x is None`), else None."""
    if isinstance(test, ast.Compare) and len(test.ops) == 1 and type(test.ops[0]) in _NEGOP:
        return norm(ast.Compare(left=test.left, ops=[_NEGOP[type(test.ops[0])]()], comparators=test.comparators))
    if isinstance(test, ast.UnaryOp) and isinstance(test.op, ast.Not):
        return norm(test.operand)
    return None


class RegionInterp:
    def __init__(self, var, env, consts_ok=None, on_store=None, alias=None, helpers=None):
        self.var = var
        self.env = dict(env)          # normalised constant expression -> representative number
        self.on_store = on_store      # predicate(stmt) -> True when the statement is the guarded sink
        self.alias = alias or {}
        self.helpers = helpers or {}  # name -> FunctionInfo of the private helpers of the unit (extract-method)
        self.derived = set()          # locals whose tracked value was computed from the variable
        self._depth = 0

    # ---- helper calls (extract-method): the callee body is interpreted with the arguments substituted ----
    def _helper_of(self, call):
        if not isinstance(call, ast.Call) or not self.helpers:
            return None
        f = call.func
        name = None
        if isinstance(f, ast.Attribute) and isinstance(f.value, ast.Name):
            name = f.attr
        elif isinstance(f, ast.Name):
            name = f.id
        h = self.helpers.get(name)
        if h is None or self._depth > 2:
            return None
        if not any(self._dep(a) for a in list(call.args) + [k.value for k in call.keywords]):
            return None
        return h

    def _dep(self, node):
        return any(isinstance(x, ast.Name) and (x.id == self.var or x.id in self.derived) for x in ast.walk(node))

    def _inline(self, call, h, v, flags):
        """Outcome of the helper body for the representative (arguments substituted for the parameters)."""
        import copy
        params = list(h.params)
        if params and params[0] in ('self', 'cls') and isinstance(call.func, ast.Attribute):
            params = params[1:]
        sub = {}
        for p, a in zip(params, call.args):
            sub[p] = a
        for k in call.keywords:
            if k.arg in params:
                sub[k.arg] = k.value

        class S(ast.NodeTransformer):
            def visit_Name(self, node):
                if node.id in sub:
                    return copy.deepcopy(sub[node.id]) if isinstance(node.ctx, ast.Load) or \
                        isinstance(sub[node.id], ast.Name) else node
                return node
        body = [S().visit(copy.deepcopy(st)) for st in h.node.body]
        # assigning a parameter inside the helper must not be seen by the caller: the substituted variable is
        # restored afterwards, and so are the caller's locals
        env0, der0 = dict(self.env), set(self.derived)
        self._depth += 1
        try:
            o, _ = self.run(body, v, flags)
        finally:
            self._depth -= 1
            self.env, self.derived = env0, der0
        return o

    def _helper_calls(self, st):
        out = []
        for x in ast.walk(st):
            h = self._helper_of(x)
            if h is not None:
                out.append((x, h))
        return out

    def const(self, e):
        try:
            return intcmp._const(e, self.env)
        except intcmp.NotSimple:
            raise AnalysisError(f'A16: unrecognised constant expression `{norm(e)}`')

    def test(self, e, v):
        try:
            return bool(intcmp.holds(e, lambda x: isinstance(x, ast.Name) and x.id == self.var, v, self.env))
        except intcmp.NotSimple as ex:
            raise AnalysisError(f'A16: unrecognised guard idiom `{norm(e)}` ({ex})')

    def run(self, body, v, flags=None):
        """Interpret a statement list for the representative v.  Returns (Outcome, v)."""
        flags = flags or {}
        for st in body:
            if isinstance(st, ast.If):
                neg = _negated_text(st.test)
                for c, h in self._helper_calls(st.test):
                    o = self._inline(c, h, v, flags)
                    if o.kind == 'raise':
                        return o, v
                if norm(st.test) in flags or neg in flags or not self._dep(st.test):
                    t = norm(st.test)
                    if t in flags:
                        branch = st.body if flags[t] else st.orelse
                    elif neg in flags:
                        branch = st.body if not flags[neg] else st.orelse
                    elif isinstance(st.test, ast.UnaryOp) and norm(st.test.operand) in flags:
                        branch = st.body if not flags[norm(st.test.operand)] else st.orelse
                    else:
                        # a guard unrelated to v: both branches are possible; they must agree on v's fate
                        o1, v1 = self.run(st.body, v, flags)
                        o2, v2 = self.run(st.orelse, v, flags)
                        if o1.kind != 'fall' or o2.kind != 'fall':
                            if any(_mentions(x, self.var) for b in (st.body, st.orelse) for x in b) or \
                                    o1.kind != o2.kind:
                                # unrelated early exit (e.g. another validation): treat as possible exit
                                if o1.kind in ('raise',) and o2.kind == 'fall':
                                    v = v2
                                    continue
                                if o2.kind in ('raise',) and o1.kind == 'fall':
                                    v = v1
                                    continue
                                raise AnalysisError(f'A16: branches of unrelated guard `{t}` disagree on '
                                                    f'`{self.var}`')
                            return o1, v1
                        if v1 != v2:
                            raise AnalysisError(f'A16: unrelated guard `{t}` changes `{self.var}` differently')
                        v = v1
                        continue
                    o, v = self.run(branch, v, flags)
                    if o.kind != 'fall':
                        return o, v
                    continue
                branch = st.body if self.test(st.test, v) else st.orelse
                o, v = self.run(branch, v, flags)
                if o.kind != 'fall':
                    return o, v
                continue
            if isinstance(st, ast.Raise):
                return Outcome('raise', node=st), v
            if isinstance(st, ast.Continue):
                return Outcome('continue', node=st), v
            if not isinstance(st, (ast.For, ast.While, ast.With, ast.Try)):
                self._flags = flags
                for c, h in self._helper_calls(st):
                    o = self._inline(c, h, v, flags)
                    if o.kind == 'raise':
                        return o, v
            if isinstance(st, ast.Return):
                return Outcome('return', value=self._ret_value(st.value, v), node=st), v
            if self.on_store is not None and self.on_store(st):
                return Outcome('store', value=v, node=st), v
            if isinstance(st, ast.Assign) and len(st.targets) == 1:
                t = st.targets[0]
                if isinstance(t, ast.Name) and t.id == self.var:
                    if _mentions(st.value, self.var):
                        # value = int(value) / float(value): identity on representatives of that kind
                        if isinstance(st.value, ast.Call) and isinstance(st.value.func, ast.Name) and \
                                st.value.func.id in ('int', 'float') and len(st.value.args) == 1 and \
                                isinstance(st.value.args[0], ast.Name):
                            continue
                        nv = self._num(st.value, v)
                        if nv is None:
                            raise AnalysisError(f'A16: unrecognised update `{norm(st)}`')
                        v = nv
                        continue
                    v = self.const(st.value)
                    continue
                if isinstance(t, (ast.Tuple, ast.List)) and not _mentions(st, self.var) and \
                        isinstance(st.value, (ast.Tuple, ast.List)) and len(st.value.elts) == len(t.elts):
                    # lower, upper = self.bounds[0], self.bounds[1]
                    for el, ve in zip(t.elts, st.value.elts):
                        if isinstance(el, ast.Name):
                            try:
                                self.env[el.id] = intcmp._const(ve, self.env)
                            except intcmp.NotSimple:
                                self.env.pop(el.id, None)
                    continue
                if isinstance(t, (ast.Tuple, ast.List)) and not _mentions(st, self.var):
                    # lower, upper = self.bounds  -> bind names to the constants of the env
                    src = norm(st.value)
                    for i, el in enumerate(t.elts):
                        k = f'{src}[{i}]'
                        if isinstance(el, ast.Name) and k in self.env:
                            self.env[el.id] = self.env[k]
                    continue
                if isinstance(t, ast.Name) and not self._dep(st.value):
                    self.derived.discard(t.id)
                    try:
                        self.env[t.id] = intcmp._const(st.value, self.env)
                    except intcmp.NotSimple:
                        self.env.pop(t.id, None)
                    continue
                if isinstance(t, ast.Name) and self._dep(st.value):
                    # derived quantity (e.g. bounds_fraction, an alias of the value): tracked when it is plain
                    # arithmetic
                    nv = self._num(st.value, v)
                    if nv is not None:
                        self.env[t.id] = nv
                        self.derived.add(t.id)
                    else:
                        self.env.pop(t.id, None)
                        self.derived.discard(t.id)
                    continue
            if isinstance(st, (ast.Expr, ast.Pass, ast.AnnAssign, ast.For, ast.AugAssign, ast.Assign)):
                if isinstance(st, ast.For):
                    # a loop that may raise for reasons unrelated to v
                    continue
                continue
            raise AnalysisError(f'A16: unrecognised statement `{short(st, 60)}`')
        return Outcome('fall'), v

    def _num(self, e, v):
        """Numeric value of an arithmetic / min / max expression over the variable and the constants."""
        if isinstance(e, ast.Name) and e.id == self.var:
            return v
        h = self._helper_of(e)
        if h is not None:
            o = self._inline(e, h, v, getattr(self, '_flags', None))
            return o.value if o.kind == 'return' else None
        if isinstance(e, ast.Call) and isinstance(e.func, ast.Name) and e.func.id in ('min', 'max') and \
                len(e.args) >= 2 and not e.keywords:
            vals = [self._num(a, v) for a in e.args]
            if any(x is None for x in vals):
                return None
            return min(vals) if e.func.id == 'min' else max(vals)
        if isinstance(e, ast.BinOp) and isinstance(e.op, (ast.Add, ast.Sub, ast.Mult, ast.Div)):
            a, b = self._num(e.left, v), self._num(e.right, v)
            if a is None or b is None:
                return None
            try:
                return {ast.Add: a + b, ast.Sub: a - b, ast.Mult: a * b}.get(type(e.op), None) \
                    if not isinstance(e.op, ast.Div) else a / b
            except ZeroDivisionError:
                return None
        try:
            return intcmp._const(e, self.env)
        except intcmp.NotSimple:
            return None

    def ret_tuple(self, ret_stmt, v):
        """Numeric values of every element of a returned tuple (None where not computable)."""
        e = ret_stmt.value
        elts = e.elts if isinstance(e, ast.Tuple) else [e]
        return [self._num(x, v) for x in elts]

    def _ret_value(self, e, v):
        if e is None:
            return None
        if isinstance(e, ast.Tuple) and e.elts:
            e = e.elts[0]
        if isinstance(e, ast.Name) and e.id == self.var:
            return v
        nv = self._num(e, v)
        if nv is not None:
            return nv
        try:
            return self.const(e)
        except AnalysisError:
            return None


def unit_helpers(ctx, fn):
    """name -> FunctionInfo for the private helpers fn calls (see common.unit_functions)."""
    from .common import unit_functions
    return {f.name: f for f in unit_functions(ctx.prog, fn) if f is not fn}


def representatives(points, integer):
    """Region representatives for the sorted distinct numeric points."""
    pts = sorted(set(points))
    reps = set()
    for p in pts:
        reps |= {p, p - 1, p + 1, p - 3, p + 3}
    for a, b in zip(pts, pts[1:]):
        reps.add((a + b) / 2 if not integer else (a + b) // 2)
    if not integer:
        reps |= {p + 0.25 for p in pts} | {p - 0.25 for p in pts}
    return sorted(reps)
