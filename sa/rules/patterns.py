"""A13 REPRESENTATIVE - "element 0 speaks for all" beliefs of the pattern encoders."""
import ast

from ..model import AnalysisError, norm, walk_no_nested
from ..cfg import build_cfg
from ..astutil import short, call_name
from ..report import fkey
from . import guards
from .common import *

PBASE = 'adsg_core.optimization.assign_enc.patterns.encoder:PatternEncoderBase'


def _side_of(e):
    """'src' / 'tgt' if e is `<x>.src[0]` / `<x>.tgt[0]` or `src[0]` / `tgt[0]`."""
    if isinstance(e, ast.Subscript) and isinstance(e.slice, ast.Constant) and e.slice.value == 0:
        v = e.value
        if isinstance(v, ast.Attribute) and v.attr in ('src', 'tgt'):
            return v.attr
        if isinstance(v, ast.Name) and v.id in ('src', 'tgt'):
            return v.id
    return None


def representative_reads(cls):
    """(method, side, attr, node) for reads side[0].attr outside _matches_pattern."""
    out = []
    for m in cls.methods.values():
        if m.name == '_matches_pattern':
            continue
        # local aliases: src, tgt = effective_settings.src[0], effective_settings.tgt[0]
        alias = {}
        for s in walk_fn(m):
            if isinstance(s, ast.Assign):
                tg, v = s.targets[0], s.value
                pairs = list(zip(tg.elts, v.elts)) if isinstance(tg, ast.Tuple) and isinstance(v, ast.Tuple) and \
                    len(tg.elts) == len(v.elts) else [(tg, v)]
                for t1, v1 in pairs:
                    if isinstance(t1, ast.Name) and _side_of(v1):
                        alias[t1.id] = _side_of(v1)
        for s in walk_fn(m):
            if isinstance(s, ast.Attribute) and isinstance(s.ctx, ast.Load):
                side = _side_of(s.value)
                if side is None and isinstance(s.value, ast.Name) and s.value.id in alias:
                    side = alias[s.value.id]
                if side:
                    out.append((m, side, s.attr, s))
    return out


def uniformity_facts(cls):
    """Facts established by _matches_pattern on every accepting path: set of (side, attr) uniform, and set of
    sides known to be singletons.  Only tests whose true branch returns False are used."""
    mp = cls.methods.get('_matches_pattern')
    if mp is None:
        return set(), set(), None
    uniform, single = set(), set()

    def gen_facts(call):
        # any(<cond> for n in <side>)
        if not (isinstance(call, ast.Call) and call_name(call) == 'any' and call.args and
                isinstance(call.args[0], ast.GeneratorExp) and len(call.args[0].generators) == 1):
            return
        g = call.args[0].generators[0]
        side = norm(g.iter)
        if side not in ('src', 'tgt') or not isinstance(g.target, ast.Name):
            return
        var = g.target.id
        cond = call.args[0].elt
        if isinstance(cond, ast.Compare) and len(cond.ops) == 1 and isinstance(cond.ops[0], ast.NotEq) and \
                isinstance(cond.left, ast.Attribute) and norm(cond.left.value) == var:
            uniform.add((side, cond.left.attr))
        elif isinstance(cond, ast.UnaryOp) and isinstance(cond.op, ast.Not) and \
                isinstance(cond.operand, ast.Attribute) and norm(cond.operand.value) == var:
            uniform.add((side, cond.operand.attr))
        elif isinstance(cond, ast.Attribute) and norm(cond.value) == var:
            uniform.add((side, cond.attr))
    for s in walk_fn(mp):
        if not isinstance(s, ast.If):
            continue
        rejects = any(isinstance(b, ast.Return) and isinstance(b.value, ast.Constant) and b.value.value is False
                      for b in s.body)
        if not rejects:
            continue
        tests = s.test.values if isinstance(s.test, ast.BoolOp) and isinstance(s.test.op, ast.Or) else [s.test]
        for t in tests:
            gen_facts(t)
            if isinstance(t, ast.Compare) and len(t.ops) == 1 and isinstance(t.ops[0], ast.NotEq) and \
                    isinstance(t.left, ast.Call) and call_name(t.left) == 'len' and \
                    norm(t.left.args[0]) in ('src', 'tgt') and isinstance(t.comparators[0], ast.Constant) and \
                    t.comparators[0].value == 1:
                single.add(norm(t.left.args[0]))
    return uniform, single, mp


def check_representatives(ctx, rule='A13'):
    prog = ctx.prog
    base = prog.cls(PBASE)
    n = 0
    for cls in prog.subclasses(base):
        uniform, single, mp = uniformity_facts(cls)
        if mp is None:
            continue
        ctx.touch(mp)
        # mode flags: self.<flag> = True assignments in the matcher and the singleton facts guarding them
        mode_single = {}
        cfg = build_cfg(mp)
        for nd in cfg.nodes:
            a = nd.ast
            if nd.kind == 'stmt' and isinstance(a, ast.Assign) and is_self_attr(a.targets[0]) and \
                    isinstance(a.value, ast.Constant) and a.value.value is True:
                flag = a.targets[0].attr
                for side in ('src', 'tgt'):
                    ge = cfg.edges_implying(lambda atom, truth, side=side: truth is True and
                                            isinstance(atom, ast.Compare) and isinstance(atom.ops[0], ast.Eq) and
                                            norm(atom.left) == f'len({side})' and norm(atom.comparators[0]) == '1')
                    if ge and not cfg.can_reach(cfg.entry, nd, blocked_edges=ge):
                        mode_single.setdefault(flag, set()).add(side)
        for m, side, attr, node in representative_reads(cls):
            n += 1
            ok = (side, attr) in uniform or side in single
            why = 'uniform by matcher' if (side, attr) in uniform else ('singleton side' if side in single else '')
            if not ok:
                # read under `if self.<flag>:` where the flag implies a singleton side
                from ..astutil import ancestors
                for a in ancestors(m, node):
                    if isinstance(a, ast.If) and is_self_attr(a.test) and side in mode_single.get(a.test.attr, ()) and \
                            any(any(x is node for x in ast.walk(b)) for b in a.body):
                        ok, why = True, f'read in mode `{a.test.attr}`, which the matcher enters only with one {side} node'
            ctx.ob(rule, fkey(m, rule, f'{side}[0].{attr}'), ok, f'{m.module.relpath}:{node.lineno}',
                   f'{cls.name}.{m.name} reads `{side}[0].{attr}` for all {side} nodes: its _matches_pattern must '
                   f'reject settings where the {side} nodes differ in `{attr}` (or have more than one {side} node)',
                   why if ok else f'_matches_pattern establishes {sorted(uniform)} uniform and {sorted(single)} '
                   f'singleton - not `{attr}` of {side}: a setting with mixed {side} nodes is accepted and decoded '
                   f'with the first node\'s `{attr}`')
        # range-from-endpoints belief
        for m in cls.methods.values():
            if m.name == '_matches_pattern':
                continue
            for s in walk_fn(m):
                if isinstance(s, ast.BinOp) and isinstance(s.op, ast.Add) and isinstance(s.right, ast.Constant) and \
                        s.right.value == 1 and isinstance(s.left, ast.BinOp) and isinstance(s.left.op, ast.Sub):
                    # max - min + 1 : is min taken from the first element of a degree list?
                    src_txt = ' '.join(norm(x) for x in walk_fn(m) if isinstance(x, ast.Assign))
                    if 'conns[0]' in src_txt and norm(s.left.right) in src_txt:
                        n += 1
                        mt = ' '.join(norm(x) for x in mp.body)
                        ok = 'list(range(' in mt and 'conns' in mt and 'max_inf' in mt
                        ctx.ob(rule, fkey(m, rule, 'range-from-endpoints'), ok, f'{m.module.relpath}:{s.lineno}',
                               f'{cls.name}.{m.name} derives the number of options as max - min + 1 from the ends of '
                               f'a degree list: its _matches_pattern must reject degree lists with gaps',
                               'matcher tests contiguity (or an open-ended range)' if ok else
                               'matcher does not test contiguity: a value in a gap is declared but cannot be decoded')
    return n


# ---------------------------------------------------------------------- A13i: pattern state fixed by the first pattern
def check_state_written_only_when_initialising(ctx, rule='A13i'):
    """`_matches_pattern(settings, initialize)` is called once per existence pattern; the encoder's own attributes
    (surjective, repeatable, directed, ...) describe *the* pattern and are used for every existence pattern when
    encoding and decoding.  They may be written only for the first pattern (`initialize` true); for the others the
    stored value has to be compared, not overwritten - a write outside `if initialize` lets a later existence
    pattern silently change how the earlier ones are decoded."""
    prog = ctx.prog
    n = 0
    for fn in prog.all_functions():
        if fn.name != '_matches_pattern' or fn.owner_class is None or len(fn.params) < 3 or \
                not fn.module.name.startswith('adsg_core.optimization.assign_enc.patterns'):
            continue
        flag = fn.params[2]
        scopes = [fn] + [g for g in prog.all_functions() if g.parent is fn]
        for sc in scopes:
            cfg = build_cfg(sc)

            def writes_self(sub):
                if isinstance(sub, ast.Call) and call_name(sub) == 'setattr' and sub.args and norm(sub.args[0]) == 'self':
                    return True
                return False
            sinks = guards.nodes_with(cfg, writes_self)
            for nd in cfg.nodes:
                if nd.kind == 'stmt' and isinstance(nd.ast, (ast.Assign, ast.AugAssign, ast.AnnAssign)):
                    tgts = nd.ast.targets if isinstance(nd.ast, ast.Assign) else [nd.ast.target]
                    if any(isinstance(t, ast.Attribute) and norm(t.value) == 'self' for t in tgts) and nd not in sinks:
                        sinks.append(nd)
            if not sinks:
                continue
            ctx.touch(sc)
            for i, s in enumerate(sinks):
                n += 1
                guards.check_guarded(
                    ctx, rule, sc, [s], lambda atom, truth: truth is True and isinstance(atom, ast.Name) and
                    atom.id == flag, [], f'state-write-only-when-initialising:L{i}:{short(s.ast, 40)}',
                    f'{fn.owner_class.name}: encoder state is written only while matching the first existence pattern '
                    f'(`{flag}`); for later patterns it is compared')
    return n
