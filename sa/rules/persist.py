"""A1 PERSIST-MUT, A2 MEMO-CANON, A3 ESCAPE on a call-graph slice, using the provenance analysis."""
import ast

from ..model import AnalysisError, norm, walk_no_nested
from ..cfg import build_cfg, build_rd, node_defs, names_used
from ..astutil import short, call_name
from ..report import fkey
from . import prov as P
from .prov import MUTATORS
from .common import *

# Exception table for A1: persistent writes on a slice that are legitimate although they are neither a
# canonical memo store, a constant flag nor a lazy initialisation.  One symbol + one reason each.
A1_TABLE = {
    'adsg_core.graph.adsg:DSG.set_influence_matrix':
        'lazy initialisation of the influence matrix of a graph that has none yet (called from '
        'get_ordered_next_choice_nodes under `self._influence_matrix is None`); a function of the graph only',
    'adsg_core.graph.influence_matrix:InfluenceMatrix._create_influence_matrix':
        'idempotent: `opt_confirmed_nodes -= permanent_nodes` removes the same permanent-node set from the '
        'cached influence sets every time the matrix is (re)built',
    'adsg_core.graph.adsg_nodes:ConnectorDegreeGroupingNode.update_deg':
        'degree cache on the shared grouping node; covered by the recompute-before-read discipline (rule A11)',
    'adsg_core.func_cache:clear_func_cache':
        'invalidation of the per-object function cache: deleting the memoised entries is its purpose',
    'adsg_core.graph.adsg:DSG.resolve_single_selection_choices':
        'class-level scratch record of automatically taken choices, reset before every use (rule A11 ii)',
}

CONST_OK = (ast.Constant,)


def _is_constant_value(v):
    if isinstance(v, ast.Constant):
        return True
    if isinstance(v, ast.UnaryOp) and isinstance(v.operand, ast.Constant):
        return True
    return False


class Persist:
    def __init__(self, ctx, roots, functions, assume=None):
        self.ctx = ctx
        self.roots = roots
        self.fns = functions
        self.prov = P.Prov(ctx, assume=assume)
        self.prov.compute_bindings(functions, roots)
        self.ctxs = self.prov.contexts(roots, functions)

    def persistent_ops(self):
        """In-place operations that hit persistent state when the slice is entered through the roots."""
        out = []
        for fn in self.fns:
            sps = self.ctxs.get(fn, ())
            if not sps:
                continue
            if fn.name == '__init__':
                continue      # construction-time writes on the object being created
            sp = True in sps
            for op in self.prov.inplace_ops(fn):
                tags = [t for t in op['tags'] if P.is_persist(t) or (P.is_self(t) and sp)]
                if not tags:
                    continue
                op = dict(op)
                op['fn'] = fn
                op['ptags'] = tags
                out.append(op)
        return out

    # ------------------------------------------------------------------ A2
    def memo_canonical(self, op):
        """(ok, why) for a keyed store C[K] = V into persistent C."""
        fn = op['fn']
        node = op['node']
        key = op['index']
        cfg = build_cfg(fn)
        rd = build_rd(fn)
        cont = norm(op['target'])
        ktxt = norm(key)
        knames = names_used(key)
        # containers that alias the stored-into container (same provenance)
        def same_container(e, st):
            if norm(e) == cont:
                return True
            t1 = self.prov.of(e, st, fn)
            return bool(set(op['tags']) & t1 - {P.FRESH, P.NONE})
        states = self.prov.states(fn)
        # (1) a lookup with the same key expression on the same container, sharing a reaching definition
        for n in cfg.nodes:
            st = states.get(n.id)
            if st is None or n.ast is None:
                continue
            from ..cfg import node_exprs
            for e in node_exprs(n):
                if e is None:
                    continue
                for sub in walk_no_nested(e, include_lambda_bodies=False):
                    hit = False
                    if isinstance(sub, ast.Compare) and len(sub.ops) == 1 and \
                            isinstance(sub.ops[0], (ast.In, ast.NotIn)) and norm(sub.left) == ktxt and \
                            same_container(sub.comparators[0], st):
                        hit = True
                    elif isinstance(sub, ast.Subscript) and isinstance(sub.ctx, ast.Load) and \
                            norm(sub.slice) == ktxt and same_container(sub.value, st) and n is not node:
                        hit = True
                    elif isinstance(sub, ast.Call) and call_name(sub) == 'get' and sub.args and \
                            norm(sub.args[0]) == ktxt and isinstance(sub.func, ast.Attribute) and \
                            same_container(sub.func.value, st):
                        hit = True
                    if not hit:
                        continue
                    # common reaching definition for every name of the key
                    ok = True
                    for nm in knames:
                        d1 = {d.id for d in rd.defs_of(nm, n)}
                        d2 = {d.id for d in rd.defs_of(nm, node)}
                        if (d1 or d2) and not (d1 & d2):
                            ok = False
                    if ok and cfg.can_reach(n, node):
                        return True, f'canonical lookup/store pair on key `{ktxt}` (lookup at L{n.lineno})'
        # (2) idempotence store: the key is derived from the stored value (or the value built from the key)
        val = op['value']
        if val is not None:
            from ..flow import Slice
            sl = Slice(fn)
            vnames = names_used(val)
            # value -> key
            for nm, v, how, d in sl.origins(key, node):
                if v is not None and any(x in names_used(v) for x in vnames):
                    return True, f'key `{ktxt}` is derived from the stored value'
            for nm, v, how, d in sl.origins(val, node):
                if v is not None and knames and knames <= names_used(v) | {nm}:
                    return True, f'the stored value is built from the key `{ktxt}`'
            # key and value stem from the same call result (a, b = f(); C[a] = (b, ..))
            kdefs = {d.id for nm in knames for d in rd.defs_of(nm, node)}
            vorig = {d.id for nm, v, how, d in sl.origins(val, node) if d is not None}
            if kdefs and kdefs <= vorig | {d.id for nm in vnames for d in rd.defs_of(nm, node)}:
                if any(isinstance(cfg.nodes[i].ast, ast.Assign) and isinstance(cfg.nodes[i].ast.value, ast.Call)
                       for i in kdefs):
                    return True, f'key `{ktxt}` and the stored value come from the same computation'
        return False, (f'store `{short(node.ast, 70)}`: the key `{ktxt}` is never looked up in this function and '
                       f'is not derived from the stored value (a stale key may be bound to a value computed for '
                       f'another input)')

    def carried_state_in_key(self, op):
        """A2 (ii) for stores inside a loop: if the stored value is computed from a variable whose value is
        carried over from earlier iterations (re-bound or mutated in the loop and reaching the store without
        being re-bound in the same iteration), the key must depend on carried state as well - a key that only
        identifies the current iteration cannot identify a value that depends on the history of the loop."""
        from .prov import MUTATORS
        fn, node = op['fn'], op['node']
        cfg = build_cfg(fn)
        rd = build_rd(fn)
        heads = [h for h in cfg.nodes if (h.kind == 'for' or (h.kind == 'test' and isinstance(h.stmt, ast.While)))
                 and any(lab == 'T' for _, lab in h.succ)]
        inner = None
        for h in heads:
            body = cfg.reachable([m for m, lab in h.succ if lab == 'T'], blocked_nodes=[h])
            if node.id in body and h.id in cfg.reachable([node]):
                if inner is None or len(body) < inner[1]:
                    inner = (h, len(body), body)
        if inner is None:
            return True, 'store is not inside a loop'
        head, _, body = inner

        mutated_in_place = set()

        def defs_in_loop(name):
            out = []
            for i in body:
                n = cfg.nodes[i]
                if name in node_defs(n):
                    out.append(n)
                    continue
                a = n.ast
                if n.kind == 'stmt' and isinstance(a, (ast.Assign, ast.AugAssign)):
                    tgts = a.targets if isinstance(a, ast.Assign) else [a.target]
                    if any(isinstance(t, ast.Subscript) and isinstance(t.value, ast.Name) and t.value.id == name
                           for t in tgts):
                        mutated_in_place.add(name)
                        continue
                if a is not None and n.kind == 'stmt':
                    for sub in walk_no_nested(a):
                        if isinstance(sub, ast.Call) and isinstance(sub.func, ast.Attribute) and \
                                sub.func.attr in MUTATORS and isinstance(sub.func.value, ast.Name) and \
                                sub.func.value.id == name:
                            mutated_in_place.add(name)
                            break
            return out

        def carried(name, at):
            ds = defs_in_loop(name)
            if name in mutated_in_place and not ds:
                return True      # partially updated in place in the loop, bound outside: keeps earlier state
            if not ds:
                return False
            if name in node_defs(head):
                return False
            blocked = [d for d in ds if d is not at]
            starts = [m for m, lab in head.succ if lab == 'T']
            return at.id in cfg.reachable(starts, blocked_nodes=blocked + [head]) or at in starts

        def key_has_carried(expr, at, depth=0, seen=None):
            seen = seen or set()
            for nm in names_used(expr):
                if (nm, at.id) in seen:
                    continue
                seen.add((nm, at.id))
                if carried(nm, at):
                    return nm
                if depth < 4:
                    for d in rd.defs_of(nm, at):
                        if d.id in body and d.kind == 'stmt' and isinstance(d.ast, ast.Assign):
                            r = key_has_carried(d.ast.value, d, depth + 1, seen)
                            if r:
                                return r
            return None
        v0 = key_has_carried(op['value'], node) if op['value'] is not None else None
        vnames = [v0] if v0 else []
        # the store target itself (a[k] = b = f(b)) re-binds b: b is read before
        if not vnames:
            return True, 'the stored value does not depend on state carried over loop iterations'
        k = key_has_carried(op['index'], node)
        if k:
            return True, f'value depends on carried `{vnames[0]}`, key on carried `{k}`'
        return False, (f'the stored value is computed from `{vnames[0]}`, which carries the effect of earlier '
                       f'iterations of the loop at L{head.lineno}, but the key `{norm(op["index"])}` identifies '
                       f'only the current iteration: two different histories share one cache entry')

    # ------------------------------------------------------------------ A1
    def check_writes(self, rule='A1', floor_note=''):
        ctx = self.ctx
        n = 0
        for op in self.persistent_ops():
            fn, node, kind = op['fn'], op['node'], op['kind']
            ctx.touch(fn)
            text = short(node.ast, 80)
            key = fkey(fn, rule, f'{kind}:{short(op["target"], 40)}:{text}')
            where = f'{fn.module.relpath}:{node.lineno}'
            desc = ('a write that reaches state outliving the call is a canonical memo store, a constant flag, '
                    'a lazy initialisation, or a tabled exception')
            verdict, why = None, ''
            if fn.key in A1_TABLE or (fn.parent is not None and fn.outermost.key in A1_TABLE):
                k = fn.key if fn.key in A1_TABLE else fn.outermost.key
                ctx.used_exception('A1', k, A1_TABLE[k])
                verdict, why = True, f'tabled: {A1_TABLE[k]}'
            elif kind == 'setitem':
                if _is_constant_value(op['value']):
                    verdict, why = True, 'constant flag store'
                else:
                    verdict, why = self.memo_canonical(op)
                    if verdict:
                        ok2, why2 = self.carried_state_in_key(op)
                        if not ok2:
                            verdict, why = False, why2
                        else:
                            why += '; ' + why2
            elif kind == 'mutcall' and op['method'] in ('add',) and len(op['value'].args) == 1:
                verdict, why = True, 'monotone membership flag (set.add of a key)'
            elif kind == 'mutcall' and op['method'] == 'update' and len(op['value'].args) == 1 and \
                    isinstance(op['value'].args[0], (ast.Tuple, ast.List, ast.Set)) and \
                    not any(isinstance(e, (ast.Tuple, ast.List)) for e in op['value'].args[0].elts):
                verdict, why = True, 'monotone membership flags (set.update of a display of keys)'
            elif kind == 'setattr':
                # lazy init: under `self.attr is None`
                attr = op['attr']
                cfg = build_cfg(fn)
                def none_fact(atom, truth, attr=attr):
                    return isinstance(atom, ast.Compare) and len(atom.ops) == 1 and \
                        ((isinstance(atom.ops[0], (ast.Is, ast.Eq)) and truth is True) or
                         (isinstance(atom.ops[0], (ast.IsNot, ast.NotEq)) and truth is False)) and \
                        is_self_attr(atom.left, attr) and \
                        isinstance(atom.comparators[0], ast.Constant) and atom.comparators[0].value is None
                ge = cfg.edges_implying(none_fact)
                if ge and not cfg.can_reach(cfg.entry, node, blocked_edges=ge):
                    verdict, why = True, f'lazy initialisation under `self.{attr} is None`'
                else:
                    verdict, why = False, (f'attribute `self.{attr}` of a persistent object is re-bound on the '
                                           f'decode path outside a lazy initialisation')
            if verdict is None:
                verdict = False
                why = (f'in-place {kind} on persistent state {op["ptags"][:2]}: not a memo store, constant flag or '
                       f'lazy initialisation')
            ctx.ob(rule, key, verdict, where, desc, f'{text}  -> {why}')
            n += 1
        return n

    # ------------------------------------------------------------------ A3
    def check_escape(self, root, position=0, rule='A3'):
        ctx = self.ctx
        summ = self.prov.ret_prov(root)
        tags = summ[position] if isinstance(summ, list) else summ
        bad = [t for t in tags if P.is_persist(t) or P.is_self(t)]
        # locate an offending return for the report
        detail = f'returned object provenance: {sorted(map(str, tags))}'
        if bad:
            cfg = build_cfg(root)
            states = self.prov.states(root)
            for nd in cfg.nodes:
                if nd.kind == 'stmt' and isinstance(nd.ast, ast.Return) and states.get(nd.id) is not None:
                    v = nd.ast.value
                    e = v.elts[position] if isinstance(v, ast.Tuple) and len(v.elts) > position else v
                    t2 = self.prov.of(e, states[nd.id], root)
                    if any(P.is_persist(t) or P.is_self(t) for t in t2):
                        detail = (f'L{nd.lineno} `{short(nd.ast, 60)}` may return an object that is still stored in '
                                  f'persistent state: {sorted(map(str, [t for t in t2 if P.is_heap(t)]))[:3]}')
                        break
        ctx.ob(rule, fkey(root, rule, f'returned-object-fresh:{position}'), not bad, root.where,
               f'the object returned by {root.qualname} is created in this call (a copy), on every path: it never '
               f'aliases an instance kept in a cache', detail)
        return 1


# ---------------------------------------------------------------------- A2p: parameter containment of memo keys
MEMO_PARAM_TABLE = {
    ('adsg_core.optimization.assign_enc.lazy_encoding:LazyImputer.impute', 'matrix'):
        'the matrix is the decode of (vector, existence), both of which are in the key',
    ('adsg_core.optimization.assign_enc.lazy_encoding:LazyImputer.impute', 'tried_vectors'):
        'recursion guard of the imputation search that starts from this vector',
    ('adsg_core.optimization.assign_enc.lazy.imputation.first:LazyFirstImputer._impute', 'vector'):
        'the result is the first valid vector of the existence pattern; the input only reaches the store on '
        'the path where no variable exists',
    ('adsg_core.optimization.assign_enc.lazy.imputation.first:LazyFirstImputer._impute', 'matrix'):
        'as above: the stored matrix is the decode of the enumerated vector',
    ('adsg_core.optimization.assign_enc.lazy.imputation.first:LazyFirstImputer._impute', 'validate'):
        'closure over the existence pattern, which is in the key',
}
CONTEXT_PARAMS = {'graph': 'cache dictionaries handed down the graph algorithms are created per graph by their owner'}


def _closure_frees(fn):
    """nested def name -> names it reads from the enclosing function (free variables, transitively through other
    nested defs it calls)."""
    nested = {s.name: s for s in ast.walk(fn.node) if isinstance(s, (ast.FunctionDef, ast.AsyncFunctionDef))
              and s is not fn.node}
    out = {}
    for name, nd in nested.items():
        a = nd.args
        own = {x.arg for x in a.args + a.kwonlyargs + a.posonlyargs}
        if a.vararg:
            own.add(a.vararg.arg)
        if a.kwarg:
            own.add(a.kwarg.arg)
        nonlocal_names = {n for st in ast.walk(nd) if isinstance(st, ast.Nonlocal) for n in st.names}
        own |= {x.id for x in ast.walk(nd) if isinstance(x, ast.Name) and isinstance(x.ctx, ast.Store)} - nonlocal_names
        out[name] = {x.id for x in ast.walk(nd) if isinstance(x, ast.Name) and isinstance(x.ctx, ast.Load)
                     and x.id not in own}
    return out


def _enclosing_loop_iters(fn):
    """id(statement) -> iteration expressions of the `for` loops of fn that enclose it (which iteration's value
    survives a loop depends on what is iterated)."""
    out = {}

    def rec(body, iters):
        for st in body:
            out[id(st)] = list(iters)
            if isinstance(st, (ast.FunctionDef, ast.AsyncFunctionDef, ast.ClassDef)):
                continue
            inner = iters + [st.iter] if isinstance(st, (ast.For, ast.AsyncFor)) else iters
            for f in ('body', 'orelse', 'finalbody'):
                b = getattr(st, f, None)
                if isinstance(b, list) and b and isinstance(b[0], ast.stmt):
                    rec(b, inner if f == 'body' else iters)
            for h in getattr(st, 'handlers', []):
                rec(h.body, iters)
    if not isinstance(fn.node, ast.Lambda):
        rec(fn.node.body, [])
    return out


def _own_stmts(fn_node):
    out = []

    def rec(body):
        for st in body:
            out.append(st)
            if isinstance(st, (ast.FunctionDef, ast.AsyncFunctionDef, ast.ClassDef)):
                continue
            for f in ('body', 'orelse', 'finalbody'):
                b = getattr(st, f, None)
                if isinstance(b, list) and b and isinstance(b[0], ast.stmt):
                    rec(b)
            for h in getattr(st, 'handlers', []):
                rec(h.body)
    rec(fn_node.body)
    return out


def _param_leaves(fn, expr, at, rd, mutations=True):
    """Parameters (and other entry-defined names) the value of expr at node `at` depends on: closure of the
    reaching definitions, through the free variables of nested functions that are called, and through the
    iteration expressions of the loops that enclose a definition."""
    from ..cfg import node_exprs
    frees = _closure_frees(fn)
    loops = _enclosing_loop_iters(fn)
    deps = set()
    seen = set()

    def uses(e):
        out = set(names_used(e))
        for c in ast.walk(e):
            if isinstance(c, ast.Call) and isinstance(c.func, ast.Name) and c.func.id in frees:
                out |= frees[c.func.id]
        return out
    # in-place mutations of a local (x[k] = v, x.append(v), x[k].append(v), x.update(v)): what is put in is part of
    # what x holds afterwards (flow-insensitive over-approximation)
    muts = {}
    if mutations and not isinstance(fn.node, ast.Lambda):
        for st in _own_stmts(fn.node):
            tgt, vals = None, []
            if isinstance(st, ast.Assign) and isinstance(st.targets[0], ast.Subscript):
                tgt, vals = st.targets[0], [st.value, st.targets[0].slice]
            elif isinstance(st, ast.AugAssign) and isinstance(st.target, ast.Subscript):
                tgt, vals = st.target, [st.value, st.target.slice]
            elif isinstance(st, ast.Expr) and isinstance(st.value, ast.Call) and \
                    isinstance(st.value.func, ast.Attribute) and st.value.func.attr in MUTATORS:
                tgt, vals = st.value.func.value, list(st.value.args) + [k.value for k in st.value.keywords]
            if tgt is None:
                continue
            base = tgt
            extra = []
            while isinstance(base, (ast.Subscript, ast.Attribute)):
                if isinstance(base, ast.Subscript):
                    extra.append(base.slice)
                base = base.value
            if isinstance(base, ast.Name) and base.id not in ('self', 'cls'):
                muts.setdefault(base.id, []).append((st, vals + extra))
    mut_seen = set()
    work = [(n, at) for n in uses(expr)]
    while work:
        nm, node = work.pop()
        if nm in muts and nm not in mut_seen:
            mut_seen.add(nm)
            for st, vals in muts[nm]:
                nd = rd.cfg.node_of(st) if hasattr(rd, 'cfg') else None
                if nd is None:
                    continue
                for e in vals:
                    for n2 in uses(e):
                        work.append((n2, nd))
                for it in loops.get(id(st), []):
                    for n2 in uses(it):
                        work.append((n2, nd))
        for d in rd.defs_of(nm, node):
            if (nm, d.id) in seen:
                continue
            seen.add((nm, d.id))
            if d.kind == 'entry':
                deps.add(nm)
            else:
                for e in node_exprs(d):
                    if e is not None:
                        for n2 in uses(e):
                            work.append((n2, d))
                st = getattr(d, 'stmt', None)
                for it in loops.get(id(st), []) if st is not None else []:
                    for n2 in uses(it):
                        work.append((n2, d))
    return deps


def check_memo_functions(ctx, functions, rule='A2p'):
    """Every function that memoises its result (`if K in C: return C[K]` / `x = C.get(K)` ... `C[K] = v`) in a
    container it did not create: each parameter the stored value depends on also feeds the key (otherwise two
    calls that differ in that parameter share an entry), except the container itself, the receiver when the
    container lives on it, and tabled context parameters."""
    from ..cfg import node_exprs
    n = 0
    for fn in functions:
        if isinstance(fn.node, ast.Lambda):
            continue
        cfg = build_cfg(fn)
        rd = None
        for s in cfg.nodes:
            if not (s.kind == 'stmt' and isinstance(s.ast, ast.Assign)):
                continue
            for t in s.ast.targets:
                if not isinstance(t, ast.Subscript):
                    continue
                cont, key = norm(t.value), norm(t.slice)
                hit = False
                for nd in cfg.nodes:
                    for e in node_exprs(nd):
                        if e is None:
                            continue
                        for x in walk_no_nested(e):
                            if isinstance(x, ast.Compare) and len(x.ops) == 1 and isinstance(x.ops[0], ast.In) and \
                                    norm(x.left) == key and norm(x.comparators[0]) == cont:
                                # the hit path returns the stored value
                                # the hit path reads the stored value (returns it, or binds it and goes on)
                                for m, lab in nd.succ:
                                    if lab == 'T' and m.kind == 'stmt' and \
                                            isinstance(m.ast, (ast.Return, ast.Assign, ast.AnnAssign)) and \
                                            m.ast.value is not None and f'{cont}[{key}]' in norm(m.ast.value):
                                        hit = True
                            if isinstance(x, ast.Call) and call_name(x) == 'get' and x.args and \
                                    norm(x.args[0]) == key and isinstance(x.func, ast.Attribute) and \
                                    norm(x.func.value) == cont and \
                                    not any(y is x for y in ast.walk(s.ast.value)):
                                # (a look-up inside the stored value itself - `C[k] = C.get(k, 0) + v` - is a
                                # read-modify-write of an accumulator, not the hit test of a memo)
                                hit = True
                if not hit:
                    continue
                cdefs = [a for a in walk_fn(fn) if isinstance(a, ast.Assign) and norm(a.targets[0]) == cont]
                if cdefs and all(isinstance(a.value, (ast.Dict, ast.Set)) or
                                 (isinstance(a.value, ast.Call) and norm(a.value.func) in ('dict', 'set', 'defaultdict'))
                                 for a in cdefs):
                    continue
                rd = rd or build_rd(fn)
                kd = _param_leaves(fn, t.slice, s, rd)
                vd = _param_leaves(fn, s.ast.value, s, rd)
                croot = _param_leaves(fn, t.value, s, rd, mutations=False) | ({cont.split('.')[0]} if cont.split('.')[0] in fn.params
                                                            else set())
                missing = []
                for p in sorted(vd - kd - croot):
                    if (fn.key, p) in MEMO_PARAM_TABLE:
                        ctx.used_exception('A2p', f'{fn.qualname}:{p}', MEMO_PARAM_TABLE[(fn.key, p)])
                    elif p in CONTEXT_PARAMS:
                        ctx.used_exception('A2p', f'context:{p}', CONTEXT_PARAMS[p])
                    else:
                        missing.append(p)
                # the iteration variable of an enclosing `for` that goes straight into the memoised computation
                # identifies what is computed: it has to be part of the key as itself (a key made of things derived
                # from it need not tell two iterations apart)
                enclosing = [f_ for f_ in ast.walk(fn.node) if isinstance(f_, (ast.For, ast.AsyncFor)) and
                             any(x is s.ast for st_ in f_.body for x in ast.walk(st_))]
                lvs = {x.id for f_ in enclosing for x in ast.walk(f_.target) if isinstance(x, ast.Name)}
                vcalls = [c for c in ast.walk(s.ast.value) if isinstance(c, ast.Call)]
                direct = {a.id for c in vcalls for a in list(c.args) + [k.value for k in c.keywords]
                          if isinstance(a, ast.Name) and a.id in lvs}
                if direct:
                    key_names = set()
                    work_k = [t.slice]
                    seen_k = set()
                    while work_k:
                        e = work_k.pop()
                        for x in ast.walk(e):
                            if isinstance(x, ast.Name) and x.id not in seen_k:
                                seen_k.add(x.id)
                                key_names.add(x.id)
                                if x.id not in lvs:
                                    for d in rd.defs_of(x.id, s) if rd is not None else []:
                                        if d.kind == 'stmt' and isinstance(d.ast, ast.Assign) and \
                                                isinstance(d.ast.value, (ast.Tuple, ast.Name)):
                                            work_k.append(d.ast.value)
                    lost = sorted(direct - key_names)
                    n += 1
                    ctx.touch(fn)
                    ctx.ob(rule, fkey(fn, rule, f'{cont}[{key}]:iteration-variable-in-key'), not lost,
                           f'{fn.module.relpath}:{s.lineno}',
                           f'the iteration variable(s) {sorted(direct)} handed to the memoised computation are elements '
                           f'of the key of `{cont}`', 'present' if not lost else
                           f'{lost} is not part of the key `{key}`: two iterations with otherwise equal key parts share '
                           f'one entry although they compute different things')
                # accumulate-and-memoise loops: the stored value continues a value carried round the loop (`C[k] = g =
                # g.step(..)`) - it is determined by everything applied so far.  When the loop keeps a record of what
                # was applied (`R[i] = v` before the key is formed), the key is formed from that record: the requested
                # input alone does not say what has been applied in which order
                tnames = [t_.id for t_ in s.ast.targets if isinstance(t_, ast.Name)]
                carried_self = [nm for nm in tnames if any(isinstance(x, ast.Name) and x.id == nm
                                                           for x in ast.walk(s.ast.value))]
                loops_around = [l_ for l_ in ast.walk(fn.node) if isinstance(l_, (ast.For, ast.While)) and
                                any(x is s.ast for st_ in l_.body for x in ast.walk(st_))]
                if carried_self and loops_around:
                    lp_ = min(loops_around, key=lambda l_: sum(1 for _ in ast.walk(l_)))
                    records = set()
                    for st_ in ast.walk(lp_):
                        if isinstance(st_, ast.Assign) and isinstance(st_.targets[0], ast.Subscript) and \
                                isinstance(st_.targets[0].value, ast.Name) and st_.lineno < s.lineno and \
                                norm(st_.targets[0].value) != cont:
                            records.add(st_.targets[0].value.id)
                    # ... or in an accumulator it extends every round (`prev = prev + [...]`, `.append(...)`, `+=`)
                    accs = set()
                    for st_ in ast.walk(lp_):
                        if isinstance(st_, ast.Assign) and isinstance(st_.targets[0], ast.Name) and \
                                st_.targets[0].id not in carried_self and \
                                any(isinstance(x, ast.Name) and x.id == st_.targets[0].id for x in ast.walk(st_.value)):
                            accs.add(st_.targets[0].id)
                        elif isinstance(st_, ast.AugAssign) and isinstance(st_.target, ast.Name) and \
                                st_.target.id not in carried_self:
                            accs.add(st_.target.id)
                        elif isinstance(st_, ast.Call) and isinstance(st_.func, ast.Attribute) and \
                                st_.func.attr in ('append', 'extend') and isinstance(st_.func.value, ast.Name) and \
                                st_.func.value.id not in carried_self and norm(st_.func.value) != cont:
                            accs.add(st_.func.value.id)
                    records |= accs
                    if True:
                        knames_all = set()
                        work_k = [t.slice]
                        seen_k = set()
                        while work_k:
                            e = work_k.pop()
                            for x in ast.walk(e):
                                if isinstance(x, ast.Name) and x.id not in seen_k:
                                    seen_k.add(x.id)
                                    knames_all.add(x.id)
                                    for d in (rd or build_rd(fn)).defs_of(x.id, s):
                                        if d.kind == 'stmt' and isinstance(d.ast, ast.Assign) and \
                                                d.lineno >= lp_.lineno:
                                            work_k.append(d.ast.value)
                        okr = bool(records & knames_all)
                        n += 1
                        ctx.touch(fn)
                        ctx.ob(rule, fkey(fn, rule, f'{cont}[{key}]:key-from-decision-record'), okr,
                               f'{fn.module.relpath}:{s.lineno}',
                               f'`{carried_self[0]}` is carried round the loop and continued by the memoised step (it '
                               f'is the result of everything applied so far); the key is formed from a record of what '
                               f'the loop applied (`{"/".join(sorted(records)) or "none kept"}`)',
                               f'key <- {sorted(knames_all)}' if okr else
                               (f'the key `{key}` (<- {sorted(knames_all)}) does not read `{"/".join(sorted(records))}`: '
                                f'it identifies the request, not what has been applied so far' if records else
                                f'the key `{key}` (<- {sorted(knames_all)}) names the current step only and the loop '
                                f'keeps no record of the earlier ones: two histories that end in the same step share '
                                f'one entry'))
                # a key the function itself tests against None is a sentinel on some paths ("no index known"): all
                # calls on which it is None would share one entry, whatever they computed
                knames = [x.id for x in ast.walk(t.slice) if isinstance(x, ast.Name)]
                # ... read through the tuple the key is built as and plain aliases (`key = (a, k2)`, `k2 = i_comb`)
                rd_ = rd or build_rd(fn)
                work_n, seen_n = list(knames), set(knames)
                while work_n:
                    nm_ = work_n.pop()
                    for d in rd_.defs_of(nm_, s):
                        if d.kind == 'stmt' and isinstance(d.ast, ast.Assign) and len(d.ast.targets) == 1 and \
                                isinstance(d.ast.targets[0], ast.Name):
                            v_ = d.ast.value
                            elts_ = v_.elts if isinstance(v_, ast.Tuple) else [v_]
                            for e_ in elts_:
                                if isinstance(e_, ast.Name) and e_.id not in seen_n:
                                    seen_n.add(e_.id)
                                    knames.append(e_.id)
                                    work_n.append(e_.id)
                for kn in knames:
                    tested = any(isinstance(c, ast.Compare) and len(c.ops) == 1 and
                                 isinstance(c.ops[0], (ast.Is, ast.IsNot)) and isinstance(c.left, ast.Name) and
                                 c.left.id == kn and isinstance(c.comparators[0], ast.Constant) and
                                 c.comparators[0].value is None for c in walk_fn(fn))
                    if not tested:
                        continue
                    from . import guards as _g
                    n += 1
                    _g.check_guarded(
                        ctx, rule, fn, [s],
                        lambda atom, truth, kn=kn: isinstance(atom, ast.Compare) and len(atom.ops) == 1 and
                        isinstance(atom.left, ast.Name) and atom.left.id == kn and
                        isinstance(atom.comparators[0], ast.Constant) and atom.comparators[0].value is None and
                        ((isinstance(atom.ops[0], ast.IsNot) and truth is True) or
                         (isinstance(atom.ops[0], ast.Is) and truth is False)),
                        [kn], f'{cont}[{key}]:key-not-none:{kn}',
                        f'`{kn}` can be None in {fn.qualname} (the function tests it): an entry of `{cont}` is stored '
                        f'under it only where it is known not to be None')
                n += 1
                ctx.touch(fn)
                ctx.ob(rule, fkey(fn, rule, f'{cont}[{key}]'), not missing, f'{fn.module.relpath}:{s.lineno}',
                       f'{fn.qualname} memoises in `{cont}` under `{key}`: every parameter the stored value '
                       f'depends on feeds the key',
                       f'key <- {sorted(kd)}, value <- {sorted(vd)}' if not missing else
                       f'the stored value depends on parameter(s) {missing} that do not feed the key `{key}` '
                       f'(key <- {sorted(kd)}): calls that differ only in them share one entry')
    return n


def check_decode_memos(ctx, rule='A2p', floor=3):
    """A2p on the graph processor and the hierarchy analyzers (the memoising stores on the decode path)."""
    n = check_memo_functions(ctx, [f for f in ctx.prog.all_functions() if f.module.name.startswith(
        ('adsg_core.optimization.graph_processor', 'adsg_core.optimization.hierarchy'))], rule=rule)
    ctx.floor(rule, floor, 'memoising stores in the graph processor / hierarchy analyzers')
    return n


def check_disk_memos(ctx, functions, rule='A2d', writers=('_write_to_cache',), readers=('_load_from_cache',)):
    """Functions that keep a result on disk (`x = load(P)` ... `write(P, V)`): every parameter the written value
    depends on also feeds the path P - otherwise a call with one argument value leaves an entry that calls with
    other values (or with none) read back as theirs."""
    n = 0
    for fn in functions:
        if isinstance(fn.node, ast.Lambda):
            continue
        wcalls = [c for c in walk_fn(fn) if isinstance(c, ast.Call) and call_name(c) in writers and len(c.args) >= 2]
        if not wcalls:
            continue
        rcalls = [c for c in walk_fn(fn) if isinstance(c, ast.Call) and call_name(c) in readers and c.args]
        cfg = build_cfg(fn)
        rd = build_rd(fn)
        for c in wcalls:
            node = next((nd for nd in cfg.nodes if nd.ast is not None and nd.kind in ('stmt', 'test') and
                         any(x is c for x in ast.walk(nd.ast))), None)
            if node is None:
                continue
            kd = _param_leaves(fn, c.args[0], node, rd)
            vd = _param_leaves(fn, c.args[1], node, rd)
            recv = {fn.params[0]} if fn.params and fn.params[0] in ('self', 'cls') else set()
            missing = sorted(vd - kd - recv)
            n += 1
            ctx.touch(fn)
            ctx.ob(rule, fkey(fn, rule, f'{call_name(c)}({norm(c.args[0])})'), not missing,
                   f'{fn.module.relpath}:{c.lineno}',
                   f'{fn.qualname} stores `{norm(c.args[1])}` on disk under `{norm(c.args[0])}`'
                   f'{" and reads it back" if rcalls else ""}: every parameter the stored value depends on feeds '
                   f'the path', f'path <- {sorted(kd)}, value <- {sorted(vd)}' if not missing else
                   f'the stored value depends on parameter(s) {missing} that do not feed the path (path <- {sorted(kd)}): '
                   f'a call restricted by them leaves a partial entry that unrestricted calls read back as complete')
    return n


# ---------------------------------------------------------------------- A2r: placeholders in recursive memos
def check_provisional_memo_entries(ctx, fns, rule='A2r'):
    """A recursive function that memoises (`if k in C: return C[k]`) answers a re-entrant query for a key that is still
    being computed with whatever is stored under it.  A constant stored under the current key *before* the recursion
    (a "visited" placeholder) is therefore returned as the answer for every node on a cycle; the repository's idiom
    for cycles is a separate in-progress set.  Expected count zero; one summary obligation records the functions
    looked at."""
    from ..cfg import node_exprs
    looked = 0
    for fn in fns:
        if isinstance(fn.node, ast.Lambda):
            continue
        name = fn.node.name
        if not any(isinstance(c, ast.Call) and isinstance(c.func, ast.Name) and c.func.id == name for c in walk_fn(fn)):
            continue        # not directly recursive
        cfg = build_cfg(fn)
        # memo look-ups that return the stored value: `if K in C: return C[K]`
        memos = set()
        for nd in cfg.nodes:
            if nd.kind == 'test' and isinstance(nd.ast, ast.Compare) and len(nd.ast.ops) == 1 and \
                    isinstance(nd.ast.ops[0], ast.In):
                k, c = norm(nd.ast.left), norm(nd.ast.comparators[0])
                for m, lab in nd.succ:
                    if lab == 'T' and m.kind == 'stmt' and isinstance(m.ast, ast.Return) and \
                            m.ast.value is not None and norm(m.ast.value) == f'{c}[{k}]':
                        memos.add((c, k))
        if not memos:
            continue
        looked += 1
        ctx.touch(fn)
        rec_calls = [nd for nd in cfg.nodes if any(
            e is not None and any(isinstance(c, ast.Call) and isinstance(c.func, ast.Name) and c.func.id == name
                                  for c in walk_no_nested(e)) for e in node_exprs(nd))]
        for nd in cfg.nodes:
            if not (nd.kind == 'stmt' and isinstance(nd.ast, ast.Assign) and len(nd.ast.targets) == 1 and
                    isinstance(nd.ast.targets[0], ast.Subscript) and isinstance(nd.ast.value, ast.Constant)):
                continue
            t = nd.ast.targets[0]
            if (norm(t.value), norm(t.slice)) not in memos:
                continue
            if any(cfg.can_reach(nd, rc) for rc in rec_calls if rc is not nd):
                ctx.ob(rule, fkey(fn, rule, f'provisional-memo-entry:{norm(t.value)}[{norm(t.slice)}]'), False,
                       f'{fn.module.relpath}:{nd.lineno}',
                       f'{fn.qualname} memoises in `{norm(t.value)}` and returns stored entries as answers: an entry is '
                       f'stored only once the answer is known',
                       f'`{short(nd.ast, 60)}` is stored before the recursion continues: a re-entrant query for the '
                       f'same key (a derivation cycle) gets the placeholder as its answer')
    ctx.ob(rule, f'{rule}:recursive-memos-store-answers-only', True, 'adsg_core/graph',
           'recursive memoised functions store an entry only once the answer is known',
           f'{looked} recursive memoised function(s) examined')
    return looked
