"""A5 GUARD-DOM - must-pass-through / guard dominance on the statement CFG.

`check_guarded`  : every path from the function entry - or from the last (re)definition of the guarded
                   names - to a sink passes an edge on which the wanted fact is known to hold.
`check_passes`   : every path from entry to a sink passes through one of the given nodes.
Both report the offending path.
"""
import ast

from ..model import AnalysisError, norm, walk_no_nested
from ..cfg import build_cfg, node_defs, node_exprs, implied_facts, flag_partitioned_reach
from ..astutil import short, call_name
from ..report import fkey


def nodes_with(cfg, pred):
    """CFG nodes one of whose evaluated expressions contains a sub-expression satisfying pred."""
    out = []
    for n in cfg.nodes:
        for e in node_exprs(n):
            if e is None:
                continue
            if any(pred(sub) for sub in walk_no_nested(e, include_lambda_bodies=True)):
                out.append(n)
                break
    return out


def call_nodes(cfg, name=None, pred=None):
    def p(sub):
        if not isinstance(sub, ast.Call):
            return False
        if name is not None and call_name(sub) != name:
            return False
        return pred(sub) if pred is not None else True
    return nodes_with(cfg, p)


def return_nodes(cfg, pred=None):
    return [n for n in cfg.nodes if n.kind == 'stmt' and isinstance(n.ast, ast.Return) and
            (pred is None or pred(n.ast))]


def path_text(path, limit=8):
    if not path:
        return ''
    items = [f'L{n.lineno}:{short(n.ast, 40)}' if n.ast is not None else n.kind for n in path]
    if len(items) > limit:
        items = items[:limit // 2] + ['...'] + items[-limit // 2:]
    return ' -> '.join(items)


def check_guarded(ctx, rule, fn, sinks, guard_pred, kill_names, keytext, desc, extra_sources=()):
    """Obligation per sink: unreachable from {entry} U {definitions of kill_names} once the edges implying
    the guard fact are removed."""
    cfg = build_cfg(fn)
    ctx.touch(fn)
    guard_edges = cfg.edges_implying(guard_pred)
    kills = [n for n in cfg.nodes if set(node_defs(n)) & set(kill_names)]
    live = cfg.reachable([cfg.entry])
    sources = [cfg.entry] + [k for k in kills if k.id in live] + list(extra_sources)
    ok_all = True
    if not sinks:
        raise AnalysisError(f'{rule} {fn.key}: no sink found for "{keytext}" (anchor vanished)')
    for i, s in enumerate(sinks):
        if s.id not in live:
            continue
        # successors of kill nodes are the start points (the kill node itself may be the sink's own statement)
        starts = [cfg.entry]
        for k in sources[1:]:
            starts += [m for m, lab in k.succ if (k.id, m.id, lab) not in guard_edges]
        reach = cfg.reachable(starts, blocked_edges=guard_edges)
        bad = s.id in reach and not (s in kills and False)
        detail = f'{len(guard_edges)} guard edge(s); sink L{s.lineno}: {short(s.ast, 60)}'
        if bad:
            for st in starts:
                p = cfg.find_path(st, s, blocked_edges=guard_edges)
                if p:
                    detail = f'unguarded path: {path_text(p)}'
                    break
        suffix = f'#{i}' if len(sinks) > 1 else ''
        ok_all &= ctx.ob(rule, fkey(fn, rule, keytext + suffix), not bad, f'{fn.module.relpath}:{s.lineno}', desc,
                         detail)
    return ok_all


def check_passes(ctx, rule, fn, sinks, through, keytext, desc, from_nodes=None, exc_paths=False):
    """Every path from entry (or from_nodes) to each sink passes one of the `through` nodes."""
    cfg = build_cfg(fn)
    ctx.touch(fn)
    if not sinks:
        raise AnalysisError(f'{rule} {fn.key}: no sink found for "{keytext}" (anchor vanished)')
    live = cfg.reachable([cfg.entry])
    starts = from_nodes or [cfg.entry]
    excl = () if exc_paths else ('exc',)
    ok_all = True
    for i, s in enumerate(sinks):
        if s.id not in live:
            continue
        if s in through:
            continue
        reach = cfg.reachable(starts, blocked_nodes=through, labels_excluded=excl)
        bad = s.id in reach
        detail = f'{len(through)} pass-through node(s): ' + ', '.join(f'L{t.lineno}' for t in through[:6])
        if not through:
            detail = 'the required pass-through statement does not exist in the function'
        if bad:
            for st in starts:
                p = cfg.find_path(st, s, blocked_nodes=through, labels_excluded=excl)
                if p:
                    detail = f'path avoiding it: {path_text(p)}' + ('' if through else ' (required statement absent)')
                    break
        suffix = f'#{i}' if len(sinks) > 1 else ''
        ok_all &= ctx.ob(rule, fkey(fn, rule, keytext + suffix), not bad, f'{fn.module.relpath}:{s.lineno}', desc,
                         detail)
    return ok_all


def fact(pred_expr, truth):
    """Guard predicate factory: atom satisfies pred_expr and has the given truth value."""
    def g(atom, t):
        return t == truth and pred_expr(atom)
    return g


def compare_fact(name_pred, op_types, const_pred, truth_when_op):
    """Facts of the form  <name> <op> <const>.  truth_when_op maps op type -> truth value that makes the
    wanted fact hold (e.g. want 'x != -1': {Eq: False, NotEq: True})."""
    def g(atom, t):
        if not isinstance(atom, ast.Compare) or len(atom.ops) != 1:
            return False
        l, op, r = atom.left, atom.ops[0], atom.comparators[0]
        if not name_pred(l) and name_pred(r):
            l, r = r, l
        if not name_pred(l) or not const_pred(r):
            return False
        for ot, tv in truth_when_op.items():
            if isinstance(op, ot):
                return t == tv
        return False
    return g


def is_minus_one(e):
    return isinstance(e, ast.UnaryOp) and isinstance(e.op, ast.USub) and isinstance(e.operand, ast.Constant) and \
        e.operand.value == 1


# ---------------------------------------------------------------------- A5e: a modification is applied unless empty
def check_applied_unless_empty(ctx, fns, apply_name='get_for_adjusted', rule='A5e'):
    """`if <test over the containers>: g = g.get_for_adjusted(removed_x=X, ...)`: a computed modification may be
    skipped only when every container handed to the derive operation is empty.  The test is evaluated over all
    combinations of container sizes 0..2: whenever some container is non-empty it has to hold."""
    import itertools
    from . import intcmp
    n = 0
    for fn in fns:
        for node in ast.walk(fn.node):
            if not isinstance(node, ast.If) or node.orelse:
                continue
            applies = [c for s in node.body for c in ast.walk(s)
                       if isinstance(c, ast.Call) and isinstance(c.func, ast.Attribute) and c.func.attr == apply_name]
            if len(applies) != 1:
                continue
            passed = [norm(kw.value) for kw in applies[0].keywords if isinstance(kw.value, ast.Name)]
            tested = {x.id for x in ast.walk(node.test) if isinstance(x, ast.Name)} - {'len'}
            if not passed or not tested or not tested <= set(passed):
                continue        # the guard is about something else than the emptiness of what is applied
            names = sorted(tested)
            bad = None
            try:
                for sizes in itertools.product((0, 1, 2), repeat=len(names)):
                    if not any(sizes):
                        continue
                    env = {f'len({nm})': sz for nm, sz in zip(names, sizes)}
                    envb = dict(env)
                    envb.update({nm: (1 if sz else 0) for nm, sz in zip(names, sizes)})   # truthiness of a container
                    if not intcmp.holds(node.test, lambda e: False, None, envb):
                        bad = dict(zip(names, sizes))
                        break
            except intcmp.NotSimple as e:
                raise AnalysisError(f'{fn.key}: guard of {apply_name} not understood: {norm(node.test)} ({e})')
            n += 1
            ctx.touch(fn)
            ctx.ob(rule, fkey(fn, rule, f'applied-unless-empty:{",".join(names)}'), bad is None,
                   f'{fn.module.relpath}:{node.lineno}',
                   f'the computed modification ({", ".join(names)}) is applied to the graph whenever it is not empty',
                   f'`if {norm(node.test)}` holds for every non-empty combination' if bad is None else
                   f'`if {norm(node.test)}` skips the modification for sizes {bad}: these nodes/edges stay in the graph')
    return n


# ---------------------------------------------------------------------- A5w: every iteration contributes
def check_loop_contributes(ctx, rule, fn, iter_pred, contribute_pred, exempt_pred, keytext, desc):
    """In the `for` loop of fn whose iterable satisfies iter_pred, every path through one iteration (body start
    back to the loop head) passes a statement satisfying contribute_pred - except along edges on which a fact
    (atom, truth) with exempt_pred holds (iterations that have nothing to contribute), and exceptional exits."""
    cfg = build_cfg(fn)
    ctx.touch(fn)
    heads = [n for n in cfg.nodes if n.kind == 'for' and iter_pred(n.ast.iter)]
    if len(heads) != 1:
        raise AnalysisError(f'{rule} {fn.key}: expected one loop for "{keytext}", found {len(heads)}')
    head = heads[0]
    through = nodes_with(cfg, contribute_pred)
    exempt = cfg.edges_implying(exempt_pred)
    starts = [m for m, lab in head.succ if lab == 'T']
    reach = cfg.reachable(starts, blocked_nodes=through, blocked_edges=exempt, labels_excluded=('exc',))
    bad = head.id in reach
    detail = f'{len(through)} contributing statement(s), {len(exempt)} exempting edge(s)'
    if bad:
        for st in starts:
            p = cfg.find_path(st, head, blocked_nodes=through, blocked_edges=exempt, labels_excluded=('exc',))
            if p:
                detail = f'iteration without contribution: {path_text(p)}'
                break
    return ctx.ob(rule, fkey(fn, rule, keytext), not bad, f'{fn.module.relpath}:{head.lineno}', desc, detail)


# ---------------------------------------------------------------------- A5acc: removal accumulators are threaded
ACC_TABLE = {
    ('adsg_core.graph.traversal:get_derived_edges_for_node', 'removed_edges'):
        'the recursion passes removed_edges | derived_edges computed before the loop; edges found for earlier '
        'siblings are not fed back (existing behaviour, not decided here)',
}


def check_accumulators_threaded(ctx, fns, callees=('get_derived_edges_for_node', 'get_derived_edges_for_edge'),
                                rule='A5acc', subsumed=()):
    """Whether a node is derived *only* by the node being removed depends on what has been removed already.  Where the
    results of get_derived_edges_for_* are accumulated in a loop (`R_e |= derived_edges`, `R_n |= derived_nodes`),
    the call hands the accumulators back in as removed_edges= / removed_nodes= - otherwise a node jointly derived
    by two removed nodes is kept."""
    n = 0
    for fn in fns:
        if isinstance(fn.node, ast.Lambda):
            continue
        if fn.key in subsumed:
            # what this loop removes is a subset of what another, established clause removes anyway (the caller says
            # which): threading the accumulators is not needed for the property at this site
            ctx.note(f'A5acc not required in {fn.qualname}: {subsumed[fn.key]}')
            continue
        for loop in [x for x in ast.walk(fn.node) if isinstance(x, (ast.For, ast.While))]:
            body_stmts = [s for st in loop.body for s in ast.walk(st) if isinstance(s, ast.stmt)]
            for st in body_stmts:
                if not (isinstance(st, ast.Assign) and isinstance(st.value, ast.Call) and
                        call_name(st.value) in callees and isinstance(st.targets[0], ast.Tuple) and
                        len(st.targets[0].elts) == 2 and all(isinstance(e, ast.Name) for e in st.targets[0].elts)):
                    continue
                # innermost loop only
                inner = [l for l in ast.walk(loop) if isinstance(l, (ast.For, ast.While)) and l is not loop and
                         any(s is st for s in ast.walk(l))]
                if inner:
                    continue
                call = st.value
                res = [e.id for e in st.targets[0].elts]
                kws = {k.arg: k.value for k in call.keywords if k.arg}
                for r, kwname in zip(res, ('removed_edges', 'removed_nodes')):
                    accs = [a for a in body_stmts if isinstance(a, ast.AugAssign) and isinstance(a.op, ast.BitOr) and
                            isinstance(a.target, ast.Name) and
                            any(isinstance(x, ast.Name) and x.id == r for x in ast.walk(a.value))]
                    accs += [a for a in body_stmts if isinstance(a, ast.Expr) and isinstance(a.value, ast.Call) and
                             call_name(a.value) == 'update' and isinstance(a.value.func.value, ast.Name) and
                             any(isinstance(x, ast.Name) and x.id == r for y in a.value.args for x in ast.walk(y))]
                    if not accs:
                        continue
                    names = {a.target.id if isinstance(a, ast.AugAssign) else a.value.func.value.id for a in accs}
                    passed = kws.get(kwname)
                    ok = passed is not None and any(isinstance(x, ast.Name) and x.id in names for x in ast.walk(passed))
                    if not ok and (fn.key, kwname) in ACC_TABLE:
                        ctx.used_exception(rule, f'{fn.key}:{kwname}', ACC_TABLE[(fn.key, kwname)])
                        continue
                    n += 1
                    ctx.touch(fn)
                    ctx.ob(rule, fkey(fn, rule, f'{call_name(call)}:{kwname}<-{"/".join(sorted(names))}'), ok,
                           f'{fn.module.relpath}:{call.lineno}',
                           f'the derived-only computation is told what this loop has removed so far: {kwname}= receives '
                           f'the accumulator `{"/".join(sorted(names))}`',
                           f'{kwname}={norm(passed)}' if passed is not None else
                           f'{kwname}= is not passed: every iteration decides derived-only against the untouched graph')
    return n


def none_fact(name, is_none=True):
    """Guard predicate: the fact `<name> is None` (is_none=True) or `<name> is not None`, whichever way the test is
    written (`x is None` true / `x is not None` false / `x == None` ...)."""
    def g(atom, truth):
        if not (isinstance(atom, ast.Compare) and len(atom.ops) == 1 and norm(atom.left) == name and
                isinstance(atom.comparators[0], ast.Constant) and atom.comparators[0].value is None):
            return False
        op = atom.ops[0]
        if isinstance(op, (ast.Is, ast.Eq)):
            return truth is is_none
        if isinstance(op, (ast.IsNot, ast.NotEq)):
            return truth is (not is_none)
        return False
    return g


# ---------------------------------------------------------------------- A28: in-place updates that nothing reads
def check_dead_inplace_updates(ctx, fns, rule='A28'):
    """`X[i] -= 1` on a local array X is bookkeeping for something that is read later (a loop test, a selection, the
    result).  If no read of X is reachable from the update - element stores and further in-place updates of X do not
    count as reads - the update has no effect: the quantity the surrounding repair / counting loop actually tests is
    not the one being maintained (typically a neighbouring array with a similar name)."""
    from ..cfg import node_exprs
    from .common import walk_fn
    n = 0
    for fn in fns:
        if isinstance(fn.node, ast.Lambda):
            continue
        cfg = None
        for a in walk_fn(fn):
            if not (isinstance(a, ast.AugAssign) and isinstance(a.target, ast.Subscript) and
                    isinstance(a.target.value, ast.Name)):
                continue
            x_ = a.target.value.id
            if x_ in fn.params or not any(
                    isinstance(b, (ast.Assign, ast.AnnAssign)) and any(
                        isinstance(t, ast.Name) and t.id == x_
                        for t in (b.targets if isinstance(b, ast.Assign) else [b.target])) for b in walk_fn(fn)):
                continue
            cfg = cfg or build_cfg(fn)
            node = cfg.node_of(a)
            if node is None:
                continue
            # loads of X that are only the base of an element store / in-place element update are not reads
            store_bases = set()
            for b in walk_fn(fn):
                tgts = b.targets if isinstance(b, ast.Assign) else ([b.target] if isinstance(b, (ast.AugAssign, ast.AnnAssign))
                                                                    else (b.targets if isinstance(b, ast.Delete) else []))
                for t in tgts:
                    for s_ in ast.walk(t):
                        if isinstance(s_, ast.Subscript) and isinstance(s_.value, ast.Name) and s_.value.id == x_:
                            store_bases.add(id(s_.value))
            reach = cfg.reachable([m for m, _ in node.succ])
            read = False
            for nd in cfg.nodes:
                if nd.id not in reach or nd.ast is None:
                    continue
                for e in node_exprs(nd):
                    if e is None:
                        continue
                    for y in ast.walk(e):
                        if isinstance(y, ast.Name) and y.id == x_ and isinstance(y.ctx, ast.Load) and \
                                id(y) not in store_bases:
                            read = True
            n += 1
            ctx.touch(fn)
            ctx.ob(rule, fkey(fn, rule, f'update-is-read:{norm(a.target)}'), read, f'{fn.module.relpath}:{a.lineno}',
                   f'the in-place update of `{x_}` is read by something afterwards (a test, a selection, the result)',
                   short(a) if read else f'`{short(a)}`: nothing reads `{x_}` after this statement - the loop around it '
                                         f'tests / selects on another array, which is therefore never updated')
    return n


# ---------------------------------------------------------------------- A29: stale loop variables
def check_stale_loop_variables(ctx, fns, rule='A29'):
    """A name that is bound only inside one loop (its target, or an assignment in its body) and read inside a *later*
    loop of the same block holds whatever the last iteration of the first loop left - the later loop has its own
    iteration variable for that role (copy/paste slip: `deriving_node` read where `option_decision_node` is meant).
    The search idiom (`for ..: if ..: found = x; break` followed by a use of `found`) is not this: a loop with a
    `break` of its own is left alone.  One obligation per pair of consecutive loops that share such a name; a summary
    obligation records how many loop pairs were looked at."""
    pairs = 0
    for fn in fns:
        if isinstance(fn.node, ast.Lambda):
            continue

        def own_break(lp):
            def rec(stmts):
                for st in stmts:
                    if isinstance(st, ast.Break):
                        return True
                    if isinstance(st, (ast.For, ast.While, ast.FunctionDef, ast.AsyncFunctionDef, ast.ClassDef)):
                        continue
                    for f_ in ('body', 'orelse', 'finalbody'):
                        if isinstance(getattr(st, f_, None), list) and rec(getattr(st, f_)):
                            return True
                    if isinstance(st, ast.Try) and any(rec(h.body) for h in st.handlers):
                        return True
                return False
            return rec(lp.body)

        def scan(stmts):
            nonlocal pairs
            for i, st in enumerate(stmts):
                if isinstance(st, ast.For) and not own_break(st):
                    inner = {id(x) for x in ast.walk(st)}
                    bound = {x.id for x in ast.walk(st) if isinstance(x, ast.Name) and isinstance(x.ctx, ast.Store)}
                    elsewhere = {x.id for x in ast.walk(fn.node) if id(x) not in inner and isinstance(x, ast.Name) and
                                 isinstance(x.ctx, ast.Store)} | set(fn.params)
                    only_here = bound - elsewhere
                    for later in stmts[i + 1:]:
                        if not isinstance(later, (ast.For, ast.While)):
                            continue
                        pairs += 1
                        ctx.touch(fn)
                        for x in ast.walk(later):
                            if isinstance(x, ast.Name) and isinstance(x.ctx, ast.Load) and x.id in only_here:
                                ctx.ob(rule, fkey(fn, rule, f'stale-loop-variable:{x.id}'), False,
                                       f'{fn.module.relpath}:{x.lineno}',
                                       f'`{x.id}` is bound only inside the loop at L{st.lineno} (which runs to '
                                       f'completion); a later loop reads the value its last iteration left',
                                       f'read at L{x.lineno} inside the loop at L{later.lineno}')
                                only_here = only_here - {x.id}
                for f_ in ('body', 'orelse', 'finalbody'):
                    if isinstance(getattr(st, f_, None), list) and not isinstance(st, (ast.FunctionDef, ast.ClassDef)):
                        scan(getattr(st, f_))
                if isinstance(st, ast.Try):
                    for h in st.handlers:
                        scan(h.body)
        scan(fn.node.body)
    ctx.ob(rule, f'{rule}:consecutive-loops-share-no-stale-name', True, 'adsg_core/graph',
           'no loop reads a name that only an earlier, completed loop of the same block binds',
           f'{pairs} pairs of consecutive loops examined')
    return pairs


# ---------------------------------------------------------------------- A10z: division where the function tests for zero
def check_zero_tested_divisions(ctx, fns, rule='A10z'):
    """Contradiction rule: a function that tests a value against zero (`if n == 0: return ...`) believes it can be zero;
    every division by that value in the same function then lies behind the test (is reached only over an edge on
    which the value is known to be non-zero).  A division placed in front of the test raises ZeroDivisionError on
    exactly the inputs the test was written for."""
    from .common import walk_fn
    n = 0
    for fn in fns:
        if isinstance(fn.node, ast.Lambda):
            continue
        divs = {}
        for x in walk_fn(fn):
            if isinstance(x, ast.BinOp) and isinstance(x.op, (ast.Div, ast.FloorDiv, ast.Mod)) and \
                    isinstance(x.right, ast.Name):
                divs.setdefault(x.right.id, []).append(x)
        if not divs:
            continue
        tested = set()
        for c in walk_fn(fn):
            if isinstance(c, ast.Compare) and len(c.ops) == 1 and isinstance(c.ops[0], (ast.Eq, ast.NotEq, ast.Gt, ast.LtE)):
                l, r = c.left, c.comparators[0]
                if isinstance(r, ast.Name) and isinstance(l, ast.Constant):
                    l, r = r, l
                if isinstance(l, ast.Name) and isinstance(r, ast.Constant) and r.value == 0 and \
                        not isinstance(r.value, bool) and l.id in divs:
                    tested.add(l.id)
        if not tested:
            continue
        cfg = build_cfg(fn)
        for d in sorted(tested):
            def nonzero(atom, truth, d=d):
                if not (isinstance(atom, ast.Compare) and len(atom.ops) == 1):
                    return False
                l, r, op = atom.left, atom.comparators[0], atom.ops[0]
                if isinstance(r, ast.Name) and isinstance(l, ast.Constant):
                    l, r = r, l
                    op = {ast.Gt: ast.Lt, ast.Lt: ast.Gt, ast.GtE: ast.LtE, ast.LtE: ast.GtE}.get(type(op), type(op))()
                if not (isinstance(l, ast.Name) and l.id == d and isinstance(r, ast.Constant) and r.value == 0):
                    return False
                if isinstance(op, ast.Eq):
                    return truth is False
                if isinstance(op, (ast.NotEq, ast.Gt, ast.Lt)):
                    return truth is True
                if isinstance(op, (ast.LtE, ast.GtE)):
                    return False if isinstance(op, ast.GtE) else truth is False
                return False
            # a division guarded inside its own expression (`a / d if d > 0 else 1.`) is behind the test already
            parents = {}
            for p_ in ast.walk(fn.node):
                for ch in ast.iter_child_nodes(p_):
                    parents[id(ch)] = p_

            def expr_guarded(dv):
                node = dv
                while id(node) in parents:
                    par = parents[id(node)]
                    if isinstance(par, ast.IfExp) and node is not par.test:
                        if (node is par.body and nonzero(par.test, True)) or \
                                (node is par.orelse and nonzero(par.test, False)):
                            return True
                    if isinstance(par, ast.BoolOp) and isinstance(par.op, ast.And):
                        i_ = next((k for k, v_ in enumerate(par.values) if v_ is node), 0)
                        if any(nonzero(v_, True) for v_ in par.values[:i_]):
                            return True
                    if isinstance(par, ast.stmt):
                        break
                    node = par
                return False
            open_divs = [dv for dv in divs[d] if not expr_guarded(dv)]
            sinks = [nd for nd in cfg.nodes if any(e is not None and any(x is dv for dv in open_divs for x in ast.walk(e))
                                                   for e in node_exprs(nd))]
            if not sinks:
                continue
            n += len(sinks)
            check_guarded(ctx, rule, fn, sinks, nonzero, {d}, f'division-behind-zero-test:{d}',
                          f'{fn.qualname} tests `{d}` against zero, so it can be zero: a division by `{d}` is reached '
                          f'only where the test has excluded that')
    return n
