"""A10 CRASH-SHAPE - shapes of implicit crashes on a call-graph slice:
 (a) a function whose result is destructured into n names returns an n-tuple on every path;
 (b) a name that may still hold its `None` initialiser is dereferenced without a None test.
"""
import ast

from ..model import norm, walk_no_nested, AnalysisError
from ..cfg import (build_cfg, build_rd, node_defs, node_exprs, implied_facts, explore, INFEASIBLE,
                   nonempty_loops)
from ..astutil import short, parent_map
from ..report import fkey
from .guards import path_text


# ------------------------------------------------------------------ (a) return arity

def _return_shapes(ctx, fn):
    """list of (return node, arity or None when unknown, 'tuple'|'none'|'scalar'|'unknown')."""
    out = []
    root = ast.Module(body=list(fn.body), type_ignores=[])
    is_gen = any(isinstance(s, (ast.Yield, ast.YieldFrom)) for s in walk_no_nested(root))
    if is_gen:
        return None
    for sub in walk_no_nested(root):
        if not isinstance(sub, ast.Return):
            continue
        v = sub.value
        if v is None or (isinstance(v, ast.Constant) and v.value is None):
            out.append((sub, 0, 'none'))
        elif isinstance(v, ast.Tuple) and not any(isinstance(e, ast.Starred) for e in v.elts):
            out.append((sub, len(v.elts), 'tuple'))
        else:
            ts = ctx.types.of(v, fn)
            kinds = {t[0] for t in ts}
            if kinds and kinds <= {'cls'}:
                # a repository class instance: iterable only if it defines __iter__
                classes = [t[1] for t in ts]
                if not any(ctx.prog.find_method(c, '__iter__') for c in classes) and \
                        not any(ctx.prog.ext_base_names(c) for c in classes):
                    out.append((sub, 1, 'scalar'))
                    continue
            tup = [t for t in ts if t[0] == 'tuple']
            if tup and len(ts) == 1:
                out.append((sub, len(tup[0][1]), 'tuple'))
                continue
            if isinstance(v, ast.Constant) and isinstance(v.value, (int, float, bool)):
                out.append((sub, 1, 'scalar'))
                continue
            out.append((sub, None, 'unknown'))
    return out


def check_return_arity(ctx, functions, rule='A10a'):
    """For every direct destructuring `a, b, .. = f(..)` in `functions` with resolved repository callees."""
    n = 0
    for fn in functions:
        root = ast.Module(body=list(fn.body), type_ignores=[])
        for sub in walk_no_nested(root):
            if not isinstance(sub, ast.Assign) or not isinstance(sub.value, ast.Call):
                continue
            tgt = sub.targets[0]
            if len(sub.targets) != 1 or not isinstance(tgt, (ast.Tuple, ast.List)) or \
                    any(isinstance(e, ast.Starred) for e in tgt.elts):
                continue
            arity = len(tgt.elts)
            site = None
            for s in ctx.cg.sites(fn):
                if s.node is sub.value:
                    site = s
            if site is None or site.tag not in ('exact', 'typed', 'closure') or not site.targets:
                continue
            for callee in site.targets:
                shapes = _return_shapes(ctx, callee)
                if shapes is None or not shapes:
                    continue
                if callee.is_property:
                    continue
                n += 1
                ctx.touch(callee)
                bad = [(r, a, k) for (r, a, k) in shapes if k != 'unknown' and a != arity]
                # a function with only `raise NotImplementedError`/pass bodies is abstract
                detail = f'{len(shapes)} return statement(s), all {arity}-tuples or of unknown shape'
                if bad:
                    r, a, k = bad[0]
                    detail = (f'L{r.lineno}: `{short(r, 60)}` returns a {k} (arity {a}) but '
                              f'{fn.qualname} L{sub.lineno} unpacks {arity} values: `{short(sub, 70)}`')
                ctx.ob(rule, fkey(callee, rule, f'unpacked-by:{fn.qualname}:{short(tgt, 50)}'), not bad,
                       f'{callee.module.relpath}:{(bad[0][0] if bad else callee.node).lineno}',
                       f'every return of {callee.qualname} yields {arity} values (its result is destructured)',
                       detail)
    return n


# ------------------------------------------------------------------ (b) None dereference

def _bool_flags(fn, cfg):
    """Names tested as bare `if f:` / `if not f:` that are parameters or only assigned bool constants."""
    tested = set()
    for n in cfg.nodes:
        if n.kind == 'test':
            for atom, _ in implied_facts(n.ast, True) + implied_facts(n.ast, False):
                if isinstance(atom, ast.Name):
                    tested.add(atom.id)
    flags = []
    for name in tested:
        ok = True
        for n in cfg.nodes:
            if name in node_defs(n):
                a = n.ast
                if not (n.kind == 'stmt' and isinstance(a, ast.Assign) and isinstance(a.value, ast.Constant)
                        and isinstance(a.value.value, bool)):
                    ok = False
        if ok:
            flags.append(name)
    return flags


def _not_none_fact(name):
    def g(atom, truth):
        # `name is None` false ; `name is not None` true ; bare `name` true
        if isinstance(atom, ast.Name) and atom.id == name:
            return truth is True
        if isinstance(atom, ast.Compare) and len(atom.ops) == 1 and isinstance(atom.left, ast.Name) and \
                atom.left.id == name and isinstance(atom.comparators[0], ast.Constant) and \
                atom.comparators[0].value is None:
            if isinstance(atom.ops[0], (ast.Is, ast.Eq)):
                return truth is False
            if isinstance(atom.ops[0], (ast.IsNot, ast.NotEq)):
                return truth is True
        # isinstance(name, X) true
        if isinstance(atom, ast.Call) and isinstance(atom.func, ast.Name) and atom.func.id == 'isinstance' and \
                atom.args and isinstance(atom.args[0], ast.Name) and atom.args[0].id == name:
            return truth is True
        return False
    return g


def _derefs(node, name):
    """Sub-expressions of the CFG node that dereference `name` (attribute / subscript / call / iteration)."""
    out = []
    exprs = node_exprs(node)
    for e in exprs:
        if e is None:
            continue
        for sub in walk_no_nested(e, include_lambda_bodies=False):
            if isinstance(sub, ast.Attribute) and isinstance(sub.value, ast.Name) and sub.value.id == name and \
                    isinstance(sub.ctx, ast.Load):
                out.append(sub)
            elif isinstance(sub, ast.Subscript) and isinstance(sub.value, ast.Name) and sub.value.id == name and \
                    isinstance(sub.ctx, ast.Load):
                out.append(sub)
            elif isinstance(sub, ast.Call) and isinstance(sub.func, ast.Name) and sub.func.id == name:
                out.append(sub)
    if node.kind == 'for' and isinstance(node.ast.iter, ast.Name) and node.ast.iter.id == name:
        out.append(node.ast.iter)
    # store through subscript:  name[i] = ...
    if node.kind == 'stmt' and isinstance(node.ast, (ast.Assign, ast.AugAssign)):
        tgts = node.ast.targets if isinstance(node.ast, ast.Assign) else [node.ast.target]
        for t in tgts:
            if isinstance(t, ast.Subscript) and isinstance(t.value, ast.Name) and t.value.id == name:
                out.append(t)
    return out


def _short_circuit_guarded(fn, deref, name):
    """`name is not None and name.x` / `name is None or not name.x` / IfExp guards inside one expression."""
    pm = parent_map(fn)
    g = _not_none_fact(name)
    child = deref
    p = pm.get(id(child))
    while p is not None and not isinstance(p, ast.stmt):
        if isinstance(p, ast.BoolOp):
            idx = next((i for i, v in enumerate(p.values) if v is child), None)
            if idx:
                for prev in p.values[:idx]:
                    want = isinstance(p.op, ast.And)
                    for atom, truth in implied_facts(prev, want):
                        if g(atom, truth):
                            return True
        if isinstance(p, ast.IfExp):
            if child is p.body:
                for atom, truth in implied_facts(p.test, True):
                    if g(atom, truth):
                        return True
            if child is p.orelse:
                for atom, truth in implied_facts(p.test, False):
                    if g(atom, truth):
                        return True
        if isinstance(p, ast.comprehension):
            pass
        child = p
        p = pm.get(id(child))
    return False


def check_none_deref(ctx, functions, rule='A10b'):
    """Single path-sensitive exploration per (function, name): state = (values of boolean flags, loops known
    to be non-empty that were entered, `name` may still be None)."""
    n = 0
    for fn in functions:
        if isinstance(fn.node, ast.Lambda):
            continue
        cfg = build_cfg(fn)
        none_defs = {}
        for nd in cfg.nodes:
            a = nd.ast
            if nd.kind == 'stmt' and isinstance(a, ast.Assign) and isinstance(a.value, ast.Constant) and \
                    a.value.value is None:
                for t in a.targets:
                    if isinstance(t, ast.Name):
                        none_defs.setdefault(t.id, set()).add(nd.id)
        if not none_defs:
            continue
        flags = _bool_flags(fn, cfg)
        nonempty = nonempty_loops(cfg)
        flag_facts = {}
        for t in cfg.nodes:
            if t.kind == 'test':
                for lab in ('T', 'F'):
                    flag_facts[(t.id, lab)] = [(atom.id, truth) for atom, truth in implied_facts(t.ast, lab == 'T')
                                               if isinstance(atom, ast.Name) and atom.id in flags]
        for name, def_ids in none_defs.items():
            deref_nodes = {}
            for nd in cfg.nodes:
                ds = [d for d in _derefs(nd, name) if not _short_circuit_guarded(fn, d, name)]
                if ds:
                    deref_nodes[nd.id] = ds
            if not deref_nodes:
                continue
            guard_edges = cfg.edges_implying(_not_none_fact(name))
            none_edges = cfg.edges_implying(lambda atom, truth: _not_none_fact(name)(atom, not truth)
                                            if not isinstance(atom, ast.Call) else False)
            kill_ids = {k.id for k in cfg.nodes if name in node_defs(k) and k.id not in def_ids}

            def step(a, b, lab, st):
                fl, entered, maynone = st
                # effect of node a itself
                if a.id in def_ids:
                    maynone = True
                elif a.id in kill_ids:
                    maynone = False
                if flags:
                    defs_a = node_defs(a)
                    if defs_a:
                        fl = dict(fl)
                        for f_ in flags:
                            if f_ in defs_a:
                                av = a.ast
                                fl[f_] = av.value.value if (a.kind == 'stmt' and isinstance(av, ast.Assign) and
                                                            isinstance(av.value, ast.Constant)) else None
                        fl = tuple(sorted(fl.items()))
                # effect of the edge
                if a.kind == 'test' and lab in ('T', 'F'):
                    ff = flag_facts.get((a.id, lab), ())
                    if ff:
                        d = dict(fl)
                        for f_, truth in ff:
                            if d.get(f_) is not None and d.get(f_) != truth:
                                return INFEASIBLE
                            d[f_] = truth
                        fl = tuple(sorted(d.items()))
                    if (a.id, b.id, lab) in guard_edges:
                        maynone = False
                if a.kind == 'for' and a.id in nonempty:
                    if lab == 'T':
                        entered = entered | {a.id}
                    elif lab == 'F' and a.id not in entered:
                        return INFEASIBLE
                return (fl, entered, maynone)

            init = (tuple(sorted((f_, None) for f_ in flags)), frozenset(), False)
            seen = explore(cfg, [(cfg.entry, init)], step, labels_excluded=('exc',))
            reach_maynone = {}
            for (i, st) in seen:
                # state on *entry* of node i; a node that is itself the None-def is not a deref of it
                if st[2]:
                    reach_maynone[i] = st
            for nid, ds in deref_nodes.items():
                n += 1
                ctx.touch(fn)
                nd = cfg.nodes[nid]
                bad = nid in reach_maynone
                detail = f'{short(ds[0], 50)} at L{nd.lineno}: every feasible path from the None initialiser ' \
                         f're-binds {name} or tests it first'
                if bad:
                    p = None
                    for d0 in def_ids:
                        for m, lab in cfg.nodes[d0].succ:
                            p = p or cfg.find_path(m, nd, blocked_nodes=[cfg.nodes[k] for k in kill_ids],
                                                   blocked_edges=guard_edges, labels_excluded=('exc',))
                    detail = f'`{short(ds[0], 50)}` at L{nd.lineno} is reachable with {name} still None: ' \
                             f'{path_text(p)}'
                ctx.ob(rule, fkey(fn, rule, f'{name}:{short(ds[0], 50)}'), not bad,
                       f'{fn.module.relpath}:{nd.lineno}',
                       f'`{name}` (initialised to None) is not dereferenced while it may still be None', detail)
    return n


# ------------------------------------------------------------------ (c) None sentinel tested by truthiness
_CONTAINER_CALLS = ('set', 'list', 'dict', 'frozenset', 'np.array', 'np.zeros', 'np.ones', 'np.where', 'np.unique')


def _container_valued(v):
    if isinstance(v, (ast.Set, ast.List, ast.Dict, ast.SetComp, ast.ListComp, ast.DictComp)):
        return True
    if isinstance(v, ast.BinOp) and isinstance(v.op, (ast.BitAnd, ast.BitOr, ast.Sub, ast.Add)):
        return True
    if isinstance(v, ast.IfExp):
        return _container_valued(v.body) or _container_valued(v.orelse)
    if isinstance(v, ast.Call) and norm(v.func) in _CONTAINER_CALLS:
        return True
    return False


def sentinel_truthiness_sites(fn_node):
    """(name, test expr) where a local that is initialised to None and elsewhere bound to a container-valued
    expression is tested by bare truthiness."""
    none_names, cont_names = set(), set()
    body = ast.Module(body=list(fn_node.body), type_ignores=[])
    for s in walk_no_nested(body):
        if isinstance(s, ast.Assign):
            for t in s.targets:
                for tt in (t.elts if isinstance(t, ast.Tuple) else [t]):
                    if isinstance(tt, ast.Name):
                        if isinstance(s.value, ast.Constant) and s.value.value is None:
                            none_names.add(tt.id)
                        elif _container_valued(s.value):
                            cont_names.add(tt.id)
    cand = none_names & cont_names
    out = []
    if not cand:
        return out
    for s in walk_no_nested(body):
        tests = []
        if isinstance(s, (ast.If, ast.While, ast.IfExp)):
            tests.append(s.test)
        if isinstance(s, ast.BoolOp):
            tests += list(s.values[:-1])
        for t in tests:
            for atom, truth in implied_facts(t, True) + implied_facts(t, False):
                if isinstance(atom, ast.Name) and atom.id in cand and (atom.id, id(t)) not in {(a, id(b)) for a, b in out}:
                    out.append((atom.id, t))
    return out


def check_sentinel_truthiness(ctx, functions, rule='A10c'):
    """Zero expected instances on a healthy tree; a positive control fixture must match on every run."""
    import os
    fx = os.path.join(os.path.dirname(os.path.dirname(os.path.abspath(__file__))), 'fixtures',
                      'sentinel_truthiness.py')
    with open(fx) as fp:
        tree = ast.parse(fp.read())
    hits = {f.name: sentinel_truthiness_sites(f) for f in tree.body if isinstance(f, ast.FunctionDef)}
    if len(hits.get('running_intersection', [])) != 1 or hits.get('running_intersection_ok'):
        raise AnalysisError('A10c: the positive control fixture is not recognised as designed')
    n = 0
    scanned = 0
    for fn in functions:
        if isinstance(fn.node, ast.Lambda):
            continue
        scanned += 1
        for name, t in sentinel_truthiness_sites(fn.node):
            n += 1
            ctx.touch(fn)
            ctx.ob(rule, fkey(fn, rule, f'{name}:{short(t, 40)}'), False, f'{fn.module.relpath}:{t.lineno}',
                   f'`{name}` uses None as the "not set yet" sentinel and is elsewhere bound to a container: it '
                   f'must be tested with `is None` - a truthiness test conflates the empty container with the '
                   f'sentinel', f'truthiness test `{short(t, 60)}`')
    ctx.ob(rule, f'program:{rule}:scan', True, 'adsg_core', 'scan for None sentinels tested by truthiness',
           f'{scanned} functions scanned, {n} site(s); positive control matched', nontrivial=False)
    return n


# ------------------------------------------------------------------ (d) None key dereferenced
def none_key_derefs(fn):
    """Contradiction rule: the function (or its class, through `self.<attr>`) treats None as a possible key of a
    mapping (`M[None]`, `None in M`, `None not in M`) but iterates over the keys of the same mapping and
    dereferences them without excluding None.  Returns [(mapping text, key variable, deref node)]."""
    body = ast.Module(body=list(fn.body), type_ignores=[])
    alias = {}
    for s in walk_no_nested(body):
        if isinstance(s, ast.Assign) and len(s.targets) == 1 and isinstance(s.targets[0], ast.Name) and \
                isinstance(s.value, ast.Attribute) and isinstance(s.value.value, ast.Name) and \
                s.value.value.id == 'self':
            alias[s.targets[0].id] = norm(s.value)

    def canon(e):
        t = norm(e)
        return alias.get(t, t)
    evidence = set()
    scope = [fn]
    if fn.owner_class is not None:
        scope = list(fn.owner_class.methods.values())
    for f in scope:
        fb = ast.Module(body=list(f.body), type_ignores=[])
        fal = {}
        for s in walk_no_nested(fb):
            if isinstance(s, ast.Assign) and len(s.targets) == 1 and isinstance(s.targets[0], ast.Name) and \
                    isinstance(s.value, ast.Attribute) and isinstance(s.value.value, ast.Name) and \
                    s.value.value.id == 'self':
                fal[s.targets[0].id] = norm(s.value)
        for s in walk_no_nested(fb):
            if isinstance(s, ast.Subscript) and isinstance(s.slice, ast.Constant) and s.slice.value is None:
                t = norm(s.value)
                t = fal.get(t, t)
                if t.startswith('self.') or f is fn:
                    evidence.add(t)
            if isinstance(s, ast.Compare) and len(s.ops) == 1 and isinstance(s.ops[0], (ast.In, ast.NotIn)) and \
                    isinstance(s.left, ast.Constant) and s.left.value is None:
                t = norm(s.comparators[0])
                t = fal.get(t, t)
                if t.startswith('self.') or f is fn:
                    evidence.add(t)
    out = []
    if not evidence:
        return out
    for s in walk_no_nested(body):
        gens = []
        if isinstance(s, ast.For):
            gens.append((s.target, s.iter, s.body, None))
        elif isinstance(s, (ast.ListComp, ast.SetComp, ast.DictComp, ast.GeneratorExp)):
            for g in s.generators:
                elts = [s.key, s.value] if isinstance(s, ast.DictComp) else [s.elt]
                gens.append((g.target, g.iter, elts, g.ifs))
        for tgt, it, scope_nodes, ifs in gens:
            base, keypos = it, None
            if isinstance(it, ast.Call) and isinstance(it.func, ast.Attribute) and it.func.attr in ('items', 'keys') \
                    and not it.args:
                base = it.func.value
                keypos = 0 if it.func.attr == 'items' else None
            if canon(base) not in evidence:
                continue
            if keypos == 0:
                if not (isinstance(tgt, ast.Tuple) and isinstance(tgt.elts[0], ast.Name)):
                    continue
                k = tgt.elts[0].id
            else:
                if not isinstance(tgt, ast.Name):
                    continue
                k = tgt.id
            guarded = False
            if ifs is not None:
                for c in ifs:
                    for atom, truth in implied_facts(c, True):
                        if _not_none_fact(k)(atom, truth):
                            guarded = True
            nodes = scope_nodes if isinstance(scope_nodes, list) else [scope_nodes]
            for stx in nodes:
                if guarded:
                    break
                # for loops: an early `if k is None: continue` as first statements
                if ifs is None and isinstance(stx, ast.If) and any(
                        isinstance(atom, ast.Compare) and norm(atom) == f'{k} is None'
                        for atom, _ in implied_facts(stx.test, True)) and \
                        any(isinstance(b, (ast.Continue, ast.Return, ast.Raise)) for b in stx.body):
                    guarded = True
                    break
                for sub in ast.walk(stx):
                    if isinstance(sub, ast.Attribute) and isinstance(sub.value, ast.Name) and sub.value.id == k and \
                            isinstance(sub.ctx, ast.Load):
                        out.append((canon(base), k, sub))
                        break
                else:
                    continue
                break
    return out


def check_none_key_deref(ctx, functions, rule='A10d'):
    n = 0
    scanned = 0
    for fn in functions:
        if isinstance(fn.node, ast.Lambda):
            continue
        scanned += 1
        for m, k, node in none_key_derefs(fn):
            n += 1
            ctx.touch(fn)
            ctx.ob(rule, fkey(fn, rule, f'{m}:{k}.{node.attr}'), False, f'{fn.module.relpath}:{node.lineno}',
                   f'`{m}` is treated as possibly containing the key None elsewhere in this class; every iteration '
                   f'over its keys excludes None before dereferencing the key',
                   f'`{short(node, 40)}` dereferences the key `{k}` of `{m}` without excluding None: raises '
                   f'AttributeError as soon as the (legal) None entry is present')
    ctx.ob(rule, f'program:{rule}:scan', True, 'adsg_core', 'scan for None keys dereferenced',
           f'{scanned} functions scanned, {n} site(s)', nontrivial=False)
    return n


# ---------------------------------------------------------------------- A10e: constant index into a filtered list
def _filtered_list(v):
    """Is v a list that may be empty because of a filter: `[.. for .. if c]`, possibly inside sorted()/list()/
    tuple()/np.array()?"""
    while isinstance(v, ast.Call) and v.args and norm(v.func).split('.')[-1] in ('sorted', 'list', 'tuple', 'array', 'set'):
        v = v.args[0]
    return isinstance(v, (ast.ListComp, ast.GeneratorExp, ast.SetComp)) and any(g.ifs for g in v.generators)


def check_filtered_index(ctx, functions, rule='A10e'):
    """`xs = [.. for .. if cond]` may be empty; `xs[k]` with a constant k needs a dominating length / emptiness
    test of xs that excludes the lengths <= k (the test is evaluated over lengths 0..5)."""
    from . import intcmp, guards
    from ..cfg import build_cfg
    from .common import walk_fn
    n = 0
    for fn in functions:
        if isinstance(fn.node, ast.Lambda):
            continue
        cands = {}
        for st in walk_fn(fn):
            if isinstance(st, ast.Assign) and len(st.targets) == 1 and isinstance(st.targets[0], ast.Name) and \
                    _filtered_list(st.value):
                cands.setdefault(st.targets[0].id, []).append(st)
        if not cands:
            continue
        cfg = build_cfg(fn)
        for name, defs in cands.items():
            # only names whose every definition is such a list
            all_defs = [s for s in walk_fn(fn) if isinstance(s, (ast.Assign, ast.AugAssign, ast.AnnAssign, ast.For))
                        and name in [t.id for t in ast.walk(s.targets[0] if isinstance(s, ast.Assign) else s.target)
                                     if isinstance(t, ast.Name) and isinstance(t.ctx, ast.Store)]]
            if len(all_defs) != len(defs):
                continue
            sinks = []
            for nd in cfg.nodes:
                if nd.ast is None or nd.kind not in ('stmt', 'test', 'for'):
                    continue
                exprs = [nd.ast] if nd.kind != 'for' else [nd.ast.iter]
                for e in exprs:
                    for sub in ast.walk(e):
                        if isinstance(sub, ast.Subscript) and isinstance(sub.value, ast.Name) and sub.value.id == name \
                                and isinstance(sub.ctx, ast.Load):
                            k = None
                            if isinstance(sub.slice, ast.Constant) and isinstance(sub.slice.value, int):
                                k = sub.slice.value
                            elif isinstance(sub.slice, ast.UnaryOp) and isinstance(sub.slice.op, ast.USub) and \
                                    isinstance(sub.slice.operand, ast.Constant):
                                k = -sub.slice.operand.value
                            if k is not None:
                                sinks.append((nd, k, sub))
            for nd, k, sub in sinks:
                need = k + 1 if k >= 0 else -k

                def is_name(e):
                    return isinstance(e, ast.Name) and e.id == name

                def guard(atom, truth, need=need):
                    try:
                        vs = intcmp.value_set(atom, intcmp.is_len_of(is_name), domain=tuple(range(0, 7)))
                    except intcmp.NotSimple:
                        if is_name(atom):
                            vs = frozenset(range(1, 7))
                        else:
                            return False
                    if not any(isinstance(x, ast.Name) and x.id == name for x in ast.walk(atom)):
                        return False
                    allowed = vs if truth else frozenset(range(0, 7)) - vs
                    return bool(allowed) and min(allowed) >= need
                n += 1
                guards.check_guarded(ctx, rule, fn, [nd], guard, [name], f'{name}[{k}]',
                                     f'`{name}` is a filtered list and may be empty: `{name}[{k}]` is evaluated only '
                                     f'where a test of its length excludes lengths below {need}')
    return n


# ---------------------------------------------------------------------- A10g: reductions over degree-override lists
def check_override_reductions(ctx, rule='A10g', module='adsg_core.optimization.assign_enc.matrix'):
    """The per-scenario degree lists of an existence pattern (`*_n_conn_override` maps) may be EMPTY: a connector
    group whose present members need more connections than the matrix allows has no admissible number of
    connections in that scenario (ConnectionChoiceNode.get_assignment_encoding_args builds `range(deg_min,
    deg_max+1)`).  A `max()` / `min()` over such a list therefore needs a non-emptiness filter or `default=`."""
    prog = ctx.prog
    n = 0
    for fn in prog.all_functions():
        if fn.module.name != module:
            continue
        for comp in [c for c in ast.walk(fn.node) if isinstance(c, (ast.ListComp, ast.GeneratorExp, ast.SetComp))]:
            for g in comp.generators:
                it = norm(g.iter)
                if 'override' not in it or not (it.endswith('.values()') or it.endswith('.items()')):
                    continue
                tnames = [x.id for x in ast.walk(g.target) if isinstance(x, ast.Name)]
                var = tnames[-1] if tnames else None
                if var is None:
                    continue
                for c in ast.walk(comp.elt):
                    if isinstance(c, ast.Call) and isinstance(c.func, ast.Name) and c.func.id in ('max', 'min') and \
                            c.args and norm(c.args[0]) == var:
                        has_default = any(k.arg == 'default' for k in c.keywords)
                        filt = any(_nonempty_filter(f, var) for f in g.ifs)
                        n += 1
                        ctx.touch(fn)
                        ctx.ob(rule, fkey(fn, rule, f'{c.func.id}({var}) over {it}'), has_default or filt,
                               f'{fn.module.relpath}:{c.lineno}',
                               f'`{c.func.id}({var})` over the degree lists of an existence pattern tolerates an empty '
                               f'list (non-emptiness filter or default=)',
                               'filtered / defaulted' if (has_default or filt) else
                               f'an empty degree list (infeasible scenario of a connector group) raises ValueError here')
    return n


def _nonempty_filter(test, var):
    from . import intcmp
    r = intcmp.emptiness(test, lambda e: isinstance(e, ast.Name) and e.id == var)
    return r == 'nonempty'


# ---------------------------------------------------------------------- A14r: sibling reductions agree on the axis
_REDUCTIONS = {'any', 'all', 'sum', 'max', 'min', 'prod', 'mean', 'argmax', 'argmin', 'count_nonzero'}


def check_sibling_reductions(ctx, rule='A14r', prefix='adsg_core.optimization'):
    """Within one function, numpy reductions over the *same array* (directly or compared with some value) agree on
    whether they reduce along an axis: `np.any(t == A, axis=0)` next to `np.any(t == B)` computes one flag per
    column for A and one flag for the whole table for B.  On the pinned tree every one of the groups of such
    sibling reductions is unanimous."""
    n = groups = 0
    for fn in ctx.prog.all_functions():
        if not fn.module.name.startswith(prefix) or isinstance(fn.node, ast.Lambda):
            continue
        by = {}
        for c in ast.walk(fn.node):
            if isinstance(c, ast.Call) and isinstance(c.func, ast.Attribute) and norm(c.func.value) in ('np', 'numpy') \
                    and c.func.attr in _REDUCTIONS and c.args:
                a = c.args[0]
                base = a.left if isinstance(a, ast.Compare) else a
                while isinstance(base, ast.UnaryOp):
                    base = base.operand
                by.setdefault(norm(base), []).append((c, any(k.arg == 'axis' for k in c.keywords) or len(c.args) > 1))
        for key, sites in by.items():
            if len(sites) < 2:
                continue
            groups += 1
            with_axis = [c for c, ax in sites if ax]
            without = [c for c, ax in sites if not ax]
            ok = not (with_axis and without)
            n += 1
            ctx.touch(fn)
            ctx.ob(rule, fkey(fn, rule, f'reductions-of:{key[:50]}'), ok, f'{fn.module.relpath}:{sites[0][0].lineno}',
                   f'the {len(sites)} reductions of `{key[:60]}` in {fn.qualname} agree on reducing along an axis',
                   'unanimous' if ok else
                   f'L{without[0].lineno} `{short(without[0], 60)}` reduces the whole table while L{with_axis[0].lineno} '
                   f'`{short(with_axis[0], 60)}` reduces along an axis')
    ctx.floor(rule, 8, 'groups of sibling reductions')
    return n
