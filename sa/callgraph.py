"""E3 - light-weight type inference (annotations, constructors, container elements) and call resolution.

Types are tuples:
  ('cls', ClassInfo)  instance            ('type', ClassInfo)  the class object
  ('list', T)         any homogeneous iterable            ('dict', K, V)
  ('tuple', (T1, ..)) heterogeneous tuple (each Ti is a frozenset of types)
  ('func', FunctionInfo)   ('mod', Module)   ('super', ClassInfo)
A *type set* is a frozenset of such tuples; the empty set means unknown.
"""
import ast
from .model import ClassInfo, FunctionInfo, Module, norm, walk_no_nested

EMPTY = frozenset()
ITER_NAMES = {'List', 'Set', 'Sequence', 'Iterable', 'Iterator', 'Collection', 'FrozenSet', 'Generator',
              'list', 'set', 'frozenset', 'MutableSequence', 'Deque', 'AbstractSet', 'MutableSet'}
DICT_NAMES = {'Dict', 'Mapping', 'MutableMapping', 'OrderedDict', 'dict', 'DefaultDict', 'defaultdict'}

# names of container / builtin-object methods that are never resolved "by name" to repository methods
BUILTIN_METHODS = {
    'append', 'add', 'extend', 'update', 'pop', 'remove', 'discard', 'clear', 'insert', 'setdefault', 'get',
    'items', 'keys', 'values', 'copy', 'index', 'count', 'sort', 'reverse', 'join', 'format', 'split', 'strip',
    'startswith', 'endswith', 'encode', 'decode', 'replace', 'lower', 'upper', 'union', 'intersection',
    'difference', 'issubset', 'issuperset', 'astype', 'reshape', 'sum', 'any', 'all', 'min', 'max', 'mean',
    'tolist', 'flatten', 'transpose', 'nonzero', 'fill', 'dump', 'dumps', 'load', 'loads', 'write', 'read',
    'popitem', 'symmetric_difference', 'isdisjoint', 'rstrip', 'lstrip', 'hexdigest', 'digest', 'ravel', 'cumsum',
    'argsort', 'argmax', 'argmin', 'prod', 'round', 'take', 'repeat', 'dot', 'squeeze', 'apply', 'apply_async',
    'close', 'is_alive', 'debug', 'info', 'warning', 'error', 'exception', 'difference_update',
    'intersection_update', 'move_to_end', 'most_common', 'view', 'item', 'conj', 'clip', 'cache_clear', 'group',
    'match', 'search', 'sub', 'findall', 'seed', 'random', 'randint', 'choice', 'permutation', 'shuffle',
    'predecessors', 'successors', 'in_edges', 'out_edges', 'edges', 'nodes', 'add_edge', 'add_node',
    'add_edges_from', 'add_nodes_from', 'remove_edges_from', 'remove_nodes_from', 'remove_node', 'remove_edge',
    'in_degree', 'out_degree', 'has_edge', 'has_node', 'subgraph', 'number_of_nodes', 'number_of_edges',
    'set_index', 'option_context', 'set_option', 'concat', 'iterrows', 'to_numpy', 'isnull', 'notnull', 'dropna',
    'isin', 'unique', 'where', 'put', 'partition', 'rsplit', 'title', 'zfill', 'ljust', 'rjust', 'center',
    'isdigit', 'isalpha', 'isnumeric', 'find', 'rfind', 'splitlines', 'capitalize', 'total_seconds', 'timestamp',
    'isoformat', 'strftime', 'tobytes', 'swapaxes', 'std', 'var', 'trace', 'diagonal', 'searchsorted',
}


def _u(*sets):
    out = set()
    for s in sets:
        out |= s
    return frozenset(out)


class Types:
    def __init__(self, prog):
        self.prog = prog
        self._env = {}
        self._ret = {}
        self._attr = {}
        self._busy = set()

    # ---------------------------------------------------------------- annotations
    def from_annotation(self, ann, module):
        if ann is None:
            return EMPTY
        if isinstance(ann, ast.Constant):
            if isinstance(ann.value, str):
                try:
                    return self.from_annotation(ast.parse(ann.value, mode='eval').body, module)
                except SyntaxError:
                    return EMPTY
            return EMPTY
        if isinstance(ann, (ast.Name, ast.Attribute)):
            r = self.prog.resolve_dotted(module, ann)
            if isinstance(r, ClassInfo):
                return frozenset({('cls', r)})
            if isinstance(r, tuple) and r[0] == 'expr':
                # type alias: X = Union[A, B]
                return self.from_annotation(r[2], r[1])
            name = norm(ann).split('.')[-1]
            if name in ITER_NAMES or name in ('tuple', 'Tuple'):
                return frozenset({('list', EMPTY)})
            if name in DICT_NAMES:
                return frozenset({('dict', EMPTY, EMPTY)})
            return EMPTY
        if isinstance(ann, ast.BinOp) and isinstance(ann.op, ast.BitOr):
            return _u(self.from_annotation(ann.left, module), self.from_annotation(ann.right, module))
        if isinstance(ann, ast.Subscript):
            head = norm(ann.value).split('.')[-1]
            sl = ann.slice
            args = list(sl.elts) if isinstance(sl, ast.Tuple) else [sl]
            if head in ('Optional', 'Union'):
                return _u(*[self.from_annotation(a, module) for a in args])
            if head in ITER_NAMES:
                return frozenset({('list', self.from_annotation(args[0], module))})
            if head in DICT_NAMES:
                k = self.from_annotation(args[0], module)
                v = self.from_annotation(args[1], module) if len(args) > 1 else EMPTY
                return frozenset({('dict', k, v)})
            if head in ('Tuple', 'tuple'):
                if len(args) == 2 and isinstance(args[1], ast.Constant) and args[1].value is Ellipsis:
                    return frozenset({('list', self.from_annotation(args[0], module))})
                return frozenset({('tuple', tuple(self.from_annotation(a, module) for a in args))})
            if head in ('Type', 'type'):
                return frozenset({('type', t[1]) for t in self.from_annotation(args[0], module) if t[0] == 'cls'})
            if head in ('ClassVar', 'Final', 'Annotated'):
                return self.from_annotation(args[0], module)
            return EMPTY
        return EMPTY

    # ---------------------------------------------------------------- helpers on type sets
    @staticmethod
    def elem(ts):
        out = set()
        for t in ts:
            if t[0] == 'list':
                out |= t[1]
            elif t[0] == 'dict':
                out |= t[1]
            elif t[0] == 'tuple':
                for x in t[1]:
                    out |= x
        return frozenset(out)

    @staticmethod
    def classes(ts):
        return [t[1] for t in ts if t[0] == 'cls']

    # ---------------------------------------------------------------- function environments
    def env(self, fn):
        """Flow-insensitive local environment: name -> type set."""
        e = self._env.get(fn)
        if e is not None:
            return e
        e = {}
        self._env[fn] = e
        mod = fn.module
        owner = fn.owner_class
        params = fn.params
        if fn.cls is not None and params and not fn.is_static:
            if fn.is_classmethod:
                e[params[0]] = frozenset({('type', fn.cls)})
            else:
                e[params[0]] = frozenset({('cls', fn.cls)})
        for p in params:
            ann = fn.param_annotation(p)
            if ann is not None:
                t = self.from_annotation(ann, mod)
                if t:
                    e[p] = _u(e.get(p, EMPTY), t)
        node = fn.node
        binders = []   # (target, kind, value expr)
        body_root = node if not isinstance(node, ast.Lambda) else node.body
        for sub in walk_no_nested(body_root if isinstance(node, ast.Lambda) else ast.Module(body=list(node.body),
                                                                                             type_ignores=[])):
            if isinstance(sub, ast.Assign):
                for t in sub.targets:
                    binders.append((t, 'val', sub.value))
            elif isinstance(sub, ast.AnnAssign):
                t = self.from_annotation(sub.annotation, mod)
                if isinstance(sub.target, ast.Name) and t:
                    e[sub.target.id] = _u(e.get(sub.target.id, EMPTY), t)
                elif sub.value is not None:
                    binders.append((sub.target, 'val', sub.value))
            elif isinstance(sub, (ast.For, ast.AsyncFor)):
                binders.append((sub.target, 'elem', sub.iter))
                # `for x in xs:  # type: Foo`
            elif isinstance(sub, ast.comprehension):
                binders.append((sub.target, 'elem', sub.iter))
            elif isinstance(sub, (ast.With, ast.AsyncWith)):
                for it in sub.items:
                    if it.optional_vars is not None:
                        binders.append((it.optional_vars, 'val', it.context_expr))
            elif isinstance(sub, ast.NamedExpr):
                binders.append((sub.target, 'val', sub.value))
        for _ in range(3):
            changed = False
            for tgt, kind, val in binders:
                ts = self.of(val, fn)
                if kind == 'elem':
                    ts = self.elem(ts)
                changed |= self._bind(e, tgt, ts)
            if not changed:
                break
        return e

    def _bind(self, e, tgt, ts):
        changed = False
        if isinstance(tgt, ast.Name):
            if ts and not ts <= e.get(tgt.id, EMPTY):
                e[tgt.id] = _u(e.get(tgt.id, EMPTY), ts)
                changed = True
        elif isinstance(tgt, (ast.Tuple, ast.List)):
            for i, el in enumerate(tgt.elts):
                sub = set()
                for t in ts:
                    if t[0] == 'tuple' and i < len(t[1]) and not any(isinstance(x, ast.Starred) for x in tgt.elts):
                        sub |= t[1][i]
                    elif t[0] == 'list':
                        sub |= t[1]
                if isinstance(el, ast.Starred):
                    continue
                changed |= self._bind(e, el, frozenset(sub))
        return changed

    def lookup_name(self, name, fn):
        f = fn
        while f is not None:
            e = self.env(f)
            if name in e:
                return e[name]
            if name in f.nested:
                return frozenset({('func', f.nested[name])})
            if name in f.params:
                return EMPTY
            f = f.parent
        r = self.prog.resolve(fn.module, name)
        return self._global(r)

    def _global(self, r):
        if isinstance(r, ClassInfo):
            return frozenset({('type', r)})
        if isinstance(r, FunctionInfo):
            return frozenset({('func', r)})
        if isinstance(r, Module):
            return frozenset({('mod', r)})
        if isinstance(r, tuple) and r[0] == 'expr':
            return self.of_module_expr(r[2], r[1])
        return EMPTY

    def of_module_expr(self, expr, module):
        # constants / constructor calls at module level
        if isinstance(expr, ast.Call):
            r = self.prog.resolve_dotted(module, expr.func)
            if isinstance(r, ClassInfo):
                return frozenset({('cls', r)})
        if isinstance(expr, (ast.Name, ast.Attribute)):
            return self._global(self.prog.resolve_dotted(module, expr))
        if isinstance(expr, (ast.List, ast.Tuple, ast.Set)):
            return frozenset({('list', _u(*[self.of_module_expr(x, module) for x in expr.elts]) if expr.elts
                               else EMPTY)})
        if isinstance(expr, ast.Dict):
            return frozenset({('dict', EMPTY, _u(*[self.of_module_expr(x, module) for x in expr.values])
                               if expr.values else EMPTY)})
        return EMPTY

    # ---------------------------------------------------------------- attributes and returns
    def attr_types(self, c, attr):
        key = (c, attr)
        if key in self._attr:
            return self._attr[key]
        self._attr[key] = EMPTY
        out = set()
        prog = self.prog
        for k in prog.mro(c):
            if attr in k.methods:
                m = k.methods[attr]
                if m.is_property:
                    out |= self.returns(m)
                else:
                    out.add(('func', m))
                break
            if attr in k.instance_attrs:
                for val, ann, f in k.instance_attrs[attr]:
                    if ann is not None:
                        out |= self.from_annotation(ann, k.module)
                    if val is not None:
                        out |= self.of(val, f)
            if attr in k.class_attrs:
                val, ann = k.class_attrs[attr]
                if ann is not None:
                    out |= self.from_annotation(ann, k.module)
                if val is not None:
                    out |= self.of_module_expr(val, k.module)
            if out:
                break
        # attributes assigned in subclasses only
        if not out:
            for s in prog.subclasses(c):
                if attr in s.methods and s.methods[attr].is_property:
                    out |= self.returns(s.methods[attr])
                for val, ann, f in s.instance_attrs.get(attr, []):
                    if ann is not None:
                        out |= self.from_annotation(ann, s.module)
                    if val is not None:
                        out |= self.of(val, f)
        res = frozenset(out)
        self._attr[key] = res
        return res

    def returns(self, fn):
        if fn in self._ret:
            return self._ret[fn]
        self._ret[fn] = EMPTY
        out = set()
        ann = getattr(fn.node, 'returns', None)
        if ann is not None:
            out |= self.from_annotation(ann, fn.module)
        if not out:
            if isinstance(fn.node, ast.Lambda):
                out |= self.of(fn.node.body, fn)
            else:
                for sub in walk_no_nested(ast.Module(body=list(fn.node.body), type_ignores=[])):
                    if isinstance(sub, ast.Return) and sub.value is not None:
                        out |= self.of(sub.value, fn)
                    elif isinstance(sub, (ast.Yield,)) and sub.value is not None:
                        out.add(('list', self.of(sub.value, fn)))
        res = frozenset(out)
        self._ret[fn] = res
        return res

    # ---------------------------------------------------------------- expressions
    def of(self, expr, fn):
        key = (id(expr), fn)
        if key in self._busy:
            return EMPTY
        self._busy.add(key)
        try:
            return self._of(expr, fn)
        finally:
            self._busy.discard(key)

    def _of(self, expr, fn):
        if isinstance(expr, ast.Name):
            return self.lookup_name(expr.id, fn)
        if isinstance(expr, ast.Attribute):
            base = self.of(expr.value, fn)
            out = set()
            for t in base:
                if t[0] == 'cls':
                    out |= self.attr_types(t[1], expr.attr)
                elif t[0] == 'type':
                    m = self.prog.find_method(t[1], expr.attr)
                    if m is not None:
                        out.add(('func', m))
                    else:
                        ca = self.prog.find_class_attr(t[1], expr.attr)
                        if ca is not None:
                            k, (val, ann) = ca
                            if ann is not None:
                                out |= self.from_annotation(ann, k.module)
                            if val is not None:
                                out |= self.of_module_expr(val, k.module)
                        if expr.attr == '__class__':
                            out.add(t)
                elif t[0] == 'mod':
                    out |= self._global(self.prog.resolve(t[1], expr.attr))
                elif t[0] == 'super':
                    mro = self.prog.mro(t[1])[1:]
                    for k in mro:
                        if expr.attr in k.methods:
                            out.add(('func', k.methods[expr.attr]))
                            break
            if expr.attr == '__class__':
                out |= {('type', t[1]) for t in base if t[0] == 'cls'}
            return frozenset(out)
        if isinstance(expr, ast.Call):
            return self._of_call(expr, fn)
        if isinstance(expr, ast.Subscript):
            base = self.of(expr.value, fn)
            if isinstance(expr.slice, ast.Slice):
                return base
            out = set()
            for t in base:
                if t[0] == 'list':
                    out |= t[1]
                elif t[0] == 'dict':
                    out |= t[2]
                elif t[0] == 'tuple':
                    idx = expr.slice
                    if isinstance(idx, ast.UnaryOp) and isinstance(idx.op, ast.USub) and \
                            isinstance(idx.operand, ast.Constant):
                        i = -idx.operand.value
                    elif isinstance(idx, ast.Constant) and isinstance(idx.value, int):
                        i = idx.value
                    else:
                        i = None
                    if i is not None and -len(t[1]) <= i < len(t[1]):
                        out |= t[1][i]
                    else:
                        for x in t[1]:
                            out |= x
            return frozenset(out)
        if isinstance(expr, ast.IfExp):
            return _u(self.of(expr.body, fn), self.of(expr.orelse, fn))
        if isinstance(expr, ast.BoolOp):
            return _u(*[self.of(v, fn) for v in expr.values])
        if isinstance(expr, ast.NamedExpr):
            return self.of(expr.value, fn)
        if isinstance(expr, (ast.List, ast.Set)):
            return frozenset({('list', _u(*[self.of(x, fn) for x in expr.elts if not isinstance(x, ast.Starred)])
                               if expr.elts else EMPTY)})
        if isinstance(expr, ast.Tuple):
            if any(isinstance(x, ast.Starred) for x in expr.elts):
                return frozenset({('list', EMPTY)})
            return frozenset({('tuple', tuple(self.of(x, fn) for x in expr.elts))})
        if isinstance(expr, (ast.ListComp, ast.SetComp, ast.GeneratorExp)):
            return frozenset({('list', self.of(expr.elt, fn))})
        if isinstance(expr, ast.DictComp):
            return frozenset({('dict', self.of(expr.key, fn), self.of(expr.value, fn))})
        if isinstance(expr, ast.Dict):
            ks = _u(*[self.of(k, fn) for k in expr.keys if k is not None]) if expr.keys else EMPTY
            vs = _u(*[self.of(v, fn) for v in expr.values]) if expr.values else EMPTY
            return frozenset({('dict', ks, vs)})
        if isinstance(expr, ast.BinOp):
            # list concatenation / set union keep the container type
            l = self.of(expr.left, fn)
            r = self.of(expr.right, fn)
            return frozenset(t for t in _u(l, r) if t[0] in ('list', 'dict'))
        if isinstance(expr, ast.Lambda):
            lf = getattr(expr, '_sa_fn', None)
            return frozenset({('func', lf)}) if lf is not None else EMPTY
        if isinstance(expr, ast.Starred):
            return self.of(expr.value, fn)
        if isinstance(expr, ast.Await):
            return self.of(expr.value, fn)
        return EMPTY

    def _of_call(self, call, fn):
        f = call.func
        # builtins that preserve / build containers
        if isinstance(f, ast.Name):
            nm = f.id
            if nm in ('list', 'set', 'sorted', 'tuple', 'frozenset', 'reversed', 'iter') and call.args:
                if self.lookup_name(nm, fn) == EMPTY:
                    return frozenset({('list', self.elem(self.of(call.args[0], fn)))})
            if nm == 'enumerate' and call.args:
                return frozenset({('list', frozenset({('tuple', (EMPTY, self.elem(self.of(call.args[0], fn))))}))})
            if nm == 'zip' and call.args:
                return frozenset({('list', frozenset({('tuple', tuple(self.elem(self.of(a, fn))
                                                                      for a in call.args))}))})
            if nm == 'next' and call.args:
                return self.elem(self.of(call.args[0], fn))
            if nm == 'super':
                oc = fn.owner_class
                return frozenset({('super', oc)}) if oc is not None else EMPTY
            if nm in ('dict', 'OrderedDict') and call.args:
                a = self.of(call.args[0], fn)
                ds = frozenset(t for t in a if t[0] == 'dict')
                if ds:
                    return ds
                # list of pairs
                out = set()
                for t in self.elem(a):
                    if t[0] == 'tuple' and len(t[1]) == 2:
                        out.add(('dict', t[1][0], t[1][1]))
                return frozenset(out)
            if nm == 'type' and len(call.args) == 1:
                return frozenset({('type', t[1]) for t in self.of(call.args[0], fn) if t[0] == 'cls'})
            if nm == 'getattr':
                return EMPTY
        if isinstance(f, ast.Attribute):
            base = self.of(f.value, fn)
            meth = f.attr
            out = set()
            handled = False
            for t in base:
                if t[0] == 'dict':
                    handled = True
                    if meth == 'items':
                        out.add(('list', frozenset({('tuple', (t[1], t[2]))})))
                    elif meth == 'values':
                        out.add(('list', t[2]))
                    elif meth == 'keys':
                        out.add(('list', t[1]))
                    elif meth in ('get', 'pop', 'setdefault'):
                        out |= t[2]
                    elif meth == 'copy':
                        out.add(t)
                elif t[0] == 'list':
                    handled = True
                    if meth in ('copy', 'union', 'intersection', 'difference', '__or__'):
                        out.add(t)
                    elif meth == 'pop':
                        out |= t[1]
            if handled and out:
                return frozenset(out)
        out = set()
        for t in self.of(f, fn):
            if t[0] == 'type':
                out.add(('cls', t[1]))
            elif t[0] == 'func':
                out |= self.returns(t[1])
        return frozenset(out)


class CallSite:
    __slots__ = ('node', 'fn', 'targets', 'tag', 'name', 'kind')

    def __init__(self, node, fn, targets, tag, name, kind='call'):
        self.node = node
        self.fn = fn
        self.targets = targets
        self.tag = tag      # exact | typed | by-name | closure | ctor | ext | builtin | unknown
        self.name = name
        self.kind = kind    # call | property

    @property
    def where(self):
        return f'{self.fn.module.relpath}:{self.node.lineno}'


class CallGraph:
    def __init__(self, prog, types=None):
        self.prog = prog
        self.types = types or Types(prog)
        self._sites = {}
        self._callers = None

    def sites(self, fn):
        """Call sites (and property reads) directly inside fn (not inside nested defs; lambdas are own fns)."""
        s = self._sites.get(fn)
        if s is not None:
            return s
        s = []
        self._sites[fn] = s
        root = fn.node.body if isinstance(fn.node, ast.Lambda) else ast.Module(body=list(fn.node.body),
                                                                               type_ignores=[])
        called_funcs = set()
        for sub in walk_no_nested(root):
            if isinstance(sub, ast.Call):
                called_funcs.add(id(sub.func))
                s.append(self._resolve_call(sub, fn))
        for sub in walk_no_nested(root):
            if isinstance(sub, ast.Attribute) and isinstance(sub.ctx, ast.Load) and id(sub) not in called_funcs:
                ps = self._resolve_property(sub, fn)
                if ps is not None:
                    s.append(ps)
        # decorators and defaults of nested defs are evaluated here as well: ignored
        return s

    def _resolve_property(self, attr, fn):
        base = self.types.of(attr.value, fn)
        targets = []
        for t in base:
            if t[0] == 'cls':
                for m in self.prog.dispatch_targets(t[1], attr.attr):
                    if m.is_property and m not in targets:
                        targets.append(m)
        if targets:
            return CallSite(attr, fn, targets, 'typed', attr.attr, 'property')
        if not base:
            # by-name fallback for properties unique in the repo
            cands = [m for m in self.prog.methods_by_name.get(attr.attr, []) if m.is_property]
            if cands and attr.attr not in BUILTIN_METHODS:
                return CallSite(attr, fn, cands, 'by-name', attr.attr, 'property')
        return None

    def _resolve_call(self, call, fn):
        prog, types = self.prog, self.types
        f = call.func
        if isinstance(f, ast.Name):
            name = f.id
            # nested function / local callable
            g = fn
            while g is not None:
                if name in g.nested:
                    return CallSite(call, fn, [g.nested[name]], 'closure', name)
                if name in g.params or name in types.env(g):
                    ts = types.lookup_name(name, fn)
                    targets = [t[1] for t in ts if t[0] == 'func']
                    targets += [m for t in ts if t[0] == 'type'
                                for m in [prog.find_method(t[1], '__init__')] if m is not None]
                    return CallSite(call, fn, targets, 'closure' if targets else 'unknown', name)
                g = g.parent
            r = prog.resolve(fn.module, name)
            if isinstance(r, FunctionInfo):
                return CallSite(call, fn, [r], 'exact', name)
            if isinstance(r, ClassInfo):
                init = prog.find_method(r, '__init__')
                return CallSite(call, fn, [init] if init else [], 'ctor', name)
            if isinstance(r, tuple) and r[0] in ('ext', 'extmodule'):
                return CallSite(call, fn, [], 'ext', name)
            if r is None:
                return CallSite(call, fn, [], 'builtin', name)
            return CallSite(call, fn, [], 'unknown', name)
        if isinstance(f, ast.Attribute):
            name = f.attr
            base = types.of(f.value, fn)
            targets = []
            tag = None
            for t in base:
                if t[0] == 'cls':
                    for m in prog.dispatch_targets(t[1], name):
                        if m not in targets:
                            targets.append(m)
                    tag = 'typed'
                    if not prog.dispatch_targets(t[1], name):
                        # attribute holding a callable (self.func(...))
                        for at in types.attr_types(t[1], name):
                            if at[0] == 'func' and at[1] not in targets:
                                targets.append(at[1])
                elif t[0] == 'type':
                    m = prog.find_method(t[1], name)
                    if m is not None and m not in targets:
                        targets.append(m)
                        # classmethods may be overridden
                        for s in prog.subclasses(t[1]):
                            if name in s.methods and s.methods[name] not in targets:
                                targets.append(s.methods[name])
                    tag = 'typed'
                elif t[0] == 'super':
                    for k in prog.mro(t[1])[1:]:
                        if name in k.methods:
                            targets.append(k.methods[name])
                            break
                    tag = 'exact'
                elif t[0] == 'mod':
                    r = prog.resolve(t[1], name)
                    if isinstance(r, FunctionInfo):
                        targets.append(r)
                    elif isinstance(r, ClassInfo):
                        init = prog.find_method(r, '__init__')
                        if init:
                            targets.append(init)
                    tag = 'exact'
                elif t[0] == 'func':
                    tag = tag or 'typed'
                elif t[0] in ('list', 'dict', 'tuple'):
                    tag = tag or 'builtin'
            if isinstance(f.value, ast.Name) and f.value.id == 'self' and tag == 'typed':
                tag = 'exact'
            if tag is not None and (targets or tag == 'builtin'):
                return CallSite(call, fn, targets, tag, name)
            if tag is not None and not targets:
                # typed receiver but no such method in the repo classes: inherited from external base / attribute
                return CallSite(call, fn, [], 'ext', name)
            # receiver is an external module (np.xxx)
            r = prog.resolve_dotted(fn.module, f.value) if isinstance(f.value, (ast.Name, ast.Attribute)) else None
            if isinstance(r, tuple) and r[0] in ('ext', 'extmodule'):
                return CallSite(call, fn, [], 'ext', name)
            if name in BUILTIN_METHODS or (name.startswith('__') and name.endswith('__')):
                return CallSite(call, fn, [], 'builtin', name)
            cands = list(prog.methods_by_name.get(name, []))
            if cands:
                return CallSite(call, fn, cands, 'by-name', name)
            return CallSite(call, fn, [], 'unknown', name)
        # call of a call result / subscript etc.
        ts = types.of(f, fn)
        targets = [t[1] for t in ts if t[0] == 'func']
        targets += [m for t in ts if t[0] == 'type' for m in [prog.find_method(t[1], '__init__')] if m is not None]
        return CallSite(call, fn, targets, 'typed' if targets else 'unknown', norm(f)[:40])

    # ---------------------------------------------------------------- whole-program queries
    def callees(self, fn, include_nested_defs=True):
        out = []
        for s in self.sites(fn):
            for t in s.targets:
                if t not in out:
                    out.append(t)
        return out

    def reachable_from(self, roots, follow_by_name=True, stop=None, max_depth=None):
        """Functions transitively reachable from roots.  Returns dict fn -> (depth, parent fn, call site).
        Nested functions and lambdas defined in a reached function are considered reached as well (they
        are called or passed as callbacks from there)."""
        from collections import deque
        seen = {}
        dq = deque()
        for r in roots:
            seen[r] = (0, None, None)
            dq.append(r)
        while dq:
            f = dq.popleft()
            d = seen[f][0]
            if max_depth is not None and d >= max_depth:
                continue
            nxt = []
            for s in self.sites(f):
                if s.tag == 'by-name' and not follow_by_name:
                    continue
                for t in s.targets:
                    nxt.append((t, s))
            for g in list(f.nested.values()) + list(f.lambdas):
                nxt.append((g, None))
            for t, s in nxt:
                if t in seen:
                    continue
                if stop is not None and stop(t):
                    continue
                seen[t] = (d + 1, f, s)
                dq.append(t)
        return seen

    def chain(self, reach, fn):
        """Call chain root -> ... -> fn as text."""
        parts = []
        while fn is not None:
            parts.append(fn.qualname)
            fn = reach[fn][1]
        return ' <- '.join(parts)

    def callers(self, fn):
        if self._callers is None:
            self._callers = {}
            for f in self.prog.all_functions():
                for s in self.sites(f):
                    for t in s.targets:
                        self._callers.setdefault(t, []).append(s)
        return self._callers.get(fn, [])

    def stats(self):
        from collections import Counter
        c = Counter()
        n = 0
        for f in self.prog.all_functions():
            for s in self.sites(f):
                if s.kind != 'call':
                    continue
                n += 1
                c[s.tag] += 1
        return n, dict(c)
