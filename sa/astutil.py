"""Small AST helpers shared by the rules."""
import ast
from .model import norm, walk_no_nested

_parent_cache = {}


def parent_map(fn):
    """id(node) -> parent node, for all nodes in fn (not descending into nested defs; lambdas included)."""
    pm = _parent_cache.get(id(fn))
    if pm is not None and pm[0] is fn:
        return pm[1]
    m = {}
    root = fn.node
    stack = [root]
    while stack:
        n = stack.pop()
        for c in ast.iter_child_nodes(n):
            m[id(c)] = n
            if isinstance(c, (ast.FunctionDef, ast.AsyncFunctionDef, ast.ClassDef)) and c is not root:
                continue
            stack.append(c)
    _parent_cache[id(fn)] = (fn, m)
    return m


def ancestors(fn, node):
    pm = parent_map(fn)
    out = []
    n = pm.get(id(node))
    while n is not None:
        out.append(n)
        n = pm.get(id(n))
    return out


def enclosing_stmt(fn, node):
    if isinstance(node, ast.stmt):
        return node
    for a in ancestors(fn, node):
        if isinstance(a, ast.stmt):
            return a
    return None


def calls_in(node, include_lambda_bodies=True):
    return [n for n in walk_no_nested(node, include_lambda_bodies=include_lambda_bodies) if isinstance(n, ast.Call)]


def call_name(call):
    f = call.func
    if isinstance(f, ast.Name):
        return f.id
    if isinstance(f, ast.Attribute):
        return f.attr
    return None


def get_arg(call, pos, name):
    """Positional-or-keyword argument of a call (None if absent)."""
    if pos is not None and len(call.args) > pos and not any(isinstance(a, ast.Starred) for a in call.args[:pos + 1]):
        return call.args[pos]
    for kw in call.keywords:
        if kw.arg == name:
            return kw.value
    return None


def is_const(node, value):
    return isinstance(node, ast.Constant) and node.value == value and type(node.value) is type(value)


def is_none(node):
    return isinstance(node, ast.Constant) and node.value is None


def attr_chain(node):
    """'a.b.c' for Name/Attribute chains, else None."""
    parts = []
    while isinstance(node, ast.Attribute):
        parts.append(node.attr)
        node = node.value
    if isinstance(node, ast.Name):
        parts.append(node.id)
        return '.'.join(reversed(parts))
    return None


def contains(node, sub):
    return any(n is sub for n in ast.walk(node))


def names_loaded(node):
    return {n.id for n in ast.walk(node) if isinstance(n, ast.Name) and isinstance(n.ctx, ast.Load)}


def body_stmts(stmts):
    """All statements in a list of statements, recursively (not into nested defs)."""
    out = []
    for st in stmts:
        out.append(st)
        if isinstance(st, (ast.FunctionDef, ast.AsyncFunctionDef, ast.ClassDef)):
            continue
        for field in ('body', 'orelse', 'finalbody'):
            sub = getattr(st, field, None)
            if isinstance(sub, list):
                out += body_stmts(sub)
        for h in getattr(st, 'handlers', []) or []:
            out += body_stmts(h.body)
    return out


def short(node, n=90):
    s = norm(node).replace('\n', ' ')
    return s if len(s) <= n else s[:n - 3] + '...'
