"""C03 The corrected design vector is a canonical fixed point describing the instance - structural clauses."""
from ..rules import vectors, decode, persist
from ..rules.common import *

EXPLANATION = (
    'Decides necessary conditions of "the corrected vector is canonical": (A6) in GraphProcessor.get_graph no '
    'entry of the reported vector is an echo of the raw input - every entry stems from the analyzer result, the '
    'connection encoder result, the stored / corrected design-variable value or the canonical inactive value '
    '(decided for create=True and create=False separately); the eager connection encoder returns the stored '
    'vector of the selected matrix, the imputer result or the all-inactive vector (the direct-hit path does '
    'not: known finding F7); (A5) unused entries are replaced by the canonical inactive value after activeness '
    'has been derived; (A5d) the closest-combination distance of the complete encoder ignores inactive and forced '
    'choices; (A21) choice-space and design-vector-space arrays are indexed with the matching index; (A1/A2) the '
    'instance caches on the decode path are canonical memos with complete keys.  Not decided: idempotence and '
    'injectivity as such (value-level).')


def check(ctx):
    vectors.decode_no_raw_echo(ctx)
    vectors.inactive_value_contract(ctx)
    vectors.eager_returns_stored_vector(ctx)
    decode.closest_combination_distance(ctx)
    # an active choice is reported active with the option that is wired: choices the graph takes by itself are recorded
    # (fast encoder), and every selection scenario is decoded with the existence pattern it belongs to
    from . import c07 as _c07, c11 as _c11
    _c07.fast_records_auto_taken(ctx)
    _c11.existence_patterns(ctx)
    # the corrected vector is a fixed point only if what the connection encoders hand back is what they decoded: the
    # imputer memo is keyed by the whole existence pattern, the vector returned with a matrix is the decoded one
    from . import c10 as _c10
    _c10.imputer_memo(ctx)
    vectors.check_decode_pair(ctx)
    # two different vectors never denote one architecture: the instance caches are keyed completely
    fns, _ = decode.decode_slice(ctx)
    ps = persist.Persist(ctx, [ctx.fn(f'{GP}.get_graph')], fns)
    ps.check_writes()
    ctx.floor('A6', 5, 'reported-vector sinks')
    from ..rules import indexspace as _ix
    _ix.check_position_map_keys(ctx, [f for f in ctx.prog.all_functions() if f.module.name.startswith(('adsg_core.optimization.graph_processor', 'adsg_core.optimization.hierarchy'))],
                                required=[f'{GP}.all_des_var_idx_map'])
    ctx.floor('A21i', 2, 'position maps keyed by objects (design variables, choice nodes)')
    # the values an instance carries stay the ones its corrected vector reports: value containers are not shared
    # between the instance and the graphs later decodes write to
    from ..rules import shared as _sh
    _sh.check_constructor_store(ctx)
    ctx.floor('A11s', 2, 'value containers of a graph never shared between instances')
    # memoised answers on the decode path: the key covers every parameter the stored answer depends on
    from ..rules import persist as _ps
    _ps.check_decode_memos(ctx)
    # the corrected value of a design-variable node lies inside its declared domain (region analysis of C16)
    from .c16 import clamp_regions as _cr
    _cr(ctx)
    # an encoder loaded from the on-disk cache decodes the connection variables: it is only re-used for the same settings
    from .c12 import cache_keys as _ck
    _ck(ctx)


from ..selftest import V  # noqa: E402

VARIANTS = [
    V('value-dict-shared-between-instances', 'graph/adsg.py',
      [("(_des_var_values or {}).copy()", "(_des_var_values if _des_var_values is not None else {})")], key='A11s'),
    V('desvar-compared-by-value', 'optimization/dv_output_defs.py',
      [("    def __str__(self):\n        if self.is_discrete:\n            return f'DV: ", "    def __hash__(self):\n        return hash(self.name)\n\n    def __eq__(self, other):\n        return isinstance(other, DesVar) and self.name == other.name\n\n    def __str__(self):\n        if self.is_discrete:\n            return f'DV: ")], key='A21i'),
    V('decode-echoes-selection-input', 'optimization/graph_processor.py',
      [("        opt_dec_used_values: List[Optional[int]] = \\\n            [int(val) for val in list(np.array(sel_choice_opt_idx)[self._sel_choice_idx_map])]",
        "        opt_dec_used_values: List[Optional[int]] = \\\n            [int(val) for val in des_var_values[:len(self._sel_choice_idx_map)]]")],
      key='no-raw-echo'),
    V('decode-echoes-connection-input', 'optimization/graph_processor.py',
      [("                int(val) if choice_is_active[i_dv] else None for i_dv, val in enumerate(choice_des_vector)]",
        "                int(val) if choice_is_active[i_dv] else None\n                for i_dv, val in enumerate(des_var_values[i_dv_start:i_dv_end])]")],
      key='no-raw-echo'),
    V('decode-reports-raw-dv-value', 'optimization/graph_processor.py',
      [("                    used_values[dv_idx], _ = des_var_node.correct_value(des_var_value)\n", "                    used_values[dv_idx] = des_var_value\n")],
      key='no-raw-echo:create=False'),
    V('inactive-not-imputed', 'optimization/graph_processor.py',
      [("            if used_value is None:\n                used_values[i] = self._get_inactive_value(des_vars[i])\n", "            if used_value is None:\n                used_values[i] = des_var_values[i]\n")],
      key='inactive-imputed'),
    V('inactive-value-is-lower-bound', 'optimization/graph_processor.py',
      [("return X_INACTIVE_IMPUTE if des_var.is_discrete else (sum(des_var.bounds)/2)", "return X_INACTIVE_IMPUTE if des_var.is_discrete else des_var.bounds[0]")],
      key='canonical-inactive-value'),
    V('twin-analyzer-result-renamed', 'optimization/graph_processor.py',
      [("        opt_dec_existence_key = tuple(sel_choice_opt_idx)\n", "        imputed_sel = sel_choice_opt_idx\n        opt_dec_existence_key = tuple(imputed_sel)\n")],
      expect='silent'),
]
