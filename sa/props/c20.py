"""C20 A supplementary graph resolves to the mapped option for each source architecture - structural clauses."""
import ast

from ..rules.match import FnText
from ..model import AnalysisError, norm
from ..cfg import build_cfg
from ..flow import Slice
from ..astutil import short, call_name
from ..report import fkey
from ..rules import guards, intcmp, edges
from ..rules.common import *

META = {'technique': 'static analysis: custom AST/CFG/call-graph rules; term-domain abstract interpretation (rules/absint.py) of the option-mapping resolution; inlined views for path rules'}

EXPLANATION = (
    'Decides necessary conditions of supplementary-graph resolution: (A5) SupDSG.resolve runs the mappings only '
    'after the final-and-feasible test of the source and returns only after the finality test of the result; '
    'initialize_choices reaches the base initialisation only after the duplicate and the unmapped tests; '
    'add_mapping initialises a mapping before registering it; (A6, provenance) the option applied by both mapping '
    'kinds is a value of the mapping - mapping[None] on the inactive side of the originating-node test, the '
    'entry of the single selected source option otherwise; an existence mapping takes the first existing source '
    'node in declaration order (break right after the assignment) and mapping[None] otherwise; (A12) every '
    'mapping class implements resolve; (A4) the selected source option is read over DERIVES edges only; (A10d) no iteration over a mapping that may '
    'hold the None (inactive) entry dereferences its keys without excluding None (finding F16, repaired); (A6u) '
    'existence of a source node is decided against all nodes of the source architecture.'
    ' (A6) the option mapping keeps every originating node of the source choice (F26).')


def resolve_shape(ctx, rule='A5'):
    fn = ctx.fn(f'{SUP}:SupDSG.resolve')
    cfg = build_cfg(fn)
    src = fn.params[1]
    loops = [n for n in cfg.nodes if n.kind == 'for']
    if not loops:
        raise AnalysisError('SupDSG.resolve: mapping loop not found')

    def final_feasible(atom, truth):
        return truth is True and isinstance(atom, ast.Attribute) and norm(atom.value) == src and \
            atom.attr in ('final', 'feasible')
    ge_final = cfg.edges_implying(lambda a, t: final_feasible(a, t) and a.attr == 'final')
    ge_feas = cfg.edges_implying(lambda a, t: final_feasible(a, t) and a.attr == 'feasible')
    for nm, ge in (('final', ge_final), ('feasible', ge_feas)):
        ok = bool(ge) and not cfg.can_reach(cfg.entry, loops[0], blocked_edges=ge)
        ctx.ob(rule, fkey(fn, rule, f'source-{nm}-required'), ok, fn.where,
               f'the mappings are resolved only for a source graph that is {nm} (otherwise an error is raised)',
               f'{len(ge)} guard edge(s)')
    rets = guards.return_nodes(cfg)
    if not rets:
        raise AnalysisError('SupDSG.resolve: no return')
    res = norm(rets[0].ast.value)
    guards.check_guarded(ctx, rule, fn, rets,
                         lambda atom, truth: truth is True and isinstance(atom, ast.Attribute) and
                         atom.attr == 'final' and norm(atom.value) == res, {res}, 'result-final-required',
                         'the resolved supplementary graph is returned only if it is final (no choice left); '
                         'otherwise an error is raised')
    # the loop applies every mapping whose choice node is still in the graph, threading the graph through
    body = ' '.join(norm(s) for s in loops[0].ast.body)
    # (decided on the CFG: the threading statement `res = <mapping>.resolve(res, <choice node>, src)` inside the loop is
    # reached only over an edge on which `<choice node> in res.graph.nodes` holds - if/else, guard clause + continue)
    steps = [n for n in cfg.nodes if n.kind == 'stmt' and isinstance(n.ast, ast.Assign) and
             any(n.ast is x for st_ in loops[0].ast.body for x in ast.walk(st_)) and
             norm(n.ast.targets[0]) == res and isinstance(n.ast.value, ast.Call) and
             call_name(n.ast.value) == 'resolve' and len(n.ast.value.args) == 3 and
             norm(n.ast.value.args[0]) == res and norm(n.ast.value.args[2]) == src]
    ok = False
    if len(steps) == 1:
        cn = norm(steps[0].ast.value.args[1])
        ge_in = cfg.edges_implying(lambda a, t: _in_fact(a, t, cn, f'{res}.graph.nodes'))
        ok = bool(ge_in) and not cfg.can_reach(loops[0], steps[0], blocked_edges=ge_in) and \
            'self.choice_mappings' in norm(loops[0].ast.iter)
    ctx.ob(rule, fkey(fn, rule, 'mappings-threaded'), ok, fn.where,
           'every registered mapping whose choice node is still present is resolved against the graph produced by '
           'the previous mapping', body[:140])


def _in_fact(atom, truth, lhs, container):
    """the fact `lhs in container`, whichever way the test is written"""
    if not (isinstance(atom, ast.Compare) and len(atom.ops) == 1 and norm(atom.left) == lhs and
            norm(atom.comparators[0]) == container):
        return False
    return (isinstance(atom.ops[0], ast.In) and truth is True) or (isinstance(atom.ops[0], ast.NotIn) and truth is False)


def init_shape(ctx, rule='A5'):
    fn = ctx.fn(f'{SUP}:SupDSG.initialize_choices')
    # checks moved into a void private helper are seen in place
    cfg = build_cfg(inlined_view(ctx.prog, fn))
    sup = guards.call_nodes(cfg, 'initialize_choices', pred=lambda c: 'super()' in norm(c.func))
    if not sup:
        raise AnalysisError('SupDSG.initialize_choices: super call not found')
    # tests whose true side always ends in a raise (directly, or after preparing the message)
    tests = [n for n in cfg.nodes if n.kind == 'test' and [m for m, lab in n.succ if lab == 'T'] and
             cfg.exit.id not in cfg.reachable([m for m, lab in n.succ if lab == 'T'], labels_excluded=('exc',))]
    view = inlined_view(ctx.prog, fn)
    unit = unit_functions(ctx.prog, fn)
    # which raising test is the duplicate test / the unmapped test is decided by what the tested value is computed from
    # (locals read through), not by its name:
    #   duplicates - a list filled inside a loop over the registered mappings, or len(set(L)) against len(L) for a list
    #   L of the mapped choice nodes;  unmapped - a set difference `set(self.choice_nodes) - <mapped>`
    appended = {norm(c.func.value) for u in unit for lp in ast.walk(u.node)
                if isinstance(lp, ast.For) and norm(lp.iter) == 'self._choice_mappings'
                for c in ast.walk(lp) if isinstance(c, ast.Call) and call_name(c) == 'append' and
                isinstance(c.func, ast.Attribute)}
    # results of a helper spliced in / handed on: `a, b = x, y`
    for a_ in walk_fn(view):
        if isinstance(a_, ast.Assign) and isinstance(a_.targets[0], ast.Tuple) and isinstance(a_.value, ast.Tuple):
            for t_, v_ in zip(a_.targets[0].elts, a_.value.elts):
                if norm(v_) in appended:
                    appended.add(norm(t_))

    def expanded(t):
        return norm(expand_locals(view, t.ast))
    unm = [t for t in tests if 'set(self.choice_nodes) - ' in expanded(t)]
    # transitive dependencies of the locals of the (inlined) function: assignment, augmented assignment, mutation by a
    # method call (append / add / setdefault / update / item store), inside loops also on the loop's iterable
    dep = {}

    def srcs(e):
        out = {x.id for x in ast.walk(e) if isinstance(x, ast.Name)}
        if '_choice_mappings' in norm(e):
            out.add('#mappings')
        if 'self.choice_nodes' in norm(e):
            out.add('#all-choices')
        return out

    def visit(stmts, ctx_src):
        for st in stmts:
            if isinstance(st, (ast.For, ast.While)):
                it = srcs(st.iter) if isinstance(st, ast.For) else srcs(st.test)
                if isinstance(st, ast.For):
                    for x in ast.walk(st.target):
                        if isinstance(x, ast.Name):
                            dep.setdefault(x.id, set()).update(it | ctx_src)
                visit(st.body + st.orelse, ctx_src | it)
                continue
            if isinstance(st, ast.If):
                visit(st.body + st.orelse, ctx_src | srcs(st.test))
                continue
            tg = []
            if isinstance(st, (ast.Assign, ast.AnnAssign, ast.AugAssign)) and getattr(st, 'value', None) is not None:
                for t_ in (st.targets if isinstance(st, ast.Assign) else [st.target]):
                    base = t_
                    while isinstance(base, (ast.Subscript, ast.Attribute)):
                        base = base.value
                    tg += [x.id for x in ast.walk(base) if isinstance(x, ast.Name)] if not isinstance(t_, ast.Tuple) \
                        else [x.id for x in ast.walk(t_) if isinstance(x, ast.Name)]
                s_ = srcs(st.value)
            elif isinstance(st, ast.Expr) and isinstance(st.value, ast.Call) and \
                    isinstance(st.value.func, ast.Attribute) and isinstance(st.value.func.value, ast.Name) and \
                    st.value.func.attr in ('append', 'add', 'setdefault', 'update', 'extend', 'insert'):
                tg = [st.value.func.value.id]
                s_ = set().union(*[srcs(a_) for a_ in st.value.args]) if st.value.args else set()
            else:
                continue
            for n_ in tg:
                dep.setdefault(n_, set()).update(s_ | ctx_src)
    for _ in range(4):
        visit(view.node.body, set())
        for k_ in list(dep):
            for d_ in list(dep[k_]):
                dep[k_] |= dep.get(d_, set())

    def depends(t, marker):
        names = {x.id for x in ast.walk(t.ast) if isinstance(x, ast.Name)}
        return marker in srcs(t.ast) or any(marker in dep.get(n_, ()) for n_ in names)
    # the duplicate test is the raising test that is computed from the registered mappings only (the unmapped test
    # also needs the choice nodes of the graph)
    dup = [t for t in tests if t not in unm and depends(t, '#mappings') and not depends(t, '#all-choices')]
    for nm, ts in (('duplicate', dup), ('unmapped', unm)):
        ok = bool(ts) and not cfg.can_reach(cfg.entry, sup[0], blocked_nodes=ts)
        ctx.ob(rule, fkey(fn, rule, f'{nm}-rejected-before-init'), ok, fn.where,
               f'the base initialisation runs only after the {nm}-mapping test (which raises)',
               short(ts[0].ast) if ts else 'test missing')
    # a choice is a duplicate when the *choice node* was mapped before - whatever object maps it
    lps = [n for u in unit for n in build_cfg(u).nodes
           if n.kind == 'for' and norm(n.ast.iter) == 'self._choice_mappings']
    comps = [c for u in unit for c in ast.walk(u.node) if isinstance(c, (ast.ListComp, ast.SetComp, ast.GeneratorExp))
             and len(c.generators) == 1 and norm(c.generators[0].iter) == 'self._choice_mappings']
    if not lps and not comps:
        raise AnalysisError('initialize_choices: scan over the registered mappings not found')
    if lps:
        tg = lps[0].ast.target
        if isinstance(tg, ast.Tuple) and isinstance(tg.elts[0], ast.Name):
            accepted = {tg.elts[0].id}
        elif isinstance(tg, ast.Name):
            accepted = {f'{tg.id}[0]'}
        else:
            raise AnalysisError('initialize_choices: unrecognised loop target over the registered mappings')
        mem = [x for st in lps[0].ast.body for x in ast.walk(st) if isinstance(x, ast.Compare) and len(x.ops) == 1 and
               isinstance(x.ops[0], (ast.In, ast.NotIn))]
        ok = bool(mem) and all(norm(x.left) in accepted for x in mem)
        where_, detail = f'{fn.module.relpath}:{lps[0].lineno}', \
            '; '.join(short(x) for x in mem) or 'no membership test in the loop'
    else:
        # the list of mapped choice nodes (first element of every registered pair) compared with its own set
        tg = comps[0].generators[0].target
        first = norm(tg.elts[0]) if isinstance(tg, ast.Tuple) else f'{norm(tg)}[0]'
        ok = norm(comps[0].elt) == first and bool(dup)
        where_, detail = f'{fn.module.relpath}:{comps[0].lineno}', short(comps[0])
    ctx.ob(rule, fkey(fn, rule, 'duplicate-keyed-by-choice-node'), ok, where_,
           'whether a supplementary choice is mapped twice is decided by looking up the choice node itself among '
           'the choice nodes seen so far (two different mapping objects for one choice are a duplicate)', detail)
    ok = bool(unm)
    ctx.ob(rule, fkey(fn, rule, 'unmapped-is-set-difference'), ok, fn.where,
           'the unmapped choices are all choice nodes of the supplementary graph minus the mapped ones', '')
    if unm:
        diff_names = {x.id for x in ast.walk(unm[0].ast) if isinstance(x, ast.Name) and
                      'set(self.choice_nodes) - ' in norm(expand_locals(view, x))}
        e = intcmp.emptiness(unm[0].ast, lambda x: (isinstance(x, ast.Name) and x.id in diff_names) or
                             'set(self.choice_nodes) - ' in norm(x))
        ctx.ob(rule, fkey(fn, rule, 'unmapped-test-nonempty'), e == 'nonempty', fn.where,
               'the unmapped test fires iff the set of unmapped choices is non-empty', short(unm[0].ast))
    add = ctx.fn(f'{SUP}:SupDSG.add_mapping')
    cfga = build_cfg(add)
    reg = guards.call_nodes(cfga, 'append', pred=lambda c: '_choice_mappings' in norm(c.func))
    ini = guards.call_nodes(cfga, 'initialize')
    if not reg:
        raise AnalysisError('add_mapping: registration not found')
    guards.check_passes(ctx, rule, add, reg, ini, 'initialised-before-registered',
                        'a mapping is registered only after its initialize() ran (which validates it against both '
                        'graphs and raises on incomplete mappings)')
    tests = [n for n in cfga.nodes if n.kind == 'test' and 'not in self.graph.nodes' in norm(n.ast)]
    ok = bool(tests) and not cfga.can_reach(cfga.entry, reg[0], blocked_nodes=tests)
    ctx.ob(rule, fkey(add, rule, 'choice-node-must-exist'), ok, add.where,
           'a mapping for a choice node that is not in the supplementary graph is rejected', '')


def _existence_scan_loop(ctx, rule, fe, cfge, loops):
    loops = [n for n in cfge.nodes if n.kind == 'for']
    ok = bool(loops) and norm(loops[0].ast.iter) == 'self._mapping.items()'
    ctx.ob(rule, fkey(fe, rule, 'declaration-order'), ok, fe.where,
           'the existence mapping is scanned in declaration order of the mapping', norm(loops[0].ast.iter) if loops
           else 'missing')
    assigns = [n for n in cfge.nodes if n.kind == 'stmt' and isinstance(n.ast, ast.Assign) and
               norm(n.ast.targets[0]) == 'sup_tgt_option_node' and norm(n.ast.value) == 'sup_option_node']
    ok = bool(assigns) and all(any(m.kind == 'stmt' and isinstance(m.ast, ast.Break) for m, _ in a.succ)
                               for a in assigns)
    ctx.ob(rule, fkey(fe, rule, 'first-hit-wins'), ok, fe.where,
           'the first existing source node decides: the scan breaks right after the assignment', '')
    if assigns:
        guards.check_guarded(ctx, rule, fe, assigns,
                             lambda atom, truth: isinstance(atom, ast.Compare) and len(atom.ops) == 1 and
                             ((isinstance(atom.ops[0], ast.In) and truth is True) or
                              (isinstance(atom.ops[0], ast.NotIn) and truth is False)) and
                             'str_context()' in norm(atom.left) and
                             norm(atom.comparators[0]) == 'src_nodes', set(), 'hit-iff-node-exists',
                             'an option is taken from the scan only under the test that its source node exists in '
                             'the source architecture')
    skip = [n for n in cfge.nodes if n.kind == 'test' and norm(n.ast) == 'src_node is None']
    ok = bool(skip) and any(m.kind == 'stmt' and isinstance(m.ast, ast.Continue) for m, lab in skip[0].succ if lab == 'T')
    ctx.ob(rule, fkey(fe, rule, 'none-key-skipped-in-scan'), ok, fe.where,
           'the None key is skipped during the scan (it is the fallback, not a source node)', '')


def _option_mapping_by_interpretation(ctx, rule, fn):
    """SupSelChoiceOptionMapping.resolve interpreted abstractly (rules/absint.py): every returning path applies an
    option; which option, and under which assumptions, is read off the terms - whether the code uses if/else or
    guard clauses with early returns, list(...)[0] or tuple unpacking, .keys() or the mapping itself."""
    from ..rules import absint
    T = absint._t
    helpers = {h.name: h for h in unit_functions(ctx.prog, fn)[1:]}
    paths = absint.Interp(fn, helpers).run()
    M = ('attr', ('name', 'self'), '_mapping')
    def is_orig(x):
        # the attribute of the mapping that holds the originating node(s) of the source choice
        return isinstance(x, tuple) and len(x) == 3 and x[0] == 'attr' and x[1] == ('name', 'self') and \
            isinstance(x[2], str) and 'originating' in x[2]

    def is_exists(t):
        # `<originating node>.str_context() in <context strings of the source architecture>`
        return isinstance(t, tuple) and len(t) == 3 and t[0] == 'in' and isinstance(t[1], tuple) and \
            len(t[1]) == 3 and t[1][0] == 'call' and isinstance(t[1][1], tuple) and len(t[1][1]) == 3 and \
            t[1][1][0] == 'attr' and t[1][1][2] == 'str_context' and bool(absint.find(t[1][1][1], is_orig))

    def assumed_exists(q):
        for t, v in q.conds:
            if is_exists(t):
                return v
            # `next(<originating nodes that exist in the source architecture>, None) is None`: no originating node
            # exists (the choice was inactive); its negation: some originating node exists
            if isinstance(t, tuple) and t[0] == 'is' and t[2] is None and isinstance(t[1], tuple) and \
                    t[1][:2] == ('call', ('name', 'next')) and len(t[1][2]) == 2 and t[1][2][1] is None and \
                    absint.find(t[1][2][0], is_exists):
                return not v
        return None
    rets = [q for q in paths if q.outcome[0] == 'return']
    if not rets:
        raise AnalysisError('SupSelChoiceOptionMapping.resolve: no returning path')
    ok_from = ok_none_side = ok_one = ok_sel = True
    n_none = n_sel = 0
    det = []
    for q in rets:
        t = T(q.outcome[1])
        if not (isinstance(t, tuple) and t[0] == 'call' and t[1][0] == 'attr' and
                t[1][2] == 'get_for_apply_selection_choice' and len(t[2]) >= 2):
            raise AnalysisError(f'SupSelChoiceOptionMapping.resolve: unrecognised result {absint.fmt(t)[:100]}')
        opt = t[2][1]
        ex = assumed_exists(q)
        det.append(f'{"active" if ex else "inactive" if ex is False else "?"}: {absint.fmt(opt)[:90]}')
        if opt == ('index', M, None):
            n_none += 1
            ok_none_side &= ex is False
            continue
        # index(<dict comprehension over the mapping items: context string of the key -> value>, <context string of
        # the selected source option>)
        good = isinstance(opt, tuple) and opt[0] == 'index' and isinstance(opt[1], tuple) and opt[1][0] == 'dictcomp'
        if good:
            _, k, v, it = opt[1][:4]
            el = ('elem', it)
            good = it == ('call', ('attr', M, 'items'), ()) and v == el + (1,) and \
                k == ('call', ('attr', el + (0,), 'str_context'), ())
        key = opt[2] if good else None
        good = good and isinstance(key, tuple) and key[0] == 'call' and key[1][0] == 'attr' and \
            key[1][2] == 'str_context'
        if not good:
            ok_from = False
            continue
        n_sel += 1
        ok_none_side &= ex is True
        sel = key[1][1]
        inter = absint.find(sel, lambda x: len(x) == 4 and x[0] == 'binop' and x[1] == 'BitAnd')
        keys_forms = (('call', ('name', 'set'), (M,)), ('call', ('name', 'set'), (('call', ('attr', M, 'keys'), ()),)))
        good_sel = False
        for b_ in inter:
            ops = [b_[2], b_[3]]
            ks = [o for o in ops if o in keys_forms]
            outs = [o for o in ops if isinstance(o, tuple) and o[0] == 'setcomp' and absint.find(o, is_orig) and
                    absint.find(o, lambda x: x[:1] == ('call',) and x[1] == ('name', 'iter_out_edges'))]
            if ks and outs:
                good_sel = True
                # exactly one: the path assumes len(<that set>) == 1
                one = [v_ for t_, v_ in q.conds if t_ == ('eq', ('call', ('name', 'len'), (b_,)), 1)]
                ok_one &= bool(one) and one[0] is True
        ok_sel &= good_sel
    ctx.ob(rule, fkey(fn, rule, 'applied-option-from-mapping'), ok_from and n_none >= 1 and n_sel >= 1, fn.where,
           'the applied option is mapping[None] or the mapping entry (looked up by context string) of the selected '
           'source option - never anything else', '; '.join(det))
    ctx.ob(rule, fkey(fn, rule, 'none-entry-only-if-inactive'), ok_none_side, fn.where,
           'mapping[None] is used exactly when the originating node of the source choice is absent from the source '
           'architecture (choice inactive), the selected option\'s entry exactly when it is present', '; '.join(det))
    ctx.ob(rule, fkey(fn, rule, 'exactly-one-selected'), ok_one and n_sel >= 1, fn.where,
           'the mapping entry is used only when exactly one mapped source option is wired to the originating '
           'node (otherwise an error is raised)', '')
    ctx.ob(rule, fkey(fn, rule, 'selected-is-mapped-out-neighbour'), ok_sel and n_sel >= 1, fn.where,
           'the selected source option is an out-neighbour of the originating node that is a key of the mapping', '')
    # a source choice may be derived by several nodes (the selected option is wired to each of them): what the mapping
    # remembers of them at initialisation is all of them, not one picked by position - otherwise a choice that is
    # active through another originating node is taken for inactive (F26)
    init = ctx.prog.find_method(fn.owner_class, 'initialize')
    kept = []
    if init is not None:
        for u_ in unit_functions(ctx.prog, init):
            for a_ in walk_fn(u_):
                if isinstance(a_, ast.Assign) and is_self_attr(a_.targets[0]) and 'originating' in a_.targets[0].attr:
                    v_ = expand_locals(u_, a_.value, 2)
                    if any(isinstance(c_, ast.Call) and call_name(c_) == 'iter_in_edges' for c_ in ast.walk(v_)):
                        kept.append((u_, a_, v_))
    if not kept:
        raise AnalysisError('SupSelChoiceOptionMapping.initialize: the originating node(s) of the source choice are '
                            'not taken from its in-edges')
    for u_, a_, v_ in kept:
        def has_in_edges(e_):
            return any(isinstance(c_, ast.Call) and call_name(c_) == 'iter_in_edges' for c_ in ast.walk(e_))
        # a selection by position from the collection of in-edge sources (`[...][0]`, `[...][:1]`, `next(...)`)
        one = any((isinstance(x_, ast.Subscript) and has_in_edges(x_.value) and
                   not (isinstance(x_.value, ast.Name))) or
                  (isinstance(x_, ast.Call) and call_name(x_) == 'next' and x_.args and has_in_edges(x_.args[0]))
                  for x_ in ast.walk(v_))
        ctx.ob(rule, fkey(fn, rule, 'every-originating-node-kept'), not one, f'{u_.module.relpath}:{a_.lineno}',
               'the mapping keeps every node that derives the source choice (a choice with several originating nodes '
               'is active when any of them exists)', short(a_, 100))
    # every path that does not return raises the resolve error
    others = [q for q in paths if q.outcome[0] != 'return']
    ok = all(q.outcome[0] == 'raise' for q in others)
    ctx.ob(rule, fkey(fn, rule, 'otherwise-error'), ok, fn.where,
           'every other path (no None entry for an inactive choice, not exactly one selected option) raises', '')


def option_provenance(ctx, rule='A6'):
    # option mapping
    fn = ctx.fn(f'{SUP}:SupSelChoiceOptionMapping.resolve')
    _option_mapping_by_interpretation(ctx, rule, fn)
    # existence mapping
    fe = ctx.fn(f'{SUP}:SupExistenceMapping.resolve')
    cfge = build_cfg(fe)
    loops = [n for n in cfge.nodes if n.kind == 'for']
    # the scan is either a loop with break or `next(<generator over the mapping items with the tests>, None)`
    nexts = []
    for c in calls(fe, 'next'):
        if isinstance(c.func, ast.Name) and c.args:
            g = c.args[0]
            if isinstance(g, ast.Name):
                ds = [a_.value for a_ in walk_fn(fe) if isinstance(a_, ast.Assign) and norm(a_.targets[0]) == g.id]
                g = ds[0] if len(ds) == 1 else g
            if isinstance(g, ast.GeneratorExp) and len(g.generators) == 1:
                nexts.append((c, g))
    if not loops and nexts:
        c, g = nexts[0]
        gen = g.generators[0]
        ok = norm(expand_locals(fe, gen.iter, 2)) == 'self._mapping.items()'
        ctx.ob(rule, fkey(fe, rule, 'declaration-order'), ok, fe.where,
               'the existence mapping is scanned in declaration order of the mapping', norm(gen.iter))
        kv = [norm(e) for e in gen.target.elts] if isinstance(gen.target, ast.Tuple) else []
        ok = len(kv) == 2 and norm(g.elt) == kv[1] and len(c.args) == 2 and \
            isinstance(c.args[1], ast.Constant) and c.args[1].value is None
        ctx.ob(rule, fkey(fe, rule, 'first-hit-wins'), ok, fe.where,
               'the first existing source node decides: next() over the lazily filtered items, None when there is '
               'no hit', short(c, 100))
        conds = [a_ for i_ in gen.ifs for a_ in (i_.values if isinstance(i_, ast.BoolOp) and
                                                 isinstance(i_.op, ast.And) else [i_])]
        ex = [x for x in conds if isinstance(x, ast.Compare) and len(x.ops) == 1 and isinstance(x.ops[0], ast.In) and
              kv and norm(x.left) == f'{kv[0]}.str_context()' and norm(x.comparators[0]) == 'src_nodes']
        ctx.ob(rule, fkey(fe, rule, 'hit-iff-node-exists'), bool(ex), fe.where,
               'an option is taken from the scan only under the test that its source node exists in the source '
               'architecture', '; '.join(norm(x) for x in conds))
        nn = [i for i, x in enumerate(conds) if kv and none_test(x) == ('not_none', kv[0])]
        ok = bool(nn) and bool(ex) and nn[0] < conds.index(ex[0])
        ctx.ob(rule, fkey(fe, rule, 'none-key-skipped-in-scan'), ok, fe.where,
               'the None key is skipped during the scan (it is the fallback, not a source node)', '')
    else:
        _existence_scan_loop(ctx, rule, fe, cfge, loops)
    fb = [n for n in cfge.nodes if n.kind == 'stmt' and isinstance(n.ast, ast.Assign) and
          norm(expand_locals(fe, n.ast.value, 2)) == 'self._mapping[None]']
    ok = bool(fb)
    if ok:
        ok = any(p.kind == 'test' and lab == 'T' and norm(p.ast) == 'sup_tgt_option_node is None'
                 for p, lab in fb[0].pred)
    ctx.ob(rule, fkey(fe, rule, 'none-entry-iff-no-hit'), ok, fe.where,
           'mapping[None] is used exactly when no source node of the mapping exists', '')
    # initialisation completeness checks: both initialize() methods interpreted abstractly; every validation is a
    # path that raises SupInitializationError under an assumption, and the path that finishes assumes its negation
    from ..rules import absint
    M = ('attr', ('name', 'self'), '_mapping')

    def init_paths(fn_):
        helpers = {h.name: h for h in unit_functions(ctx.prog, fn_)[1:]}
        paths = absint.Interp(fn_, helpers).run()
        raising = [q for q in paths if q.outcome[0] == 'raise' and 'SupInitializationError' in (q.outcome[1] or '')]
        done = [q for q in paths if q.outcome[0] in ('fall', 'return')]
        if not done:
            raise AnalysisError(f'{fn_.qualname}: no path completes the initialisation')
        return raising, done

    def nonempty_of(c, v):
        """D when the assumption (c, v) says "collection D is not empty", else None."""
        if isinstance(c, tuple) and c[0] in ('gt', 'eq') and isinstance(c[1], tuple) and c[1][0] == 'call' and \
                c[1][1] == ('name', 'len') and c[2] == 0 and len(c[1][2]) == 1:
            if (c[0] == 'gt' and v) or (c[0] == 'eq' and not v):
                return c[1][2][0]
            return None
        if isinstance(c, tuple) and c[0] == 'binop' and v:
            return c
        return None

    def validation(raising, done, pred, what):
        """Some raising path ends in an assumption recognised by pred, and every completing path assumes the
        opposite."""
        hit = [(q.conds[-1]) for q in raising if q.conds and pred(*q.conds[-1])]
        if not hit:
            return False, f'no path raises SupInitializationError under "{what}"'
        c0 = hit[0][0]
        ok_ = all(any(c == c0 and v != hit[0][1] for c, v in q.conds) for q in done)
        return ok_, f'raises under {absint.fmt(c0)[:90]} = {hit[0][1]}'

    def is_diff(d, left_pred, right_pred):
        return isinstance(d, tuple) and d[:2] == ('binop', 'Sub') and left_pred(d[2]) and right_pred(d[3])

    def has_call(t, name):
        return bool(absint.find(t, lambda x: x[:1] == ('call',) and isinstance(x[1], tuple) and x[1][0] == 'attr' and
                                x[1][2] == name))
    fi = ctx.fn(f'{SUP}:SupSelChoiceOptionMapping.initialize')
    raising, done = init_paths(fi)
    src_p, sup_p = fi.params[3], fi.params[1]

    def keys_without_none(t):
        # the mapping keys with the None key left out (set comprehension over the keys with an `is not None` filter)
        return absint.contains(t, M) and bool(absint.find(t, lambda x: x[:1] == ('setcomp',) and any(
            isinstance(c, tuple) and c[0] == 'not' and isinstance(c[1], tuple) and c[1][0] == 'is' and c[1][2] is None
            for c in x[3:])))
    checks = (
        ('all-source-options-mapped', 'every option of the source choice must be a key of the mapping',
         lambda c, v: (d := nonempty_of(c, v)) is not None and is_diff(
             d, lambda l: has_call(l, 'get_option_nodes') and absint.contains(l, ('name', src_p)), keys_without_none)),
        ('none-required-if-conditional', 'a source choice that can be inactive requires the None entry',
         lambda c, v: v and isinstance(c, tuple) and c[0] == 'and' and has_call(c, 'has_conditional_existence') and
         bool(absint.find(c, lambda x: x == ('not', ('in', None, M))))),
        ('targets-are-options', 'every mapping value must be an option of the supplementary choice',
         lambda c, v: (d := nonempty_of(c, v)) is not None and is_diff(
             d, lambda l: l == ('call', ('name', 'set'), (('call', ('attr', M, 'values'), ()),)),
             lambda r: has_call(r, 'get_option_nodes') and absint.contains(r, ('name', sup_p)))))
    for nm, desc, pred in checks:
        ok, detail = validation(raising, done, pred, desc)
        ctx.ob(rule, fkey(fi, rule, nm), ok, fi.where, desc + ' (raises SupInitializationError otherwise)', detail)
    fx = ctx.fn(f'{SUP}:SupExistenceMapping.initialize')
    raising, done = init_paths(fx)
    ok, detail = validation(raising, done, lambda c, v: c == ('in', None, M) and v is False,
                            'None is not a key of the mapping')
    ctx.ob(rule, fkey(fx, rule, 'existence-none-required'), ok, fx.where,
           'an existence mapping without the None entry is rejected', detail)


def existence_universe(ctx, rule='A6u'):
    """Both mapping kinds decide "the source node exists" against *all* nodes of the source architecture."""
    for key in (f'{SUP}:SupSelChoiceOptionMapping.resolve', f'{SUP}:SupExistenceMapping.resolve'):
        fn0 = ctx.fn(key)
        # the test may live in a private helper that is handed the source graph
        found = None
        for u in unit_functions(ctx.prog, fn0):
            ts = [c for c in ast.walk(u.node) if isinstance(c, ast.Compare) and len(c.ops) == 1 and
                  isinstance(c.ops[0], (ast.In, ast.NotIn)) and 'str_context()' in norm(c.left) and
                  isinstance(c.comparators[0], ast.Name)]
            if ts:
                found = (u, ts)
                break
        if found is None:
            raise AnalysisError(f'{key}: existence test not found')
        fn, tests = found
        src = fn0.params[3]
        if fn is not fn0:
            cs = [c for c in calls(fn0) if call_name(c) == fn.name]
            hp = [q for q in fn.params if q not in ('self', 'cls')]
            bound = [q for q, a in zip(hp, cs[0].args) if norm(a) == src] if cs else []
            bound += [k.arg for k in (cs[0].keywords if cs else []) if norm(k.value) == src]
            if not bound:
                raise AnalysisError(f'{key}: the helper with the existence test is not handed the source graph')
            src = bound[0]
        setname = tests[0].comparators[0].id
        defs = [a for a in walk_fn(fn) if isinstance(a, ast.Assign) and norm(a.targets[0]) == setname]
        ok = False
        detail = 'definition of the existing-node set not found'
        if defs and isinstance(defs[0].value, (ast.SetComp, ast.ListComp, ast.GeneratorExp)):
            gen = defs[0].value.generators[0]
            it = norm(gen.iter)
            ok = it == f'{src}.graph.nodes'
            # an isinstance filter may only name the common base class of all nodes
            for cond in gen.ifs:
                if isinstance(cond, ast.Call) and norm(cond.func) == 'isinstance' and norm(cond.args[1]) != 'DSGNode':
                    ok = False
            detail = f'{setname} iterates over `{it}`' + (f' filtered by {[norm(c) for c in gen.ifs]}' if gen.ifs else '')
        ctx.ob(rule, fkey(fn, rule, 'existence-against-all-nodes'), ok, fn.where,
               'a source node "exists" iff it is among *all* nodes of the source architecture (whatever its class): '
               'the set it is looked up in iterates over <source>.graph.nodes, at most filtered by the common base '
               'class DSGNode', detail)


def abstract_complete(ctx, rule='A12'):
    base = ctx.prog.cls(f'{SUP}:SupChoiceMapping')
    for c in ctx.prog.subclasses(base):
        m = ctx.prog.find_method(c, 'resolve')
        ok = m is not None and m.cls is not base
        ctx.ob(rule, f'{c.key}:A12:resolve', ok, c.where, 'every mapping class implements resolve()',
               f'resolved to {m.key if m else None}')
    sup = ctx.prog.cls(f'{SUP}:SupDSG')
    for nm in ('constrain_choices', 'add_incompatibility_constraint'):
        m = sup.methods.get(nm)
        ok = m is not None and any(isinstance(s, ast.Raise) for s in m.body)
        ctx.ob(rule, f'{sup.key}:A12:{nm}-unsupported', ok, sup.where,
               f'{nm} is explicitly unsupported on a supplementary graph (raises) - its resolution does not model '
               f'them', '')


def sup_node_identity(ctx, rule='A8n'):
    """Documented contract of SupNode: nodes are the same node iff name and repr(ref) agree.  The identity string
    therefore embeds the reference through repr (`{ref!r}` / repr(ref)), never through str (1 and '1' would be one
    node, and two options of a mapped choice would collapse into one)."""
    fn = ctx.fn('adsg_core.graph.sup.nodes:SupNode._get_obj_id')
    if len(fn.params) < 3:
        raise AnalysisError('SupNode._get_obj_id: signature changed')
    ref = fn.params[2]
    uses = []
    parents = {}
    for p in ast.walk(fn.node):
        for ch in ast.iter_child_nodes(p):
            parents[id(ch)] = p
    for x in ast.walk(fn.node):
        if isinstance(x, ast.Name) and x.id == ref and isinstance(x.ctx, ast.Load):
            par = parents.get(id(x))
            if isinstance(par, ast.FormattedValue):
                uses.append((x, par.conversion == 114 and par.format_spec is None))
            elif isinstance(par, ast.Call) and call_name(par) == 'repr':
                uses.append((x, True))
            else:
                uses.append((x, False))
    ok = bool(uses) and all(good for _, good in uses)
    ctx.ob(rule, fkey(fn, rule, 'identity-embeds-repr-of-ref'), ok, fn.where,
           'the node identity embeds repr(ref): references of different type with the same str() stay different nodes',
           short(fn.body[-1], 80))


def apply_and_mapping_order(ctx, rule='A5'):
    """(i) SupDSG.resolve applies the mapped choices in the order the mappings were registered, also choices that are
    not active yet (a nested choice whose mapping was added first): the apply operation it goes through must not demand
    that the choice is active.  (ii) The order of the entries of an existence mapping is its priority ("first existing
    source node"): the mapping dictionary is only ever stored in declaration order - by the constructor, or rebuilt
    by iterating the mapping itself."""
    ap = ctx.fn(f'{DSG}.get_for_apply_selection_choice')
    bad = []
    for u in unit_functions(ctx.prog, ap):
        cfg = build_cfg(u)
        for t in cfg.nodes:
            if t.kind != 'test' or not any(w in norm(t.ast) for w in ('get_ordered_next_choice_nodes',
                                                                     'get_next_choice_nodes')):
                continue
            for lab in ('T', 'F'):
                succ = [m for m, l2 in t.succ if l2 == lab]
                if succ and cfg.exit.id not in cfg.reachable(succ, labels_excluded=('exc',)):
                    bad.append((u, t))
    ctx.ob(rule, fkey(ap, rule, 'apply-does-not-require-active-choice'), not bad, ap.where,
           'applying a selection choice is not refused because the choice is not active yet (the supplementary graph '
           'resolves mapped choices in registration order, nested ones possibly before their parent)',
           'no activeness precondition' if not bad else
           f'{bad[0][0].qualname} L{bad[0][1].lineno}: `{short(bad[0][1].ast, 70)}` leads to a raise')
    for cname in ('SupExistenceMapping', 'SupSelChoiceOptionMapping'):
        cls = ctx.prog.cls(f'{SUP}:{cname}')
        for m in cls.methods.values():
            if m.name == '__init__':
                continue
            for a in walk_fn(m):
                if not (isinstance(a, ast.Assign) and any(is_self_attr(t, '_mapping') for t in a.targets)):
                    continue
                v = expand_locals(m, a.value, depth=2)
                ok = isinstance(v, (ast.DictComp,)) and 'self._mapping' in norm(v.generators[0].iter)
                ok = ok or (isinstance(v, ast.Call) and call_name(v) in ('dict', 'copy') and 'self._mapping' in norm(v))
                ctx.ob(rule, fkey(m, rule, f'mapping-order-is-declaration-order:{cname}'), ok,
                       f'{m.module.relpath}:{a.lineno}',
                       'the mapping dictionary is re-stored only in its own (declaration) order, which is the priority '
                       'order of the entries', short(a, 100))
    c0 = ctx.prog.cls(f'{SUP}:SupExistenceMapping')
    init = c0.methods.get('__init__')
    ok = init is not None and any(isinstance(a, ast.Assign) and any(is_self_attr(t, '_mapping') for t in a.targets) and
                                  isinstance(a.value, ast.Name) and a.value.id in init.params for a in walk_fn(init))
    ctx.ob(rule, fkey(init, rule, 'mapping-stored-as-given') if init else f'{c0.key}:init', ok, c0.where,
           'the constructor stores the mapping as given (declaration order = priority order)', '')


def _fresh_container(e):
    """An expression that builds a new list from an existing one (so the result is never the same object)."""
    if isinstance(e, (ast.List, ast.ListComp)):
        return True
    if isinstance(e, ast.Call):
        nm = call_name(e) or ''
        if nm in ('list', 'copy.copy', 'copy', 'sorted') and e.args:
            return True
        if isinstance(e.func, ast.Attribute) and e.func.attr == 'copy' and not e.args:
            return True
    if isinstance(e, ast.Subscript) and isinstance(e.slice, ast.Slice) and e.slice.lower is None and \
            e.slice.upper is None and e.slice.step is None:
        return True
    if isinstance(e, ast.BinOp) and isinstance(e.op, ast.Add):
        return _fresh_container(e.left) or _fresh_container(e.right)
    return False


def derived_graph_owns_mappings(ctx, rule='A11s'):
    """F27: add_mapping appends in place to SupDSG._choice_mappings; a graph derived from another one (copy(),
    applying a choice) therefore needs a list of its own - either the handing-over side builds a new list, or every
    receiving side (constructor, in-place update) does."""
    give = ctx.fn(f'{SUP}:SupDSG._mod_graph_adjust_kwargs')
    handed = []
    for f in unit_functions(ctx.prog, give):
        for st in walk_fn(f):
            if isinstance(st, ast.Assign) and any(
                    isinstance(t, ast.Subscript) and isinstance(t.slice, ast.Constant) and
                    t.slice.value == 'choice_mappings' for t in st.targets):
                handed.append(expand_locals(f, st.value))
    if not handed:
        raise AnalysisError('SupDSG._mod_graph_adjust_kwargs no longer hands over choice_mappings')
    giver_fresh = all(_fresh_container(e) for e in handed)
    recv_fresh = True
    for key in ('SupDSG.__init__', 'SupDSG._mod_graph_inplace'):
        f = ctx.fn(f'{SUP}:{key}')
        vals = [expand_locals(f, st.value) for st in assigns_to_attr(f, '_choice_mappings')
                if getattr(st, 'value', None) is not None]
        if not vals or not all(_fresh_container(v) for v in vals):
            recv_fresh = False
    ctx.ob(rule, fkey(give, rule, 'derived-graph-owns-mapping-list'), giver_fresh or recv_fresh, give.where,
           'the list of choice mappings (appended to in place by add_mapping) that a derived SupDSG receives is a '
           'new list: built where it is handed over, or by the constructor and the in-place update that receive it',
           f'handed over: {[short(e) for e in handed]}')


def check(ctx):
    # has_conditional_existence decides whether a mapping needs a `None` entry: recursive memoised graph functions
    # store answers only (a placeholder stored before the recursion answers every node of a derivation cycle)
    from ..rules import persist as _ps20
    _ps20.check_provisional_memo_entries(ctx, [f for f in ctx.prog.all_functions()
                                               if f.module.name.startswith('adsg_core.graph.')])
    ctx.floor('A2r', 1, 'recursive memoised functions in the graph algorithms')
    apply_and_mapping_order(ctx)
    resolve_shape(ctx)
    init_shape(ctx)
    option_provenance(ctx)
    existence_universe(ctx)
    from ..rules import shapes
    shapes.check_none_key_deref(ctx, [f for f in ctx.prog.all_functions() if f.module.name.startswith('adsg_core.graph.sup')])
    abstract_complete(ctx)
    edges.check_walks(ctx, categories={'derivation'}, anchors=[f'{SUP}:SupSelChoiceOptionMapping.resolve'])
    ctx.floor('A5', 9, 'resolve / initialise guards')
    ctx.floor('A6', 10, 'provenance of the applied option')
    sup_node_identity(ctx)
    derived_graph_owns_mappings(ctx)


from ..selftest import V  # noqa: E402

VARIANTS = [
    V('derived-sup-graph-shares-mapping-list', 'graph/sup/dsg.py',
      [("        kwargs['choice_mappings'] = list(self._choice_mappings)", "        kwargs['choice_mappings'] = self._choice_mappings")],
      key='derived-graph-owns-mapping-list'),
    V('twin-mapping-list-copied-by-receivers', 'graph/sup/dsg.py',
      [("        kwargs['choice_mappings'] = list(self._choice_mappings)", "        kwargs['choice_mappings'] = self._choice_mappings"),
       ("= choice_mappings or []", "= list(choice_mappings or [])"),
       ("            self._choice_mappings = kwargs['choice_mappings']", "            self._choice_mappings = kwargs['choice_mappings'][:]")],
      expect='silent'),
    V('twin-mapping-list-copied-via-local', 'graph/sup/dsg.py',
      [("        kwargs['choice_mappings'] = list(self._choice_mappings)", "        own_mappings = [entry for entry in self._choice_mappings]\n        kwargs['choice_mappings'] = own_mappings")],
      expect='silent'),
    V('placeholder-entry-in-recursive-memo', 'graph/traversal.py',
      [("        in_walk_back.add(base_node)\n", "        in_walk_back.add(base_node)\n        traversed[base_node] = False\n")],
      key='provisional-memo-entry'),
    V('only-first-originating-node-kept', 'graph/sup/dsg.py',
      [("        self._src_choice_originating_nodes = [edge[0] for edge in iter_in_edges(src_dsg.graph, src_choice_node)]\n",
        "        self._src_choice_originating_nodes = [edge[0] for edge in iter_in_edges(src_dsg.graph, src_choice_node)][:1]\n")],
      key='every-originating-node-kept'),
    V('originating-nodes-as-tuple', 'graph/sup/dsg.py',
      [("        self._src_choice_originating_nodes = [edge[0] for edge in iter_in_edges(src_dsg.graph, src_choice_node)]\n",
        "        in_edges = list(iter_in_edges(src_dsg.graph, src_choice_node))\n        self._src_choice_originating_nodes = tuple(in_edge[0] for in_edge in in_edges)\n")],
      expect='silent', why='all originating nodes kept, other container / hoisted edge list'),
    V('only-first-originating-node-kept-by-index', 'graph/sup/dsg.py',
      [("        self._src_choice_originating_nodes = [edge[0] for edge in iter_in_edges(src_dsg.graph, src_choice_node)]\n",
        "        self._src_choice_originating_nodes = [[edge[0] for edge in iter_in_edges(src_dsg.graph, src_choice_node)][0]]\n")],
      key='every-originating-node-kept'),
    V('none-key-dereferenced', 'graph/sup/dsg.py',
      [("for node, sup_node in mapping.items() if node is not None}", "for node, sup_node in mapping.items()}")], key='A10d'),
    V('non-final-source-accepted', 'graph/sup/dsg.py',
      [("        if not src_dsg.final or not src_dsg.feasible:", "        if not src_dsg.feasible:")], key='source-final-required'),
    V('partial-result-returned', 'graph/sup/dsg.py',
      [("        if not sup_dsg.final:\n            raise RuntimeError('Resolved SupDSG is not final; choice nodes remain!')\n", "")],
      key='result-final-required'),
    V('sup-node-identity-by-str', 'graph/sup/nodes.py', [("return f'{name}|{ref!r}'", "return f'{name}|{ref}'")], key='identity-embeds-repr-of-ref'),
    V('twin-sup-node-identity-by-repr-call', 'graph/sup/nodes.py', [("return f'{name}|{ref!r}'", "return name + '|' + repr(ref)")], expect='silent'),
    V('duplicates-by-mapping-object', 'graph/sup/dsg.py',
      [("        for choice_node, _ in self._choice_mappings:\n            if choice_node in mapped_choice_nodes:\n                dup_mapped.append(choice_node)\n            else:\n                mapped_choice_nodes.add(choice_node)\n",
        "        seen = set()\n        for choice_mapping in self._choice_mappings:\n            if choice_mapping in seen:\n                dup_mapped.append(choice_mapping[0])\n            else:\n                seen.add(choice_mapping)\n        mapped_choice_nodes = {c for c, _ in seen}\n")],
      key='duplicate-keyed-by-choice-node'),
    V('duplicates-accepted', 'graph/sup/dsg.py',
      [("        if len(dup_mapped) > 0:\n            raise RuntimeError(f'Duplicate mapped choice nodes: {dup_mapped!r}')\n", "")],
      key='duplicate-rejected-before-init'),
    V('unmapped-accepted', 'graph/sup/dsg.py',
      [("        if len(unmapped_choice_nodes):\n            raise RuntimeError(f'Unmapped choice nodes: {unmapped_choice_nodes!r}')\n", "")],
      key='unmapped-rejected-before-init'),
    V('registered-before-initialised', 'graph/sup/dsg.py',
      [("        choice_mapping.initialize(self, sup_choice_node, src_dsg)\n        self._choice_mappings.append((sup_choice_node, choice_mapping))",
        "        self._choice_mappings.append((sup_choice_node, choice_mapping))\n        choice_mapping.initialize(self, sup_choice_node, src_dsg)")],
      key='initialised-before-registered'),
    V('existence-last-hit-wins', 'graph/sup/dsg.py',
      [("            if src_node.str_context() in src_nodes:\n                sup_tgt_option_node = sup_option_node\n                break\n", "            if src_node.str_context() in src_nodes:\n                sup_tgt_option_node = sup_option_node\n")],
      key='first-hit-wins'),
    V('inactive-takes-first-option', 'graph/sup/dsg.py',
      [("            sup_tgt_option_node = mapping[None]\n\n        else:", "            sup_tgt_option_node = list(mapping.values())[0]\n\n        else:")],
      key='applied-option-from-mapping'),
    V('ambiguous-selection-accepted', 'graph/sup/dsg.py',
      [("            if len(src_selected_opt_nodes) != 1:", "            if len(src_selected_opt_nodes) < 1:")], key='exactly-one-selected'),
    V('selected-read-over-all-edges', 'graph/sup/dsg.py',
      [("edge[1] for edge in iter_out_edges(src_dsg.graph, src_originating_node, edge_type=EdgeType.DERIVES)}", "edge[1] for edge in iter_out_edges(src_dsg.graph, src_originating_node)}")],
      key='SupSelChoiceOptionMapping.resolve'),
    V('none-not-required', 'graph/sup/dsg.py',
      [("        if src_dsg.has_conditional_existence(src_choice_node) and None not in self._mapping:\n            raise SupInitializationError(self, sup_dsg, src_dsg,\n                                         f'Choice may be inactive; `None` missing from mapping!')\n", "")],
      key='none-required-if-conditional'),
]
