"""C07 Activeness and imputation follow one contract on every path - structural clauses."""
import ast

from ..rules.match import FnText
from ..model import AnalysisError, norm
from ..astutil import short, call_name
from ..report import fkey
from ..rules import vectors, guards
from ..rules.common import *

EXPLANATION = (
    'Decides necessary conditions of the activeness contract: (A5a, sibling agreement) all eight vector-returning '
    'methods of both connection assignment managers obtain (vector, activeness) from the -1 marks of the encoder '
    'output, activeness being taken before the marks are replaced; (A6) the eager encoder returns a stored '
    '(marked) vector on every path (the direct-hit path does not: known finding F7); (A5) both producers of '
    'activeness for the user - decode and enumeration - derive it from the None / -1 marks before imputation and '
    'impute through one function whose values are the documented canonical ones; the conditionally-active flag '
    'of every declared variable is set from permanence of its node (three construction sites) and from the -1 '
    'marks of the encoded vectors.  Not decided: agreement of all encoders for all vectors (value-level).')


def producers(ctx, rule='A5'):
    fn = ctx.fn(f'{GP}.get_all_discrete_x')
    txt = FnText(ctx, fn)
    from ..cfg import build_cfg
    cfg = build_cfg(fn)
    # activeness definition `<act> = <x> != X_INACTIVE_VALUE` and the stores that replace marked entries of <x> by
    # the canonical inactive value (the value comes from _get_inactive_value, directly or through a local)
    defs = [n for n in cfg.nodes if n.kind == 'stmt' and isinstance(n.ast, ast.Assign) and
            isinstance(n.ast.value, ast.Compare) and len(n.ast.value.ops) == 1 and
            isinstance(n.ast.value.ops[0], ast.NotEq) and norm(n.ast.value.comparators[0]) == 'X_INACTIVE_VALUE' and
            isinstance(n.ast.value.left, ast.Name)]
    canon = {norm(a.targets[0]) for a in walk_fn(fn) if isinstance(a, ast.Assign) and
             '_get_inactive_value(' in norm(a.value)}

    def where_call(a, arr):
        # `<arr> = np.where(<cond>, <arr...>, <canonical values>)`: the vectorised form of the same replacement
        v = a.value if isinstance(a, ast.Assign) else None
        if isinstance(v, ast.Call) and call_name(v) == 'where' and len(v.args) == 3 and \
                isinstance(a.targets[0], ast.Name) and a.targets[0].id == arr and \
                any(isinstance(x, ast.Name) and x.id == arr for x in ast.walk(v.args[1])) and \
                ('_get_inactive_value(' in norm(v.args[2]) or norm(v.args[2]) in canon or
                 # a broadcast view of the canonical values (`values[None, :]`, `values.reshape(1, -1)`)
                 (not any(isinstance(c, ast.Call) and call_name(c) not in ('reshape',) for c in ast.walk(v.args[2]))
                  and any(isinstance(x, ast.Name) and x.id in canon for x in ast.walk(v.args[2])))):
            return v
        return None

    def is_imputation(n, arr):
        a = n.ast
        if n.kind != 'stmt' or not isinstance(a, ast.Assign):
            return False
        if where_call(a, arr) is not None:
            return True
        return isinstance(a.targets[0], ast.Subscript) and \
            norm(a.targets[0].value) == arr and ('_get_inactive_value(' in norm(a.value) or norm(a.value) in canon)
    ok, i_act, i_imp, imps, act = False, -1, -1, [], None
    for d in defs:
        arr = d.ast.value.left.id
        imps = [n for n in cfg.nodes if is_imputation(n, arr)]
        act = norm(d.ast.targets[0])
        i_act = d.lineno
        i_imp = imps[0].lineno if imps else -1
        ok = bool(imps) and all(cfg.can_reach(d, s_) and not cfg.can_reach(s_, d) for s_ in imps)
        if ok:
            break
    ctx.ob(rule, fkey(fn, rule, 'enumeration-activeness-before-imputation'), ok, fn.where,
           'the enumeration derives activeness from the -1 marks (`x != X_INACTIVE_VALUE`) before it replaces '
           'them by the canonical inactive values', f'activeness at line {i_act}, imputation at line {i_imp}')
    # the replaced rows are exactly the marked ones of that column: selected by `== X_INACTIVE_VALUE` on the column or
    # by the negated activeness of the column
    def marked_rows(sel):
        t_ = norm(sel)
        if isinstance(sel, ast.Compare) and len(sel.ops) == 1 and isinstance(sel.ops[0], ast.Eq) and \
                norm(sel.comparators[0]) == 'X_INACTIVE_VALUE':
            return True
        return isinstance(sel, ast.UnaryOp) and isinstance(sel.op, ast.Invert) and act is not None and \
            t_.startswith(f'~{act}[')
    def replaces_marked(s_):
        w = where_call(s_.ast, norm(s_.ast.targets[0])) if isinstance(s_.ast.targets[0], ast.Name) else None
        if w is not None:       # np.where(<activeness>, <table>, <canonical>): keeps active entries
            return act is not None and norm(w.args[0]) == act
        return isinstance(s_.ast.targets[0].slice, ast.Tuple) and marked_rows(s_.ast.targets[0].slice.elts[0])
    ok = bool(imps) and all(replaces_marked(s_) for s_ in imps)
    ctx.ob(rule, fkey(fn, rule, 'enumeration-imputes-canonical'), ok, fn.where,
           'the enumeration imputes exactly the marked entries with _get_inactive_value of that variable', '')
    # the table is created with an integer dtype, the canonical inactive value of a continuous variable is a
    # fraction (midpoint of the bounds): the table is widened to float before anything fractional is stored in it
    if imps:
        t0 = imps[0].ast.targets[0]
        arr_ = norm(t0.value) if isinstance(t0, ast.Subscript) else norm(t0)
        int_created = [a for a in walk_fn(fn) if isinstance(a, ast.Assign) and norm(a.targets[0]) == arr_ and
                       any(isinstance(c, ast.Call) and (k := kwarg(c, 'dtype')) is not None and
                           norm(k) in ('int', 'np.int64', 'np.int32', 'np.int_') for c in ast.walk(a.value))]
        giv = ctx.prog.cls(GP).methods.get('_get_inactive_value')
        fractional = giv is not None and any(
            (isinstance(x, ast.BinOp) and isinstance(x.op, ast.Div)) or
            (isinstance(x, ast.Constant) and isinstance(x.value, float))
            for r in returns_of(giv) if r.value is not None for x in ast.walk(r.value))
        if int_created and fractional:
            widen = [n for n in cfg.nodes if n.kind == 'stmt' and isinstance(n.ast, ast.Assign) and
                     norm(n.ast.targets[0]) == arr_ and isinstance(n.ast.value, ast.Call) and
                     call_name(n.ast.value) == 'astype' and n.ast.value.args and
                     norm(n.ast.value.args[0]) in ('float', 'np.float64', 'np.float_', 'np.double')]
            # a np.where whose table operand is converted in place (`x.astype(float)`) produces a float table itself
            def self_widening(s_):
                w = where_call(s_.ast, arr_)
                return w is not None and any(isinstance(c, ast.Call) and call_name(c) == 'astype' and c.args and
                                             norm(c.args[0]) in ('float', 'np.float64', 'np.float_', 'np.double')
                                             for c in ast.walk(w.args[1]))
            widen = widen + [s_ for s_ in imps if self_widening(s_)]
            guards.check_passes(ctx, rule, fn, imps, widen, 'enumeration-table-float-before-imputation',
                                'the enumeration table (created with an integer dtype) is converted to float before '
                                'the canonical inactive values - fractions for continuous variables - are stored in '
                                'it (a store into the integer table would truncate them)')
    ok = 'x = -np.ones((dv_sel.shape[0], n_dv), dtype=int)' in txt
    ctx.ob(rule, fkey(fn, rule, 'enumeration-starts-all-inactive'), ok, fn.where,
           'the enumeration table starts all-inactive (-1): a variable is active only where a value was written', '')
    marks = [a for a in walk_fn(fn) if isinstance(a, ast.Assign) and isinstance(a.targets[0], ast.Subscript) and
             isinstance(a.value, ast.Constant) and a.value.value == 0 and
             isinstance(a.targets[0].slice, ast.Tuple) and 'i_combs' in norm(a.targets[0].slice.elts[0]) and
             norm(a.targets[0].slice.elts[1]) == 'dv_idx']
    ok = bool(marks)
    ctx.ob(rule, fkey(fn, rule, 'continuous-marked-active-where-node-exists'), ok, fn.where,
           'a continuous design-variable node is marked active exactly in the combinations where the node exists',
           '')


def conditional_flags(ctx, rule='A5f'):
    fn = ctx.fn(f'{GP}._get_des_vars')
    n = 0
    for c in calls(fn, 'from_choice_node') + calls(fn, 'from_des_var_node'):
        kw = kwarg(c, 'conditionally_active')
        ok = kw is not None and isinstance(kw, ast.Compare) and isinstance(kw.ops[0], ast.NotIn) and \
            norm(kw.comparators[0]) == 'permanent_nodes'
        n += 1
        ctx.ob(rule, fkey(fn, rule, f'{call_name(c)}:flag-from-permanence'), ok, f'{fn.module.relpath}:{c.lineno}',
               'the conditionally-active flag of the declared variable is `node not in permanent_nodes`',
               short(c, 120))
    perm = [s for s in walk_fn(fn) if isinstance(s, ast.Assign) and norm(s.targets[0]) == 'permanent_nodes']
    ok = bool(perm) and 'permanent_nodes_incl_choice_nodes' in norm(perm[0].value)
    ctx.ob(rule, fkey(fn, rule, 'permanent-set'), ok, fn.where,
           'permanence is taken from the influence matrix (confirmed nodes and initially active choices)',
           short(perm[0]) if perm else 'missing')
    conn = [s for s in walk_fn(fn) if isinstance(s, ast.If) and 'conn_des_var.node not in permanent_nodes' in
            norm(s.test)]
    ok = bool(conn) and 'conn_des_var.conditionally_active = True' in norm(conn[0].body[0])
    ctx.ob(rule, fkey(fn, rule, 'connection-variables-of-conditional-choice'), ok, fn.where,
           'every variable of a connection choice that is not permanent is flagged conditionally active', '')
    f2 = ctx.fn(f'{GP}._encode_connection_choice')
    cs = calls(f2, 'from_choice_node')
    ok = bool(cs) and norm(kwarg(cs[0], 'conditionally_active')) == 'dv.conditionally_active'
    ctx.ob(rule, fkey(f2, rule, 'encoder-flag-forwarded'), ok, f2.where,
           'the conditionally-active flag computed by the connection encoder is forwarded to the declared '
           'variable', short(cs[0], 120) if cs else 'missing')
    f3 = ctx.fn(f'{ENC}:EagerEncoder.get_design_variables')
    t = FnText(ctx, f3)
    # the flag handed to each declared variable is the entry of its own column in `any(table == -1, axis=0)`: indexed
    # with the position of the variable, or paired with it by zip
    ok = False
    flag_defs = {norm(a.targets[0]) for a in walk_fn(f3) if isinstance(a, ast.Assign) and
                 isinstance(a.value, ast.Call) and call_name(a.value) == 'any' and a.value.args and
                 isinstance(a.value.args[0], ast.Compare) and isinstance(a.value.args[0].ops[0], ast.Eq) and
                 norm(a.value.args[0].comparators[0]) == 'X_INACTIVE_VALUE' and
                 norm(kwarg(a.value, 'axis') or ast.Constant(None)) == '0'}
    for comp in [x for x in ast.walk(f3.node) if isinstance(x, (ast.ListComp, ast.GeneratorExp))]:
        cs3 = [c for c in ast.walk(comp.elt) if isinstance(c, ast.Call) and call_name(c) == 'DiscreteDV']
        if not cs3 or len(comp.generators) != 1:
            continue
        kw = kwarg(cs3[0], 'conditionally_active')
        g = comp.generators[0]
        if kw is None:
            continue
        if isinstance(kw, ast.Subscript) and norm(kw.value) in flag_defs and isinstance(g.iter, ast.Call) and \
                call_name(g.iter) == 'enumerate' and isinstance(g.target, ast.Tuple) and \
                norm(kw.slice) == norm(g.target.elts[0]):
            ok = True
        if isinstance(kw, ast.Name) and isinstance(g.iter, ast.Call) and call_name(g.iter) == 'zip' and \
                isinstance(g.target, ast.Tuple) and len(g.target.elts) == len(g.iter.args):
            paired = {norm(t_): norm(a_) for t_, a_ in zip(g.target.elts, g.iter.args)}
            ok = ok or paired.get(kw.id) in flag_defs
    ctx.ob(rule, fkey(f3, rule, 'eager-flag-from-marks'), ok, f3.where,
           'an eagerly encoded variable is conditionally active iff some stored design vector marks it -1', '')
    # every existence pattern that has at least one valid vector takes part in the merge (a pattern without
    # variables contributes the empty list, which makes all variables of the other patterns conditional)
    def _appends(sub):
        return isinstance(sub, ast.Call) and call_name(sub) == 'append' and isinstance(sub.func, ast.Attribute) and \
            norm(sub.func.value) == merged
    mcalls = calls(f3, 'merge_design_vars')
    if len(mcalls) != 1 or not mcalls[0].args:
        raise AnalysisError('EagerEncoder.get_design_variables: call of merge_design_vars not found')
    merged = norm(mcalls[0].args[0])
    def _no_vectors(atom, truth):
        return truth and isinstance(atom, ast.Compare) and len(atom.ops) == 1 and isinstance(atom.ops[0], ast.Eq) and \
            norm(atom.left).endswith('.shape[0]') and norm(atom.comparators[0]) == '0'
    guards.check_loop_contributes(
        ctx, rule, f3, lambda it: 'design_vectors' in norm(it), _appends, _no_vectors, 'every-pattern-merged',
        'every existence pattern with at least one valid design vector contributes its variable list to the merge '
        '(skipping a pattern that needs no variable leaves the variables of the other patterns flagged '
        'unconditionally active although they are inactive there)')
    f4 = ctx.fn(f'{ENC}:EagerEncoder.merge_design_vars')
    t = FnText(ctx, f4)
    ok = 'is_cond_act = np.ones(n_opts.shape, dtype=bool)' in t and 'np.any(is_cond_act, axis=0)' in t
    ctx.ob(rule, fkey(f4, rule, 'merge-flag-any'), ok, f4.where,
           'merging existence patterns: a variable missing in some pattern, or conditional in any, is '
           'conditionally active', '')
    return n + 6


def fast_records_auto_taken(ctx, rule='A5f'):
    """The graph takes a selection choice by itself as soon as it has one option left (`resolve_single_selection_
    choices`); such a choice exists in the architecture and is active.  The fast analyzer walks the choices it is
    offered, so it has to pick up the automatically taken ones after every step (`get_taken_single_selection_
    choices()`) and write them into the record of taken options it returns."""
    outer = ctx.fn(f'{FAST}.get_graph')
    fn = outer.nested.get('_get_graph')
    if fn is None:
        raise AnalysisError('FastHierarchyAnalyzer.get_graph._get_graph vanished')
    rets = [r for r in returns_of(fn) if isinstance(r.value, ast.Tuple) and r.value.elts and
            isinstance(r.value.elts[0], ast.Call) and norm(r.value.elts[0].func) == 'tuple' and r.value.elts[0].args and
            isinstance(r.value.elts[0].args[0], ast.Name)]
    if not rets:
        raise AnalysisError('_get_graph: returned record of taken options not found')
    record = rets[-1].value.elts[0].args[0].id
    calls_ = [c for c in walk_fn(fn) if isinstance(c, ast.Call) and call_name(c) == 'get_taken_single_selection_choices']
    # extract-method: a private helper of the class that reads them back and returns them counts as the read-back
    readers = {h.name for h in unit_functions(ctx.prog, outer)[1:] if h is not fn and any(
        isinstance(c, ast.Call) and call_name(c) == 'get_taken_single_selection_choices' for c in walk_fn(h)) and
        any(r.value is not None for r in returns_of(h))}
    calls_ += [c for c in walk_fn(fn) if isinstance(c, ast.Call) and call_name(c) in readers]
    # names that (transitively) hold the result of that call
    holders = set()
    changed = True
    while changed:
        changed = False
        for st in walk_fn(fn):
            if isinstance(st, ast.Assign):
                src_has = any(c in list(ast.walk(st.value)) for c in calls_) or \
                    any(isinstance(x, ast.Name) and x.id in holders for x in ast.walk(st.value))
                if src_has:
                    for t in st.targets:
                        base = t
                        while isinstance(base, ast.Subscript):
                            base = base.value
                        if isinstance(base, ast.Name) and base.id not in holders:
                            holders.add(base.id)
                            changed = True
    stores = []
    for lp in [l for l in ast.walk(fn.node) if isinstance(l, ast.For)]:
        if any(isinstance(x, ast.Name) and x.id in holders for x in ast.walk(lp.iter)) or \
                any(c in list(ast.walk(lp.iter)) for c in calls_):
            stores += [st for st in ast.walk(lp) if isinstance(st, ast.Assign) and
                       isinstance(st.targets[0], ast.Subscript) and norm(st.targets[0].value) == record]
    # the read-back returns a class-level record of what the *last* apply took by itself: it describes this step only
    # when it is read right after this step's apply - every path from the start of the step to the read-back passes the
    # apply call (a read-back on the cache-hit path returns the record of some other decode)
    from ..cfg import build_cfg as _bc
    cfg_ = _bc(fn)
    rb = [n for n in cfg_.nodes if n.ast is not None and n.kind in ('stmt', 'for', 'test') and any(
        isinstance(c, ast.Call) and call_name(c) in ({'get_taken_single_selection_choices'} | readers)
        for e in ([n.ast.iter] if n.kind == 'for' else [n.ast]) for c in ast.walk(e))]
    ap = guards.call_nodes(cfg_, 'get_for_apply_selection_choice')
    heads = [n for n in cfg_.nodes if n.kind in ('for', 'test') and isinstance(n.stmt, (ast.While, ast.For)) and
             any(cfg_.can_reach(n, r) for r in rb) and any(cfg_.can_reach(r, n) for r in rb)]
    if rb and ap:
        guards.check_passes(ctx, rule, fn, rb, ap, 'auto-taken-read-right-after-apply',
                            'the automatically taken choices are read back only on paths that have just applied a '
                            'choice in this step (the record is class-level: on a cache hit it belongs to another '
                            'decode)', from_nodes=heads or None)
    ok = bool(calls_) and bool(stores)
    ctx.ob(rule, fkey(fn, rule, 'auto-taken-choices-recorded'), ok, fn.where,
           f'choices taken automatically by the graph are read back (get_taken_single_selection_choices) and written '
           f'into `{record}`, the record of taken options the analyzer reports activeness from',
           f'{len(calls_)} read-back(s), {len(stores)} store(s) into the record' if ok else
           ('the automatically taken choices are never read back: a choice left with one option is reported inactive'
            if not calls_ else f'read back but never written into `{record}`'))


def check(ctx):
    # a design-variable node's variable is active exactly when the node exists: which value goes to which node
    from . import c16 as _c16
    _c16.decode_assignment(ctx)
    vectors.manager_contract(ctx)
    vectors.eager_returns_stored_vector(ctx)
    vectors.decode_no_raw_echo(ctx)
    vectors.inactive_value_contract(ctx)
    producers(ctx)
    conditional_flags(ctx)
    from ..rules import indexspace as _ix
    _ix.check_position_map_keys(ctx, [f for f in ctx.prog.all_functions() if f.module.name.startswith(('adsg_core.optimization.graph_processor', 'adsg_core.optimization.hierarchy'))],
                                required=[f'{GP}.all_des_var_idx_map'])
    ctx.floor('A21i', 2, 'position maps keyed by objects')
    # memoisation on the paths that report activeness (with/without materialising the instance): the key covers
    # every parameter the stored answer depends on
    from ..rules import persist
    persist.check_memo_functions(ctx, [f for f in ctx.prog.all_functions() if f.module.name.startswith(('adsg_core.optimization.graph_processor', 'adsg_core.optimization.hierarchy'))])
    ctx.floor('A2p', 3, 'memoising stores in the graph processor / hierarchy analyzers')
    ctx.floor('A5a', 8, 'vector-returning manager methods')
    ctx.floor('A5f', 6, 'conditional-activeness flag sites')
    from ..rules import indexspace as _ixg
    _ixg.check_global_row_ids(ctx, f'{GP}.get_all_discrete_x')
    from ..rules import shapes as _shr
    _shr.check_sibling_reductions(ctx)
    # the enumeration is memoised: whatever it reads is invalidated when fix/free changes it (enumeration and
    # decode have to keep reporting the same activeness)
    from ..rules import invalidate as _inv7
    _inv7.check_invalidation(ctx, GP)
    fast_records_auto_taken(ctx)


from ..selftest import V  # noqa: E402

VARIANTS = [
    V('existence-table-read-through-row-filter', 'optimization/graph_processor.py',
      [("            i_is_active = np.where(dv_node_existence[:, i_dv])[0]", "            i_is_active = np.where(dv_node_existence[x_keep, i_dv])[0]")],
      key='existence-table-read-with-all-rows'),
    V('twin-existence-column-hoisted', 'optimization/graph_processor.py',
      [("            i_is_active = np.where(dv_node_existence[:, i_dv])[0]", "            exists_in_comb = dv_node_existence[:, i_dv]\n            i_is_active = np.where(exists_in_comb)[0]")],
      expect='silent'),
    V('imputes-into-integer-table', 'optimization/graph_processor.py',
      [("        x = x.astype(float)\n        for i_dv, dv in enumerate(self.all_des_vars):\n            inactive_value = self._get_inactive_value(dv)\n            x[x[:, i_dv] == X_INACTIVE_VALUE, i_dv] = inactive_value\n",
        "        for i_dv, dv in enumerate(self.all_des_vars):\n            inactive_value = self._get_inactive_value(dv)\n            x[x[:, i_dv] == X_INACTIVE_VALUE, i_dv] = inactive_value\n        x = x.astype(float)\n")],
      key='enumeration-table-float-before-imputation'),
    V('fast-forgets-auto-taken-choices', 'optimization/hierarchy/fast.py',
      [("                for i_single, i_opt_single in single_taken_cache[cache_key]:\n                    taken_sel_opt[i_single] = i_opt_single\n", "")], key='auto-taken-choices-recorded'),
    V('desvar-compared-by-value', 'optimization/dv_output_defs.py',
      [("    def __str__(self):\n        if self.is_discrete:\n            return f'DV: ", "    def __hash__(self):\n        return hash(self.name)\n\n    def __eq__(self, other):\n        return isinstance(other, DesVar) and self.name == other.name\n\n    def __str__(self):\n        if self.is_discrete:\n            return f'DV: ")], key='A21i'),
    V('zero-variable-pattern-skipped', 'optimization/assign_enc/encoding.py',
      [("            if des_vectors.shape[1] == 0:\n                design_vars_list.append([])\n                continue\n", "            if des_vectors.shape[1] == 0:\n                continue\n")], key='every-pattern-merged'),
    V('manager-activeness-all-true', 'optimization/assign_enc/assignment_manager.py',
      [("        imputed_vector, matrix = self._encoder.get_matrix(vector, existence=existence)\n        imputed_vector, is_active = self._correct_is_active(imputed_vector)\n        return imputed_vector, is_active, matrix\n\n    def get_conn_idx(self, vector: DesignVector, existence: NodeExistence = None) \\\n            -> Tuple[DesignVector, IsActiveVector, Optional[List[Tuple[int, int]]]]:\n        \"\"\"Get node connections for a given design vector\"\"\"\n\n        # Get matrix",
        "        imputed_vector, matrix = self._encoder.get_matrix(vector, existence=existence)\n        is_active = np.ones((len(imputed_vector),), dtype=bool)\n        return imputed_vector, is_active, matrix\n\n    def get_conn_idx(self, vector: DesignVector, existence: NodeExistence = None) \\\n            -> Tuple[DesignVector, IsActiveVector, Optional[List[Tuple[int, int]]]]:\n        \"\"\"Get node connections for a given design vector\"\"\"\n\n        # Get matrix")],
      key='AssignmentManager.get_matrix'),
    V('marks-replaced-before-activeness', 'optimization/assign_enc/assignment_manager.py',
      [("        is_active = corrected_vector != X_INACTIVE_VALUE\n        corrected_vector[corrected_vector == X_INACTIVE_VALUE] = 0\n",
        "        corrected_vector[corrected_vector == X_INACTIVE_VALUE] = 0\n        is_active = corrected_vector != X_INACTIVE_VALUE\n")],
      key='marks-to-activeness'),
    V('enumeration-activeness-after-imputation', 'optimization/graph_processor.py',
      [("        is_active = x != X_INACTIVE_VALUE  # Applies both for the hierarchy analyzer and assignment encoders\n        x = x.astype(float)\n",
        "        x = x.astype(float)\n"),
       ("            x[x[:, i_dv] == X_INACTIVE_VALUE, i_dv] = inactive_value\n", "            x[x[:, i_dv] == X_INACTIVE_VALUE, i_dv] = inactive_value\n        is_active = x != X_INACTIVE_VALUE\n")],
      key='enumeration-activeness-before-imputation'),
    V('sel-choice-flag-always-false', 'optimization/graph_processor.py',
      [("                                                    conditionally_active=choice_node not in permanent_nodes))", "                                                    conditionally_active=False))")],
      key='from_choice_node:flag-from-permanence'),
    V('dv-node-flag-inverted', 'optimization/graph_processor.py',
      [("DesVar.from_des_var_node(des_var_node, conditionally_active=des_var_node not in permanent_nodes)", "DesVar.from_des_var_node(des_var_node, conditionally_active=des_var_node in permanent_nodes)")],
      key='from_des_var_node:flag-from-permanence'),
    V('eager-flag-all-marks', 'optimization/assign_enc/encoding.py',
      [("            is_cond_act = np.any(des_vectors == X_INACTIVE_VALUE, axis=0)\n", "            is_cond_act = np.all(des_vectors == X_INACTIVE_VALUE, axis=0)\n")],
      key='eager-flag-from-marks'),
    V('twin-rename-loop-var-in-enumeration', 'optimization/graph_processor.py',
      [("        for i_dv, dv in enumerate(self.all_des_vars):\n            inactive_value = self._get_inactive_value(dv)\n            x[x[:, i_dv] == X_INACTIVE_VALUE, i_dv] = inactive_value",
        "        for col, des_var in enumerate(self.all_des_vars):\n            fill = self._get_inactive_value(des_var)\n            x[x[:, col] == X_INACTIVE_VALUE, col] = fill")], expect='silent'),
]
