"""C18 Identity, equality and serialization of graphs are structural and stable - structural clauses."""
import ast

from ..rules.match import FnText
from ..model import AnalysisError, norm, walk_no_nested
from ..cfg import build_cfg
from ..flow import Slice
from ..astutil import short, call_name
from ..report import fkey
from ..rules import invalidate, edges, guards
from ..rules.common import *

EXPLANATION = (
    'Decides key-completeness and stability clauses: (A8) DSG.__hash__ and DSG.fingerprint each fold all four '
    'components {start nodes, nodes, edges, choice constraints} into the final value (data flow into the hashed '
    'tuple), in an order-independent way (sorted) for the set-like components; __eq__ compares the hashes of both '
    'operands; is_same compares both fingerprints; node identity: __hash__ returns the stored id, __eq__ compares '
    'it with the hash of the other operand, copy_node refreshes it; HashableDict invalidates its cached key on '
    'every mutation and hashes the sorted items; copy() keeps the constraint objects and the start nodes; the '
    'three ordering keys use names / ids / option ids, never builtin hash() or object identity; (A8k) function '
    'cache keys are process-independent; (A4) exports walk every edge and node.  Not decided: cross-process '
    'equality of mappings, DOT merging parallel edges by design.')

COMPONENTS = {
    'start-nodes': lambda t: 'derivation_start_nodes' in t,
    'nodes': lambda t: 'graph.nodes' in t or 'g.nodes' in t,
    'edges': lambda t: 'graph.edges' in t or 'g.edges' in t,
    'constraints': lambda t: '_choice_constraints' in t,
}


def _final_tuple_components(fn):
    """Texts of everything flowing into the returned hash((...)) expression."""
    rets = returns_of(fn)
    if not rets:
        raise AnalysisError(f'{fn.key}: no return')
    r = rets[-1]
    cfg = build_cfg(fn)
    node = cfg.node_of(r)
    sl = Slice(fn)
    parts = []
    v = r.value
    if not (isinstance(v, ast.Call) and call_name(v) == 'hash' and v.args and isinstance(v.args[0], ast.Tuple)):
        return None, r
    for el in v.args[0].elts:
        # the expressions feeding the element, read through nested / private helpers (arguments substituted)
        txts = [norm(x) for x in origins_through_helpers(_PROGREF[0], fn, el, node)] if _PROGREF[0] is not None else \
            [norm(el)] + [norm(val) for nm, val, how, d in sl.origins(el, node) if val is not None]
        # nested helper functions referenced in the element
        parts.append((norm(el), ' '.join(txts)))
    return parts, r


_PROGREF = [None]


def hash_completeness(ctx, rule='A8'):
    _PROGREF[0] = ctx.prog
    for meth in ('__hash__', 'fingerprint'):
        fn = ctx.fn(f'{DSG}.{meth}')
        parts, r = _final_tuple_components(fn)
        if parts is None:
            ctx.ob(rule, fkey(fn, rule, 'final-hash-of-tuple'), False, fn.where,
                   f'{meth} returns hash((..components..))', short(r))
            continue
        alltxt = ' '.join(t for _, t in parts)
        for comp, pred in COMPONENTS.items():
            hit = [el for el, t in parts if pred(t)]
            ctx.ob(rule, fkey(fn, rule, f'covers:{comp}'), bool(hit), f'{fn.module.relpath}:{r.lineno}',
                   f'{meth} folds the {comp} of the graph into its value (a graph that differs in them must not '
                   f'compare equal)', f'flows in through: {hit}' if hit else 'no component of the hashed tuple depends on it')
        # order independence of set-like components
        for comp in ('nodes', 'edges'):
            hit = [t for el, t in parts if COMPONENTS[comp](t)]
            ok = bool(hit) and all('sorted(' in t for t in hit)
            ctx.ob(rule, fkey(fn, rule, f'order-independent:{comp}'), ok, fn.where,
                   f'the {comp} enter {meth} in sorted order (set iteration order differs between processes)', '')
    # fingerprint covers every field of a constraint
    fp = ctx.fn(f'{DSG}.fingerprint')
    t = FnText(ctx, fp)
    cc = ctx.prog.cls(f'{CCON}:ChoiceConstraint')
    fields = [s.target.id for s in cc.node.body if isinstance(s, ast.AnnAssign) and isinstance(s.target, ast.Name)]
    # ... read from a constraint object somewhere in fingerprint() or a helper extracted from it
    read = {x.attr for f_ in unit_functions(ctx.prog, fp) for x in walk_fn(f_)
            if isinstance(x, ast.Attribute) and isinstance(x.value, ast.Name) and x.value.id not in ('self', 'cls')}
    for f in fields:
        ctx.ob(rule, fkey(fp, rule, f'constraint-field:{f}'), f in read, fp.where,
               f'the fingerprint of a constraint includes its field `{f}`', '')
    eq = ctx.fn(f'{DSG}.__eq__')
    rr = returns_of(eq)
    ok = bool(rr) and isinstance(rr[0].value, ast.Compare) and isinstance(rr[0].value.ops[0], ast.Eq) and \
        {norm(rr[0].value.left), norm(rr[0].value.comparators[0])} == {'hash(self)', f'hash({eq.params[1]})'}
    ctx.ob(rule, fkey(eq, rule, 'eq-compares-both-hashes'), ok, eq.where,
           'equality compares the structural hash of both operands', short(rr[0]) if rr else 'missing')
    # the fingerprint has to mean the same in another process: what enters it from a node is the hash of the node's
    # context *string*, taken now - never a number remembered on the node (it would be pickled along and belongs to
    # the hash seed of the process that computed it)
    # the helper (nested function, static method or private method of the class) whose single parameter is a node and
    # which returns hash(<string of the node>)
    cands = [f_ for f_ in unit_functions(ctx.prog, fp)[1:]
             if len([q for q in f_.params if q not in ('self', 'cls')]) == 1 and any(
                 isinstance(r_.value, ast.Call) and norm(r_.value.func) == 'hash' for r_ in returns_of(f_)
                 if r_.value is not None) and 'node' in f_.name]
    def _hashes_own_parameter(f_):
        # hash(<call on the single parameter>): `hash(node.str_context())`, `hash(str(node))`
        q_ = [q for q in f_.params if q not in ('self', 'cls')][0]
        for r_ in returns_of(f_):
            v_ = r_.value
            if isinstance(v_, ast.Call) and norm(v_.func) == 'hash' and len(v_.args) == 1 and \
                    isinstance(v_.args[0], ast.Call):
                c_ = v_.args[0]
                if (isinstance(c_.func, ast.Attribute) and norm(c_.func.value) == q_) or \
                        (len(c_.args) == 1 and norm(c_.args[0]) == q_):
                    return True
        return False
    cands = sorted(cands, key=lambda f_: not _hashes_own_parameter(f_))
    nf = fp.nested.get('_node_fingerprint') or (cands[0] if cands else None)
    if nf is None:
        raise AnalysisError('DSG.fingerprint: node fingerprint helper not found')
    rets_nf = returns_of(nf)
    rv = rets_nf[-1].value if rets_nf else None
    ok = isinstance(rv, ast.Call) and norm(rv.func) == 'hash' and len(rv.args) == 1 and \
        isinstance(rv.args[0], ast.Call) and call_name(rv.args[0]) in ('str_context', 'str', 'get_export_title') and \
        len(rets_nf) == 1
    ctx.ob(rule, fkey(nf, rule, 'node-fingerprint-from-string-now'), ok, nf.where,
           'the fingerprint of a node is hash(<its context string>) computed at the time of the call (supports pickled '
           'nodes and other processes only if nothing seed-dependent is remembered on the node)',
           short(rv, 70) if rv is not None else 'missing')
    same = ctx.fn(f'{DSG}.is_same')
    rr = returns_of(same)
    fps = {'self.fingerprint()', f'{same.params[1]}.fingerprint()'}
    def _needs_fps(e):
        # the fingerprint comparison itself, or a conjunction one of whose operands is (`sizes_equal and fp == fp`)
        e = expand_locals(same, e, 2)
        if isinstance(e, ast.Compare) and len(e.ops) == 1 and isinstance(e.ops[0], ast.Eq) and \
                {norm(e.left), norm(e.comparators[0])} == fps:
            return True
        return isinstance(e, ast.BoolOp) and isinstance(e.op, ast.And) and any(_needs_fps(v_) for v_ in e.values)
    cmp_rets = [r for r in rr if r.value is not None and _needs_fps(r.value)]
    others = [r for r in rr if r not in cmp_rets]
    last = cmp_rets[0] if cmp_rets else (rr[-1] if rr else None)
    # every other way out answers "not the same" (cheap size tests)
    ok = bool(cmp_rets) and all(isinstance(r.value, ast.Constant) and r.value.value is False for r in others)
    ctx.ob(rule, fkey(same, rule, 'is-same-compares-both-fingerprints'), ok, same.where,
           'is_same compares the fingerprints of both graphs', short(last) if last else 'missing')


def node_identity(ctx, rule='A8n'):
    h = ctx.fn(f'{NODES}:DSGNode.__hash__')
    ok = norm(returns_of(h)[0].value) == 'self._id'
    ctx.ob(rule, fkey(h, rule, 'hash-is-stored-id'), ok, h.where, 'a node hashes to its stored id', '')
    e = ctx.fn(f'{NODES}:DSGNode.__eq__')
    ok = norm(returns_of(e)[0].value) == f'self._id == hash({e.params[1]})'
    ctx.ob(rule, fkey(e, rule, 'eq-consistent-with-hash'), ok, e.where,
           'node equality is id equality (consistent with __hash__)', short(returns_of(e)[0]))
    u = ctx.fn(f'{NODES}:DSGNode.update_node_id')
    t = FnText(ctx, u)
    ok = 'self._id = hash(self._obj_id or id(self))' in t
    ctx.ob(rule, fkey(u, rule, 'id-from-given-or-object-id'), ok, u.where,
           'the id is the hash of the given object id, or of the object identity when none was given', t)
    c = ctx.fn(f'{NODES}:DSGNode.copy_node')
    t = FnText(ctx, c)
    ok = 'node_copy = copy.copy(self)' in t and 'node_copy.update_node_id()' in t
    ctx.ob(rule, fkey(c, rule, 'copy-node-refreshes-id'), ok, c.where,
           'a copied node gets its id refreshed (it is a different node unless it carries an explicit id)', '')
    hd = ctx.prog.cls('adsg_core.graph.graph_edges:HashableDict')
    for m in ('__setitem__', '__delitem__'):
        f = hd.methods.get(m)
        ok = f is not None and any(norm(s) == 'self._key_cache = None' for s in f.body) and \
            any('super()' in norm(s) for s in f.body)
        ctx.ob(rule, fkey(f, rule, 'key-cache-invalidated') if f else f'{hd.key}:{m}', ok, hd.where,
               f'HashableDict.{m} invalidates the cached hash', '')
    k = [f for n, f in hd.methods.items() if n.endswith('__key')]
    ok = bool(k) and 'hash(tuple(((k, self[k]) for k in sorted(self))))' in ' '.join(norm(s) for s in k[0].body)
    ctx.ob(rule, fkey(k[0], rule, 'hash-of-sorted-items') if k else f'{hd.key}:__key', ok, hd.where,
           'the hash of an edge attribute dict is the hash of its items sorted by key (insertion order does not '
           'matter)', '')


def copy_preserves(ctx, rule='A8c'):
    fn = ctx.fn(f'{DSG}.get_for_adjusted')
    from ..rules import shared as _shc
    ok = False
    cls = ctx.prog.cls(DSG)
    classes = [cls] + ctx.prog.subclasses(cls)
    sites = []
    for u in unit_functions(ctx.prog, fn):
        for c in [c for c in walk_fn(u) if isinstance(c, ast.Call) and norm(c.func) == 'self.__class__']:
            for kw_arg, v, vf in _shc._effective_keywords(ctx.prog, u, c):
                if kw_arg != '_choice_con_map':
                    continue
                # the value as get_for_adjusted supplies it (the constructor call may sit in a wrapper helper)
                sites += [(bv, bvf) for bf, bc, bv, bvf in _shc._through_params(ctx.prog, classes, u, c, v, vf)
                          if bf is fn]
    oks = []
    # a wrapper that copies the list under a boolean parameter: decided by interpreting it for get_for_adjusted's call
    for u in unit_functions(ctx.prog, fn)[1:]:
        if any(isinstance(c, ast.Call) and norm(c.func) == 'self.__class__' for c in walk_fn(u)):
            fl = _shc._flagged_wrapper_sites(ctx.prog, classes, u, '_choice_con_map')
            for bf, bc, fresh, shown, vt in fl or []:
                if bf is fn:
                    oks.append(vt == ('call', ('attr', ('attr', ('name', 'self'), '_choice_constraints'), 'copy'), ()))
                    sites = [(v_, vf_) for v_, vf_ in sites if vf_ is not u]
    for v, vf in sites:
        if True:
            exprs = [v]
            if isinstance(v, ast.Name):
                exprs = [d.value for d in walk_fn(vf) if isinstance(d, ast.Assign) and norm(d.targets[0]) == v.id]
            # a new list holding the same constraint objects: .copy() / list(..) of the receiver's own list
            oks.append(bool(exprs) and all(
                isinstance(e, ast.Call) and 'self._choice_constraints' in norm(e) and
                ((isinstance(e.func, ast.Attribute) and e.func.attr == 'copy' and
                  norm(e.func.value) == 'self._choice_constraints') or
                 (isinstance(e.func, ast.Name) and e.func.id == 'list')) for e in exprs))
    ok = bool(oks) and all(oks)
    ctx.ob(rule, fkey(fn, rule, 'constraint-objects-kept'), ok, fn.where,
           'a derived graph receives the same constraint objects (constraints hash by identity, so the copy hashes '
           'equal) in a new list', '')
    b = ctx.fn(f'{BASIC}._mod_graph_adjust_kwargs')
    ok = "kwargs['start_nodes'] = self._start_nodes" in FnText(ctx, b)
    ctx.ob(rule, fkey(b, rule, 'start-nodes-kept'), ok, b.where, 'a derived graph keeps the start nodes', '')
    c = ctx.fn(f'{DSG}.copy')
    ok = norm(returns_of(c)[0].value) == 'self.get_for_adjusted()'
    ctx.ob(rule, fkey(c, rule, 'copy-is-unmodified-derive'), ok, c.where, 'copy() derives without modification', '')
    cc = ctx.prog.cls(f'{CCON}:ChoiceConstraint')
    h = cc.methods.get('__hash__')
    ok = h is not None and norm(returns_of(h)[0].value) == 'id(self)'
    ctx.ob(rule, fkey(h, rule, 'constraint-hash-by-identity') if h else f'{cc.key}:__hash__', ok, cc.where,
           'a choice constraint hashes by identity (two graphs are equal only if they share the constraint '
           'object)', '')


def ordering_keys(ctx, rule='A18'):
    items = [(f'{BASIC}._choice_sort_key', None), (f'{DSG}.get_option_nodes', 'sorted'),
             (f'{NODES}:ConnectionChoiceNode.get_sorted_connector_nodes', 'sorted')]
    for key, _ in items:
        fn = ctx.fn(key)
        bad = []
        for sub in walk_fn(fn):
            if isinstance(sub, ast.Call) and isinstance(sub.func, ast.Name) and sub.func.id in ('hash', 'id'):
                bad.append(short(sub))
        ctx.ob(rule, fkey(fn, rule, 'ordering-key-stable'), not bad, fn.where,
               'the ordering key that fixes design-variable order uses names / decision ids / option ids - never '
               'builtin hash() or id(), which differ between processes', f'uses {bad}' if bad else
               FnText(ctx, fn)[:120])
    fn = ctx.fn(f'{DSG}.ordered_choice_nodes')
    ok = norm(returns_of(fn)[0].value) == f'sorted({fn.params[1]}, key=self._choice_sort_key)'
    ctx.ob(rule, fkey(fn, rule, 'choices-sorted-by-key'), ok, fn.where,
           'choice nodes (sets) are always brought into the order of the stable sort key', '')


def exports(ctx, rule='A8x'):
    fn = ctx.fn(f'{DSG}._get_graph_for_export')
    t = FnText(ctx, fn)
    ok = 'graph.add_edges_from(self._graph.edges(data=True))' in t and \
        'graph.add_nodes_from(self._graph.nodes(data=True))' in t
    ctx.ob(rule, fkey(fn, rule, 'export-graph-has-all'), ok, fn.where,
           'the graph handed to the exporters contains every edge and every node (isolated nodes included)', '')
    g = ctx.fn('adsg_core.graph.export:export_gml')
    ok = 'nx.write_gml(graph, fp, stringizer=str)' in FnText(ctx, g)
    ctx.ob(rule, fkey(g, rule, 'gml-writes-whole-graph'), ok, g.where, 'GML export writes the whole graph', '')
    # ... and what is written is the graph that was passed in: node *objects* are the identity of a node, their
    # labels need not be unique (two `Pump` nodes in different branches), so nothing keyed by label may come between
    from ..cfg import build_rd
    gcfg = build_cfg(g)
    grd = build_rd(g)
    wr = [n for n in gcfg.nodes if n.ast is not None and n.kind in ('stmt', 'test') and
          any(isinstance(c, ast.Call) and call_name(c) == 'write_gml' for c in ast.walk(n.ast))]
    if wr:
        c = [c for c in ast.walk(wr[0].ast) if isinstance(c, ast.Call) and call_name(c) == 'write_gml'][0]
        a0 = c.args[0] if c.args else None
        ds = list(grd.defs_of(a0.id, wr[0])) if isinstance(a0, ast.Name) else []
        ok = isinstance(a0, ast.Name) and a0.id == g.params[0] and all(d.kind == 'entry' for d in ds)
        ctx.ob(rule, fkey(g, rule, 'gml-writes-the-graph-passed-in'), ok, g.where,
               'the graph written is the graph passed in (nodes identified by their objects); it is not rebuilt with '
               'nodes keyed by their label, which merges distinct nodes that share a label',
               'parameter written as is' if ok else
               '; '.join(short(d.ast, 70) for d in ds if d.ast is not None) or 'the written object is not the parameter')


def dot_draws_every_edge(ctx, rule='A8x'):
    """export_dot: the rendering is a description of the graph - every edge of the graph is drawn, except one whose
    pair of end nodes has been drawn already (incompatibilities are stored as two opposite edges and drawn once).  On
    the CFG: inside the loop over the graph's edges, the next iteration cannot be reached without passing the drawing
    call, other than over an edge on which `<pair> in <set of pairs recorded by this loop>` holds."""
    fn = ctx.fn('adsg_core.graph.export:export_dot')
    cfg = build_cfg(fn)
    loops = [n for n in cfg.nodes if n.kind == 'for' and isinstance(n.ast.iter, ast.Call) and
             call_name(n.ast.iter) == 'edges' and isinstance(n.ast.target, ast.Tuple) and len(n.ast.target.elts) >= 2]
    if not loops:
        raise AnalysisError('export_dot: loop over the edges of the graph not found')
    lp = loops[0]
    ends = [norm(e) for e in lp.ast.target.elts[:2]]
    inside = {id(x) for st in lp.ast.body for x in ast.walk(st)}
    draws = [n for n in cfg.nodes if n.ast is not None and id(n.ast) in inside and n.kind == 'stmt' and
             any(isinstance(c, ast.Call) and call_name(c) == 'add_edge' for c in ast.walk(n.ast))]
    if not draws:
        raise AnalysisError('export_dot: no add_edge call inside the edge loop')
    # sets of pairs the loop records: `S |= {(u, v), ..}`, `S.add((u, v))`, `S.update(..)`
    recorded = set()
    for st in lp.ast.body:
        for x in ast.walk(st):
            if isinstance(x, ast.AugAssign) and isinstance(x.op, ast.BitOr) and isinstance(x.target, ast.Name) and \
                    any(isinstance(t, ast.Tuple) and sorted(norm(e) for e in t.elts) == sorted(ends)
                        for t in ast.walk(x.value)):
                recorded.add(x.target.id)
            if isinstance(x, ast.Call) and call_name(x) in ('add', 'update') and isinstance(x.func, ast.Attribute) and \
                    isinstance(x.func.value, ast.Name) and \
                    any(isinstance(t, ast.Tuple) and sorted(norm(e) for e in t.elts) == sorted(ends)
                        for a in x.args for t in ast.walk(a)):
                recorded.add(x.func.value.id)

    def shown(atom, truth):
        if not (isinstance(atom, ast.Compare) and len(atom.ops) == 1 and isinstance(atom.left, ast.Tuple) and
                sorted(norm(e) for e in atom.left.elts) == sorted(ends) and
                isinstance(atom.comparators[0], ast.Name) and atom.comparators[0].id in recorded):
            return False
        return (isinstance(atom.ops[0], ast.In) and truth is True) or (isinstance(atom.ops[0], ast.NotIn) and truth is False)
    ge = cfg.edges_implying(shown)
    starts = [m for m, lab in lp.succ if lab == 'T']
    reach = cfg.reachable(starts, blocked_nodes=draws, blocked_edges=ge, labels_excluded=('exc',))
    ok = lp.id not in reach
    detail = f'{len(draws)} drawing call(s), {len(ge)} already-shown guard edge(s) on {sorted(recorded) or "no recorded set"}'
    if not ok:
        pth = next((cfg.find_path(st_, lp, blocked_nodes=draws, blocked_edges=ge, labels_excluded=('exc',))
                    for st_ in starts), None)
        if pth:
            detail = 'an edge is skipped on: ' + guards.path_text(pth)
    ctx.ob(rule, fkey(fn, rule, 'dot-draws-every-edge'), ok, fn.where,
           'every edge of the graph is drawn in the DOT export, except an edge whose pair of end nodes has already been '
           'drawn (an incompatibility stored in one direction only is still drawn)', detail)


def check(ctx):
    hash_completeness(ctx)
    dot_draws_every_edge(ctx)
    node_identity(ctx)
    copy_preserves(ctx)
    ordering_keys(ctx)
    exports(ctx)
    invalidate.check_cached_function_key(ctx)
    # same design space in another process -> same on-disk cache entries: completeness of the settings cache key
    from . import c12 as _c12
    _c12.cache_keys(ctx)
    # a pickled graph / processor describes the same object after loading: pickling hooks only drop rebuildable caches
    from ..rules import shared as _sh18
    _sh18.check_getstate_drops(ctx)
    # ... and what *is* pickled along (the instance caches of a used processor) answers like a fresh processor: the
    # memoised stores on the decode path are canonical (complete keys)
    from ..rules import persist as _ps18
    _ps18.check_decode_memos(ctx)
    edges.check_walks(ctx, categories={'copy-export'})
    ctx.floor('A8', 14, 'hash / fingerprint components')
    ctx.floor('A4', 4, 'copy / export walks')


from ..selftest import V  # noqa: E402

VARIANTS = [
    V('dot-export-skips-backward-incompatibility-edges', 'graph/export.py',
      [("            if (u, v) in shown_incompatibilities:\n                continue\n            shown_incompatibilities |= {(u, v), (v, u)}\n",
        "            if node_id_map[u] > node_id_map[v]:\n                continue\n")], key='dot-draws-every-edge'),
    V('dot-export-shown-pairs-by-add', 'graph/export.py',
      [("            if (u, v) in shown_incompatibilities:\n                continue\n            shown_incompatibilities |= {(u, v), (v, u)}\n",
        "            if (u, v) not in shown_incompatibilities:\n                shown_incompatibilities.add((u, v))\n                shown_incompatibilities.add((v, u))\n            else:\n                continue\n")],
      expect='silent', why='same de-duplication with add() and an inverted test'),
    V('node-fingerprint-memoised-on-node', 'graph/adsg.py',
      [("            return hash(node.str_context())", "            if getattr(node, '_ctx_hash', None) is None:\n                node._ctx_hash = hash(node.str_context())\n            return node._ctx_hash")], key='node-fingerprint-from-string-now'),
    V('gml-nodes-merged-by-label', 'graph/export.py',
      [("    nx.write_gml(graph, fp, stringizer=str)", "    graph = nx.relabel_nodes(graph, {node: str(node) for node in graph.nodes})\n    nx.write_gml(graph, fp, stringizer=str)")], key='gml-writes-the-graph-passed-in'),
    V('hash-ignores-edges', 'graph/adsg.py',
      [("        return hash((start_nodes, node_hashes, edge_hashes, constraints_hashes))", "        return hash((start_nodes, node_hashes, constraints_hashes))")],
      key='covers:edges'),
    V('hash-ignores-constraints', 'graph/adsg.py',
      [("        return hash((start_nodes, node_hashes, edge_hashes, constraints_hashes))", "        return hash((start_nodes, node_hashes, edge_hashes))")],
      key='covers:constraints'),
    V('hash-unsorted-nodes', 'graph/adsg.py',
      [("        node_hashes = tuple(sorted([hash(node) for node in g.nodes]))", "        node_hashes = tuple([hash(node) for node in g.nodes])")],
      key='order-independent:nodes'),
    V('fingerprint-ignores-start', 'graph/adsg.py',
      [("        return hash((start_fp, nodes_fingerprints, edges_fingerprints, constraint_fps))", "        return hash((nodes_fingerprints, edges_fingerprints, constraint_fps))")],
      key='covers:start-nodes'),
    V('fingerprint-ignores-constraint-type', 'graph/adsg.py', [("            cc.type.name,\n", "")], key='constraint-field:type'),
    V('eq-one-sided', 'graph/adsg.py', [("        return hash(self) == hash(other)", "        return hash(self) == hash(self)")], key='eq-compares-both-hashes'),
    V('node-eq-identity', 'graph/adsg_nodes.py', [("        return self._id == hash(other)", "        return self is other")], key='eq-consistent-with-hash'),
    V('copy-node-keeps-id', 'graph/adsg_nodes.py', [("        node_copy.update_node_id()\n", "")], key='copy-node-refreshes-id'),
    V('hashable-dict-stale-key', 'graph/graph_edges.py',
      [("    def __setitem__(self, key, value):\n        super().__setitem__(key, value)\n        self._key_cache = None", "    def __setitem__(self, key, value):\n        super().__setitem__(key, value)")],
      key='key-cache-invalidated'),
    V('sort-key-uses-hash', 'graph/adsg.py',
      [("                      key=lambda n: (str(n.decision_id or ''), n.option_id))", "                      key=lambda n: (str(n.decision_id or ''), hash(n)))")],
      key='ordering-key-stable'),
    V('export-drops-isolated-nodes', 'graph/adsg.py', [("        graph.add_nodes_from(self._graph.nodes(data=True))\n", "")], key='export-graph-has-all'),
    V('twin-hash-tuple-order', 'graph/adsg.py',
      [("        return hash((start_nodes, node_hashes, edge_hashes, constraints_hashes))", "        return hash((node_hashes, edge_hashes, start_nodes, constraints_hashes))")],
      expect='silent'),
]
