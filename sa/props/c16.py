"""C16 Design-variable nodes receive in-range values exactly when they exist - clamping clauses."""
import ast

from ..rules.match import FnText
from ..model import AnalysisError, norm
from ..cfg import build_cfg, node_exprs
from ..flow import forward_taint
from ..astutil import short, call_name
from ..report import fkey
from ..rules import guards, interval
from ..rules.common import *

META = {'technique': 'static analysis: custom AST/CFG/data-flow rules; interval abstract interpretation of the clamp code over the partition induced by its comparison constants (rules/interval.py)'}

EXPLANATION = (
    'Decides the clamping clauses: (A16) region abstract interpretation of DesignVariableNode.correct_value over '
    'the partition induced by its own comparison constants - for every ordering of the constants (1 option / '
    'several options; lower < upper) every region of the input ends inside the declared closed range and a value '
    'already inside is returned unchanged; (A6) DSG.set_des_var_value stores only values that passed a '
    'correct_value call (of the node itself, or of the linked node) or the bounded affine map of the relative '
    'position, never the raw argument; (A5) decode assigns a design-variable node only under its existence test '
    'and reports the stored / corrected value, not the input; the design-variable definition takes bounds and '
    'options from the node.'
    ' Every design-variable node of the graph is in the list of nodes that receive values.')


def clamp_regions(ctx, rule='A16'):
    fn = ctx.fn(f'{NODES}:DesignVariableNode.correct_value')
    params = fn.params
    if len(params) != 2:
        raise AnalysisError('correct_value: signature changed')
    var = params[1]
    body = fn.node.body
    # discrete: n options, n >= 1 (constructor check); continuous: lower < upper (constructor check)
    n_checked = 0
    for n in (1, 2, 3, 6):
        env = {'len(self.options)': n, 'self.is_discrete': True}
        reps = interval.representatives([0, n - 1, n], integer=True)
        for v in reps:
            it = interval.RegionInterp(var, env, helpers=interval.unit_helpers(ctx, fn))
            out, _ = it.run(body, v, flags={'self.is_discrete': True,
                                            'self.bounds is None and self.options is None': False})
            n_checked += 1
            want = min(max(v, 0), n - 1)
            ok = out.kind == 'return' and out.value == want
            ctx.ob(rule, fkey(fn, rule, f'discrete:n={n}:v={v}'), ok, fn.where,
                   f'option index {v} with {n} option(s) is corrected to {want} (clamped into [0, {n - 1}], '
                   f'unchanged when already inside)', f'{out.kind} {out.value}', nontrivial=(v in (-1, 0, n - 1, n)))
    for lo, hi in ((0.0, 1.0), (-2.0, 3.5), (10.0, 11.0)):
        env = {'self.bounds[0]': lo, 'self.bounds[1]': hi}
        reps = interval.representatives([lo, hi], integer=False)
        for v in reps:
            it = interval.RegionInterp(var, env, helpers=interval.unit_helpers(ctx, fn))
            out, _ = it.run(body, v, flags={'self.is_discrete': False,
                                            'self.bounds is None and self.options is None': False})
            n_checked += 1
            want = min(max(v, lo), hi)
            ok = out.kind == 'return' and out.value == want
            ctx.ob(rule, fkey(fn, rule, f'continuous:[{lo},{hi}]:v={v}'), ok, fn.where,
                   f'value {v} with bounds [{lo}, {hi}] is corrected to {want}', f'{out.kind} {out.value}',
                   nontrivial=(v in (lo, hi, lo - 1, hi + 1)))
            if out.kind == 'return':
                vals = it.ret_tuple(out.node, _)
                frac = vals[1] if len(vals) > 1 else None
                wantf = (want - lo) / (hi - lo)
                ctx.ob(rule, fkey(fn, rule, f'fraction:[{lo},{hi}]:v={v}'),
                       frac is not None and abs(frac - wantf) < 1e-12, fn.where,
                       f'the relative position returned for value {v} is that of the *corrected* value '
                       f'({wantf:.3f}, always inside [0, 1]) - it is what linked variables are set from',
                       f'fraction {frac}', nontrivial=(v < lo or v > hi))
    # the constructor establishes the orderings the regions rely on
    init = ctx.fn(f'{NODES}:DesignVariableNode.__init__')
    txt = FnText(ctx, init)
    ok1 = 'bounds[0] >= bounds[1]' in txt or 'bounds[1] <= bounds[0]' in txt
    ok2 = 'len(options) < 1' in txt or 'len(options) == 0' in txt or 'not options' in txt
    ctx.ob(rule, fkey(init, rule, 'lower<upper'), ok1, init.where,
           'the node constructor rejects bounds with lower >= upper (the clamp regions assume lower < upper)', '')
    ctx.ob(rule, fkey(init, rule, 'n>=1'), ok2, init.where,
           'the node constructor rejects an empty option list (the clamp regions assume at least one option)', '')
    return n_checked


def set_value_sanitised(ctx, rule='A6'):
    fn = ctx.fn(f'{DSG}.set_des_var_value')
    cfg = build_cfg(fn)
    params = fn.params
    raw = params[2] if len(params) > 2 else None
    if raw is None:
        raise AnalysisError('set_des_var_value: signature changed')

    def sanitizer(e):
        return isinstance(e, ast.Call) and call_name(e) == 'correct_value'
    IN, tainted = forward_taint(fn, {raw}, sanitizer=sanitizer)
    stores = [n for n in cfg.nodes if n.kind == 'stmt' and isinstance(n.ast, ast.Assign) and
              isinstance(n.ast.targets[0], ast.Subscript) and '_des_var_values' in norm(n.ast.targets[0].value)]
    if len(stores) < 2:
        raise AnalysisError('set_des_var_value: stores into _des_var_values not found')
    for i, s in enumerate(stores):
        bad = tainted(s.ast.value, IN[s.id])
        ctx.ob(rule, fkey(fn, rule, f'store-sanitised:{short(s.ast.targets[0], 50)}'), not bad,
               f'{fn.module.relpath}:{s.lineno}',
               'a value stored for a design-variable node has passed correct_value (or is computed from the '
               'relative position inside the bounds), never the raw argument',
               f'{short(s.ast, 80)}; names carrying the raw argument here: {sorted(IN[s.id])}')
    # the value stored for a *linked* node is in that node's own domain
    linked = [s for s in stores if 'linked' in norm(s.ast.targets[0].slice) or s is stores[-1]]
    s = stores[-1]
    from ..flow import Slice
    sl = Slice(fn)
    own = fn.params[1] if len(fn.params) > 1 else None
    lstores = [x for x in stores if norm(x.ast.targets[0].slice) != own] or [s]
    if len({norm(x.ast.targets[0].slice) for x in lstores}) != 1:
        raise AnalysisError('set_des_var_value: stores for more than one kind of linked node key')
    s = lstores[-1]
    origins = [v for x in lstores for _, v, _, _ in sl.origins(x.ast.value, x) if v is not None] + \
        [x.ast.value for x in lstores]
    # extract-method: a value computed by a private helper is read through the helper's returned expressions, with the
    # caller's arguments substituted for the parameters
    import copy
    helpers = {h.name: h for h in unit_functions(ctx.prog, fn)[1:]}
    bounds_pairs = []     # (lower name, upper name, owner text) from `lo, hi = <node>.bounds`

    def note_bounds(f_, sub):
        for a in walk_fn(f_):
            if isinstance(a, ast.Assign) and isinstance(a.targets[0], ast.Tuple) and len(a.targets[0].elts) == 2 and \
                    isinstance(a.value, ast.Attribute) and a.value.attr == 'bounds':
                owner = norm(a.value.value)
                bounds_pairs.append((norm(a.targets[0].elts[0]), norm(a.targets[0].elts[1]), sub.get(owner, owner)))
    note_bounds(fn, {})
    for o in list(origins):
        for c in ast.walk(o):
            h = helpers.get(call_name(c)) if isinstance(c, ast.Call) else None
            if h is None:
                continue
            ctx.touch(h)
            hp = [q for q in h.params if q not in ('self', 'cls')] if isinstance(c.func, ast.Attribute) and \
                h.params and h.params[0] in ('self', 'cls') else list(h.params)
            sub = {q: a for q, a in zip(hp, c.args)}
            sub.update({k.arg: k.value for k in c.keywords if k.arg})
            note_bounds(h, {q: norm(a) for q, a in sub.items()})

            class S(ast.NodeTransformer):
                def visit_Name(self, node):
                    return copy.deepcopy(sub[node.id]) if node.id in sub and isinstance(node.ctx, ast.Load) else node
            hsl, hcfg = Slice(h), build_cfg(h)
            for r in (x for x in walk_fn(h) if isinstance(x, ast.Return) and x.value is not None):
                for v in [r.value] + [v for _, v, _, _ in hsl.origins(r.value, hcfg.node_of(r)) if v is not None]:
                    origins.append(S().visit(copy.deepcopy(v)))
    txts = [norm(o) for o in origins]
    key_node = norm(s.ast.targets[0].slice)
    disc_ok = any(f'{key_node}.correct_value(' in t for t in txts)

    single = {}
    for f_ in [fn] + list(helpers.values()):
        seen_ = {}
        for a in walk_fn(f_):
            if isinstance(a, ast.Assign) and len(a.targets) == 1 and isinstance(a.targets[0], ast.Name):
                seen_.setdefault(a.targets[0].id, []).append(a.value)
        for k_, v_ in seen_.items():
            if len(v_) == 1:
                single.setdefault(k_, v_[0])

    def num(e, env, frac, depth=4):
        if isinstance(e, ast.Constant) and isinstance(e.value, (int, float)):
            return float(e.value)
        if isinstance(e, ast.Name):
            if e.id in env:
                return env[e.id]
            if e.id in single and depth > 0:
                return num(single[e.id], env, frac, depth - 1)
            return frac
        if isinstance(e, ast.BinOp) and isinstance(e.op, (ast.Add, ast.Sub, ast.Mult)):
            a_, b_ = num(e.left, env, frac, depth), num(e.right, env, frac, depth)
            return a_ + b_ if isinstance(e.op, ast.Add) else (a_ - b_ if isinstance(e.op, ast.Sub) else a_ * b_)
        raise ValueError(norm(e))

    def relative(o):
        # evaluates to lower + fraction * (upper - lower), lower/upper being the bounds of the linked node
        if not isinstance(o, ast.BinOp):
            return False
        for lo, hi, owner in bounds_pairs:
            if owner != key_node:
                continue
            try:
                if all(abs(num(o, {lo: 2.0, hi: 10.0}, fr) - (2.0 + fr * 8.0)) < 1e-9 for fr in (0.25, 0.5, 1.0)):
                    return True
            except ValueError:
                continue
        return False
    cont_ok = any(relative(o) for o in origins)
    ctx.ob(rule, fkey(fn, rule, 'linked-discrete-clamped'), disc_ok, f'{fn.module.relpath}:{s.lineno}',
           f'the option index propagated to a linked node is corrected by that node\'s own correct_value '
           f'(its option list may be shorter)', '; '.join(txts)[:200])
    ctx.ob(rule, fkey(fn, rule, 'linked-continuous-relative'), cont_ok, f'{fn.module.relpath}:{s.lineno}',
           'the value propagated to a linked continuous node is lower + fraction*(upper-lower) of that node '
           '(fraction in [0, 1] from the corrected value)', '; '.join(txts)[:200])
    # every linked node receives a value computed from the *driving* node's corrected value: what the loop over the
    # linked nodes reads from before the loop (the corrected value, its relative position) is not re-assigned inside
    # it - otherwise the value clamped for one linked node is what the next one is computed from
    carried = []
    for u in unit_functions(ctx.prog, fn):
        for lp in [x for x in ast.walk(u.node) if isinstance(x, ast.For)]:
            body_nodes = [x for st_ in lp.body for x in ast.walk(st_)]
            if not any(isinstance(x, ast.Call) and call_name(x) == 'correct_value' for x in body_nodes):
                continue
            stored = {x.id for x in body_nodes if isinstance(x, ast.Name) and isinstance(x.ctx, ast.Store)}
            loaded = {x.id for x in body_nodes if isinstance(x, ast.Name) and isinstance(x.ctx, ast.Load)}
            before = set(u.params) | {x.id for x in ast.walk(u.node) if isinstance(x, ast.Name) and
                                      isinstance(x.ctx, ast.Store) and x.lineno < lp.lineno}
            tg = {x.id for x in ast.walk(lp.target) if isinstance(x, ast.Name)}
            carried += [(u, lp, nm) for nm in sorted((stored & loaded & before) - tg)]
    ctx.ob(rule, fkey(fn, rule, 'linked-values-from-the-driving-value'), not carried, fn.where,
           'inside the loop over the linked nodes nothing that was computed from the driving node before the loop is '
           're-assigned (each linked value is a function of the driving value, not of the previous linked value)',
           'no loop-carried value' if not carried else
           f'`{carried[0][2]}` is assigned before the loop at L{carried[0][1].lineno} and re-assigned inside it: the '
           f'next linked node is computed from the previous node\'s clamped value')
    # the fraction comes from correct_value's second result
    frac = [a for a in walk_fn(fn) if isinstance(a, ast.Assign) and isinstance(a.targets[0], ast.Tuple) and
            'bounds_fraction' in norm(a.targets[0]) and 'correct_value' in norm(a.value)]
    exists(ctx, rule, fn, frac, 'fraction-from-correct-value',
           'the relative position is the second result of correct_value (computed after clamping)')
    # non-LINKED constraints on design-variable nodes are rejected before propagating
    raises = [n for n in cfg.nodes if n.kind == 'stmt' and isinstance(n.ast, ast.Raise)]
    g = [n for n in cfg.nodes if n.kind == 'test' and 'ChoiceConstraintType.LINKED' in norm(n.ast)]
    ok = False
    for t in g:
        try:
            # `type != LINKED` -> raise
            if isinstance(t.ast, ast.Compare) and isinstance(t.ast.ops[0], ast.NotEq):
                ok = any(m.kind == 'stmt' and isinstance(m.ast, ast.Raise) for m, lab in t.succ if lab == 'T')
        except Exception:
            pass
    ctx.ob('A5', fkey(fn, 'A5', 'only-linked-propagates'), ok, fn.where,
           'a constraint of another type than LINKED on a design-variable node is rejected (raise) before any '
           'value is propagated', '; '.join(short(t.ast, 60) for t in g))
    if g and ok:
        guards.check_guarded(ctx, 'A5', fn, [stores[-1]],
                             lambda atom, truth: truth is False and isinstance(atom, ast.Compare) and
                             'ChoiceConstraintType.LINKED' in norm(atom) and isinstance(atom.ops[0], ast.NotEq),
                             set(), 'linked-store-after-type-test',
                             'the store to a linked node happens only after the constraint type was found to be '
                             'LINKED')
    # discreteness mismatch is rejected
    mism = [n for u in unit_functions(ctx.prog, fn) for n in build_cfg(u).nodes
            if n.kind == 'test' and 'is_discrete' in norm(n.ast) and
            isinstance(n.ast, ast.Compare) and isinstance(n.ast.ops[0], ast.NotEq)]
    ok = any(m.kind == 'stmt' and isinstance(m.ast, ast.Raise) for t in mism for m, lab in t.succ if lab == 'T')
    ctx.ob('A5', fkey(fn, 'A5', 'same-kind-required'), ok, fn.where,
           'linking a discrete with a continuous design variable is rejected', f'{len(mism)} test(s)')


def decode_assignment(ctx, rule='A5'):
    fn = inlined_view(ctx.prog, ctx.fn(f'{GP}.get_graph'))
    cfg = build_cfg(fn)
    sets = guards.call_nodes(cfg, 'set_des_var_value') + guards.call_nodes(cfg, 'correct_value')
    if not sets:
        raise AnalysisError('get_graph: design-variable assignment not found')
    if len(sets) < 2:
        # one of the two paths (materialised instance: set_des_var_value + read-back; vector only: correct_value) is
        # gone: the value reported on that path is no longer the stored / corrected one
        ctx.ob(rule, fkey(fn, rule, 'reports-corrected-value'), False, fn.where,
               'the corrected vector reports graph_instance.des_var_value(node) (materialised) or '
               'node.correct_value(x)[0] (not materialised), never the input entry',
               f'only `{call_name([c for c in ast.walk(sets[0].ast) if isinstance(c, ast.Call)][0])}` is left: one of '
               f'the two paths reports an uncorrected value')
        return
    # under the existence test of that node
    # loop variables that are elements of the existence array: `for node, exists in zip(nodes, dv_node_existence)`
    zipped = set()
    for lp in ast.walk(fn.node):
        if isinstance(lp, ast.For) and isinstance(lp.iter, ast.Call) and call_name(lp.iter) == 'zip' and \
                isinstance(lp.target, ast.Tuple) and len(lp.target.elts) == len(lp.iter.args):
            zipped |= {norm(t) for t, a in zip(lp.target.elts, lp.iter.args) if 'existence' in norm(a)}

    def exists_fact(atom, truth):
        # `not dv_node_existence[i_dv]` false  <=> existence true
        return truth is True and ((isinstance(atom, ast.Subscript) and 'existence' in norm(atom.value)) or
                                  (isinstance(atom, ast.Name) and atom.id in zipped))
    guards.check_guarded(ctx, rule, fn, sets, exists_fact, set(), 'assign-only-if-node-exists',
                         'a design-variable node receives / reports a value only under the test that the node '
                         'exists in the decoded architecture')
    # reported value = stored / corrected value
    stores = [n for n in cfg.nodes if n.kind == 'stmt' and isinstance(n.ast, ast.Assign) and
              any('used_values[dv_idx]' in norm(t) for t in n.ast.targets)]
    ok = len(stores) >= 2 and all('des_var_value(' in norm(s.ast.value) or 'correct_value(' in norm(s.ast.value)
                                  for s in stores)
    ctx.ob(rule, fkey(fn, rule, 'reports-corrected-value'), ok, fn.where,
           'the corrected vector reports graph_instance.des_var_value(node) (materialised) or '
           'node.correct_value(x)[0] (not materialised), never the input entry',
           '; '.join(short(s.ast, 90) for s in stores))
    # definition from node
    f2 = ctx.fn('adsg_core.optimization.dv_output_defs:DesVar.from_des_var_node')
    cs = [c for c in calls(f2) if isinstance(c.func, ast.Name) and c.func.id == 'cls']
    ok = bool(cs) and norm(kwarg(cs[0], 'bounds')) == f'{f2.params[1]}.bounds' and \
        norm(kwarg(cs[0], 'options')) == f'{f2.params[1]}.options'
    ctx.ob(rule, fkey(f2, rule, 'definition-from-node'), ok, f2.where,
           'the declared design variable takes its bounds and options from the node (declared range = clamping '
           'range)', short(cs[0], 120) if cs else 'constructor call not found')
    # is_discrete cast
    casts = [s for s in walk_fn(fn) if isinstance(s, ast.Assign) and norm(s.targets[0]) == 'des_var_value' and
             isinstance(s.value, ast.IfExp)]
    ok = bool(casts) and 'int(des_var_value) if des_var.is_discrete else float(des_var_value)' in norm(casts[0])
    ctx.ob(rule, fkey(fn, rule, 'discrete-cast'), ok, fn.where,
           'discrete entries are converted to an integer index before assignment, continuous ones to float',
           short(casts[0], 100) if casts else 'missing')


def every_node_listed(ctx, rule='A5'):
    """"Design-variable nodes receive values exactly when they exist": the decode assigns values to the nodes of
    GraphProcessor.design_variable_nodes, so that list is every DesignVariableNode of the graph - re-ordered at most,
    never filtered (a node that is left out exists in the decoded architecture without a value)."""
    fn = ctx.fn(f'{GP}.design_variable_nodes')
    rets = [r for r in returns_of(fn) if r.value is not None]
    if not rets:
        raise AnalysisError('GraphProcessor.design_variable_nodes: no return')
    ok, detail = True, ''
    for r in rets:
        v = expand_locals(fn, r.value, 3)
        src = any(isinstance(x, ast.Attribute) and x.attr == 'des_var_nodes' for x in ast.walk(v))
        dropped = [x for x in ast.walk(v) if
                   (isinstance(x, (ast.ListComp, ast.GeneratorExp, ast.SetComp)) and any(g.ifs for g in x.generators)) or
                   (isinstance(x, ast.Call) and call_name(x) == 'filter') or
                   (isinstance(x, ast.Subscript) and isinstance(x.slice, ast.Slice))]
        if not src or dropped:
            ok = False
            detail = short(r.value, 110) + ('' if src else ' (not taken from the graph\'s des_var_nodes)')
    ctx.ob(rule, fkey(fn, rule, 'every-design-variable-node-listed'), ok, fn.where,
           'the nodes that receive values are all design-variable nodes of the graph (ordered, not filtered)',
           detail or short(rets[0].value, 110))


def check(ctx):
    clamp_regions(ctx)
    every_node_listed(ctx)
    set_value_sanitised(ctx)
    decode_assignment(ctx)
    # which value goes to which design-variable node: the fixed values are merged back into the vector at their own
    # positions (same consumer clauses as C15)
    from .c15 import consumers as _consumers
    _consumers(ctx)
    from ..rules import shared as _sh
    _sh.check_constructor_store(ctx)     # stored values are per graph object: a later decode never rewrites them
    # memoisation on the decode path that assigns the values: keys must cover what the stored value depends on
    from ..rules import persist, decode
    fns, _ = decode.decode_slice(ctx)
    n = persist.check_memo_functions(ctx, [f for f in fns if f.module.name.startswith('adsg_core.optimization.graph_processor') or f.module.name.startswith('adsg_core.optimization.hierarchy')])
    # the instance the values are written to is the caller's own: what get_graph returns is never an object that is
    # still stored in one of the caches (a later decode would write other values into it)
    ps16 = persist.Persist(ctx, [ctx.fn(f'{GP}.get_graph')], fns)
    ps16.check_escape(ctx.fn(f'{GP}.get_graph'), position=0)
    ctx.note(f'A2p: {n} memoising stores on the value-assignment path (graph processor, hierarchy analyzers)')
    ctx.floor('A16', 40, 'regions of correct_value')
    ctx.floor('A6', 4, 'stores in set_des_var_value')
    from ..rules import indexspace as _ix
    _ix.check_position_map_keys(ctx, [f for f in ctx.prog.all_functions() if f.module.name.startswith(('adsg_core.optimization.graph_processor', 'adsg_core.optimization.hierarchy'))],
                                required=[f'{GP}.all_des_var_idx_map'])
    ctx.floor('A21i', 2, 'position maps keyed by objects (design variables, choice nodes)')


from ..selftest import V  # noqa: E402

VARIANTS = [
    V('linked-continuous-gets-raw-fraction-of-own-bounds', 'graph/adsg.py',
      [("                    dep_lower, dep_upper = linked_des_var_node.bounds\n", "                    dep_lower, dep_upper = des_var_node.bounds\n")],
      key='linked-continuous-relative'),
    V('twin-linked-continuous-hoisted', 'graph/adsg.py',
      [("                    dep_value = dep_lower + bounds_fraction * (dep_upper - dep_lower)\n", "                    dep_range = dep_upper - dep_lower\n                    dep_value = dep_lower + bounds_fraction * dep_range\n")],
      expect='silent'),
    V('desvar-compared-by-value', 'optimization/dv_output_defs.py',
      [("    def __str__(self):\n        if self.is_discrete:\n            return f'DV: ", "    def __hash__(self):\n        return hash(self.name)\n\n    def __eq__(self, other):\n        return isinstance(other, DesVar) and self.name == other.name\n\n    def __str__(self):\n        if self.is_discrete:\n            return f'DV: ")], key='A21i'),
    V('clamp-upper-off-by-one', 'graph/adsg_nodes.py',
      [("            elif value >= len(self.options):\n                value = len(self.options)-1", "            elif value > len(self.options):\n                value = len(self.options)-1")],
      key='discrete'),
    V('clamp-to-n', 'graph/adsg_nodes.py',
      [("            elif value >= len(self.options):\n                value = len(self.options)-1", "            elif value >= len(self.options):\n                value = len(self.options)")],
      key='discrete'),
    V('negative-index-kept', 'graph/adsg_nodes.py',
      [("            if value < 0:\n                value = 0\n            elif value >= len(self.options):", "            if value >= len(self.options):")],
      key='discrete'),
    V('upper-bound-not-clamped', 'graph/adsg_nodes.py',
      [("            elif value > upper:\n                value = upper\n", "")], key='continuous'),
    V('lower-clamped-to-upper', 'graph/adsg_nodes.py',
      [("            if value < lower:\n                value = lower\n", "            if value < lower:\n                value = upper\n")],
      key='continuous'),
    V('raw-value-stored', 'graph/adsg.py',
      [("        value, bounds_fraction = des_var_node.correct_value(value)\n        self._des_var_values[des_var_node] = value\n",
        "        self._des_var_values[des_var_node] = value\n        value, bounds_fraction = des_var_node.correct_value(value)\n")],
      key='store-sanitised'),
    V('linked-index-unclamped', 'graph/adsg.py',
      [("                    dep_value, _ = linked_des_var_node.correct_value(value)\n", "                    dep_value = value\n")],
      key='linked-discrete-clamped'),
    V('decode-assigns-absent-node', 'optimization/graph_processor.py',
      [("                if not dv_node_existence[i_dv]:\n                    continue\n                if graph_instance is not None and des_var_node not in graph_instance.des_var_nodes:",
        "                if graph_instance is not None and des_var_node not in graph_instance.des_var_nodes:")],
      key='assign-only-if-node-exists'),
    V('decode-reports-input', 'optimization/graph_processor.py',
      [("                    used_values[dv_idx] = graph_instance.des_var_value(des_var_node)\n", "                    used_values[dv_idx] = des_var_value\n")],
      key='reports-corrected-value'),
    V('twin-clamp-max-min-form', 'graph/adsg_nodes.py',
      [("            if value < 0:\n                value = 0\n            elif value >= len(self.options):\n                value = len(self.options)-1",
        "            if value > len(self.options)-1:\n                value = len(self.options)-1\n            elif not value >= 0:\n                value = 0")],
      expect='silent'),
]
