"""C13 Choice constraints admit exactly the documented index combinations - structural clauses."""
import ast

from ..rules.match import FnText
from ..model import AnalysisError, norm
from ..cfg import build_cfg
from ..astutil import short, call_name
from ..report import fkey
from ..rules import constraints as C, guards
from ..rules.common import *

EXPLANATION = (
    'Decides necessary conditions of the constraint semantics: (A14) the relation between an earlier and a later '
    'choice is derived from the slice bounds / filters of get_constraint_removed_options and from the comparison '
    'in each checker of get_valid_idx_combinations; for every ChoiceConstraintType member both must equal the '
    'documented relation (LINKED =, PERMUTATION !=, UNORDERED <=, UNORDERED_NOREPL <; <= for the pre-shifted '
    'all-permanent NOREPL case); (A7) every dispatch over the constraint types decides every member or is a '
    'tabled subset dispatch; the pre-removal window of UNORDERED_NOREPL and the PERMUTATION overflow rule have '
    'the documented shape; (A15) where an order-sensitive constraint reaches the index-combination filter the '
    'column order must depend on the order of constraint.nodes (it does not: known finding F12); linked '
    'design-variable nodes: see C16.  Not decided: exactness of the offered architectures.'
    ' (A14p) the PERMUTATION overflow removal is applied only under the all-permanent test (F25; CFG dominance plus path-sensitive interpretation); option lists of a constraint come from get_option_nodes.')

DOC = {'LINKED': '=', 'PERMUTATION': '!=', 'UNORDERED': '<=', 'UNORDERED_NOREPL': '<'}
ORDER_SENSITIVE = {'UNORDERED', 'UNORDERED_NOREPL'}


def relations(ctx, rule='A14'):
    fn1, rem = C.removal_relations(ctx)
    fn2, val = C.validity_relations(ctx)
    members = C.cct_members(ctx.prog)
    if set(members) != set(DOC):
        ctx.ob(rule, fkey(fn1, rule, 'members'), False, fn1.where,
               f'the documented relation table covers exactly {sorted(DOC)}', f'members are now {members}')
    for m in members:
        want = DOC.get(m)
        ctx.ob(rule, fkey(fn1, rule, f'removal:{m}'), rem.get(m) == want, fn1.where,
               f'taking option k of one choice keeps exactly the options j of an earlier/later choice with '
               f'earlier {want} later ({m})', f'derived relation: earlier {rem.get(m)} later')
        for perm in (False, True):
            w = want
            if m == 'UNORDERED_NOREPL' and perm:
                w = '<='     # options were pre-shifted by get_constraint_pre_removed_options
            ctx.ob(rule, fkey(fn2, rule, f'validity:{m}:all_permanent={perm}'), val.get((m, perm)) == w, fn2.where,
                   f'the valid index combinations for {m} (all permanent: {perm}) are those with earlier {w} later',
                   f'derived relation: earlier {val.get((m, perm))} later')
    # inactive (-1) entries are ignored, single-column input is unconstrained
    txt = FnText(ctx, fn2)
    # a row is reduced to its active entries (`<row>[<row> != -1]`) and the predicate only decides rows with more than
    # one of them (a test of len(<active>) against 1 / 2) - in the function or a private helper of its unit
    from ..rules import intcmp as _ic13
    unit2 = unit_functions(ctx.prog, fn2)
    act_names = {norm(a.targets[0]) for u in unit2 for a in walk_fn(u)
                 if isinstance(a, ast.Assign) and isinstance(a.value, ast.Subscript) and
                 isinstance(a.value.slice, ast.Compare) and isinstance(a.value.slice.ops[0], ast.NotEq) and
                 norm(a.value.slice.comparators[0]) == '-1' and norm(a.value.slice.left) == norm(a.value.value)}
    lens = []
    for u in unit2:
        for c in ast.walk(u.node):
            if isinstance(c, ast.Compare) and len(c.ops) == 1 and isinstance(c.left, ast.Call) and \
                    call_name(c.left) == 'len' and c.left.args and norm(c.left.args[0]) in act_names:
                try:
                    lens.append(_ic13.value_set(c, _ic13.is_len_of(lambda e: norm(e) in act_names),
                                                domain=tuple(range(0, 6))))
                except _ic13.NotSimple:
                    pass
    ok = bool(act_names) and any(v in (frozenset({2, 3, 4, 5}), frozenset({0, 1})) for v in lens)
    ctx.ob(rule, fkey(fn2, rule, 'inactive-ignored'), ok, fn2.where,
           'choices that are not active together (index -1) are not constrained: rows are compared on their '
           'active entries only, and only when more than one is active', '')
    # PERMUTATION: the pair mask is `col_i != col_j` or-ed with "column i inactive" and "column j inactive"
    ok = False
    for u in unit2:
        for b_ in ast.walk(u.node):
            if not (isinstance(b_, ast.BinOp) and isinstance(b_.op, ast.BitOr)):
                continue
            ops_, todo = [], [b_]
            while todo:
                x = todo.pop()
                if isinstance(x, ast.BinOp) and isinstance(x.op, ast.BitOr):
                    todo += [x.left, x.right]
                else:
                    ops_.append(x)
            ne = [x for x in ops_ if isinstance(x, ast.Compare) and isinstance(x.ops[0], ast.NotEq) and
                  '[:, ' in norm(x.left) and '[:, ' in norm(x.comparators[0])]
            if not ne:
                continue
            def col(e):
                return norm(e.slice.elts[1]) if isinstance(e, ast.Subscript) and isinstance(e.slice, ast.Tuple) and \
                    len(e.slice.elts) == 2 else None
            cols = {col(ne[0].left), col(ne[0].comparators[0])} - {None}
            inact = set()
            for x in ops_:
                if x is ne[0]:
                    continue
                t_ = norm(expand_locals(u, x))
                if '== -1' in t_:
                    inact |= {c_ for c_ in cols if f'[:, {c_}]' in norm(x) or f'[:, {c_}]' in t_}
            ok = ok or (len(cols) == 2 and inact == cols)
    ctx.ob(rule, fkey(fn2, rule, 'permutation-inactive-ignored'), ok, fn2.where,
           'the pairwise PERMUTATION test accepts a pair when either index is inactive (-1)', '')


def pre_removal(ctx, rule='A14p'):
    fn = ctx.fn(f'{CCON}:get_constraint_pre_removed_options')
    txt = FnText(ctx, fn)
    # evaluate the window arithmetic over a few (number of choices, position, number of options) triples
    from ..rules import intcmp
    assigns = {}
    filt = None
    unit = unit_functions(ctx.prog, fn)
    for st in (x for u in unit for x in ast.walk(u.node)):
        if isinstance(st, ast.Assign) and isinstance(st.targets[0], ast.Name) and \
                st.targets[0].id in ('i_start', 'n_dec_after', 'i_end'):
            assigns[st.targets[0].id] = st.value
        if isinstance(st, ast.ListComp) and len(st.generators) == 1 and st.generators[0].ifs and \
                'i_start' in norm(st.generators[0].ifs[0]):
            filt = st.generators[0]
    ok = filt is not None and {'i_start', 'i_end'} <= set(assigns)
    detail = 'window arithmetic not found'
    if ok:
        try:
            ivar = filt.target.elts[0].id if isinstance(filt.target, ast.Tuple) else None
            for n_dec, L in ((2, 3), (3, 3), (2, 5), (3, 6)):
                for i_dec in range(n_dec):
                    env = {'i_dec': i_dec, 'n_dec': n_dec, 'len(choice_constraint.options[i_dec])': L}
                    # the number of options of choice i_dec, whatever the option table is called locally
                    for v_ in assigns.values():
                        for c_ in ast.walk(v_):
                            if isinstance(c_, ast.Call) and norm(c_.func) == 'len' and len(c_.args) == 1 and \
                                    isinstance(c_.args[0], ast.Subscript) and norm(c_.args[0].slice) == 'i_dec':
                                env[norm(c_)] = L
                    for nm in ('i_start', 'n_dec_after', 'i_end'):
                        if nm in assigns:
                            env[nm] = intcmp._const(assigns[nm], env)
                    removed = {j for j in range(L) if intcmp.holds(filt.ifs[0], lambda e: isinstance(e, ast.Name)
                                                                   and e.id == ivar, j, env)}
                    kept = set(range(L)) - removed
                    want = set(range(i_dec, L - (n_dec - 1 - i_dec)))
                    if kept != want:
                        ok = False
                        detail = f'{n_dec} choices with {L} options: choice {i_dec} keeps {sorted(kept)}, ' \
                                 f'a strictly increasing tuple needs {sorted(want)}'
            if ok:
                detail = 'window equals [i, n_opts - (n_choices - 1 - i)) for all sampled shapes'
        except (intcmp.NotSimple, AttributeError) as e:
            raise AnalysisError(f'A14p: unrecognised window arithmetic ({e})')
    ctx.ob(rule, fkey(fn, rule, 'norepl-window'), ok, fn.where,
           'for all-permanent UNORDERED_NOREPL choice number i keeps exactly the options [i, n_opts - (n_choices - '
           '1 - i)) - the only indices that can occur in a strictly increasing tuple', detail)
    perm_p = next((q for q in fn.params if 'permanent' in q), 'permanent_nodes')
    ok = 'all((node in permanent_nodes for node in choice_constraint.nodes))' in txt or any(
        isinstance(c_, ast.Call) and norm(c_.func) == 'all' and len(c_.args) == 1 and
        isinstance(c_.args[0], (ast.GeneratorExp, ast.ListComp)) and len(c_.args[0].generators) == 1 and
        isinstance(c_.args[0].elt, ast.Compare) and len(c_.args[0].elt.ops) == 1 and
        isinstance(c_.args[0].elt.ops[0], ast.In) and norm(c_.args[0].elt.comparators[0]) == perm_p and
        norm(c_.args[0].elt.left) == norm(c_.args[0].generators[0].target) and
        norm(expand_locals(u_, c_.args[0].generators[0].iter, 2)).endswith('.nodes')
        for u_ in unit for c_ in walk_fn(u_))
    ctx.ob(rule, fkey(fn, rule, 'norepl-only-if-all-permanent'), ok, fn.where,
           'the window is only applied when every constrained choice is permanent (otherwise some choices may be '
           'inactive and the window would over-prune)', '')
    # PERMUTATION overflow: a comparison of the number of choices (len(<c>.nodes)) with the largest option count
    # (max(len(..)) over <c>.options); the "all options removed" result is reachable only on its overflow side
    ok = False
    for u in unit:
        ucfg = build_cfg(u)
        defs_ = {norm(a.targets[0]): a.value for a in walk_fn(u) if isinstance(a, ast.Assign) and
                 isinstance(a.targets[0], ast.Name)}
        for t_ in ucfg.nodes:
            if t_.kind != 'test' or not (isinstance(t_.ast, ast.Compare) and len(t_.ast.ops) == 1 and
                                         isinstance(t_.ast.left, ast.Name) and
                                         isinstance(t_.ast.comparators[0], ast.Name)):
                continue
            l_, r_ = t_.ast.left.id, t_.ast.comparators[0].id
            roles = {}
            for nm_ in (l_, r_):
                d_ = norm(expand_locals(u, defs_[nm_], 2)) if nm_ in defs_ else ''
                if d_.startswith('len(') and d_.endswith('.nodes)'):
                    roles[nm_] = 'choices'
                elif d_.startswith('max(') and '.options' in d_ and 'len(' in d_:
                    roles[nm_] = 'options'
            if sorted(roles.values()) != ['choices', 'options']:
                continue
            env_over = {k_: (3 if v_ == 'choices' else 2) for k_, v_ in roles.items()}
            env_eq = {k_: 2 for k_ in roles}
            from ..rules import intcmp as _ic
            try:
                over = bool(_ic.holds(t_.ast, lambda e: False, None, env_over))
                eq_ = bool(_ic.holds(t_.ast, lambda e: False, None, env_eq))
            except _ic.NotSimple:
                continue
            if over == eq_:
                continue        # not the strict "more choices than options" comparison
            lab_over = 'T' if over else 'F'
            alls = [n_ for n_ in ucfg.nodes if n_.kind == 'stmt' and isinstance(n_.ast, ast.Return) and
                    isinstance(n_.ast.value, ast.ListComp) and
                    '.options[' in norm(expand_locals(u, n_.ast.value.elt, 2)) and
                    norm(expand_locals(u, n_.ast.value.generators[0].iter, 2)).endswith('.nodes)')]
            other = {(t_.id, m_.id, lab_) for m_, lab_ in t_.succ if lab_ != lab_over}
            if alls and all(ucfg.can_reach(t_, n_) and
                            not ucfg.can_reach(t_, n_, blocked_edges={(t_.id, m_.id, lab_) for m_, lab_ in t_.succ
                                                                      if lab_ == lab_over}) for n_ in alls):
                ok = True
                overflow_site = (u, ucfg, alls)
    ctx.ob(rule, fkey(fn, rule, 'permutation-overflow'), ok, fn.where,
           'PERMUTATION: all options are removed only when there are more choices than the largest option '
           'count (no injective assignment exists)', '')
    # ... and only when every constrained choice is permanent: choices that are not active together are unconstrained,
    # so with conditionally active choices fewer of them may have to differ than there are options (F25); the same
    # condition the UNORDERED_NOREPL window carries
    if ok:
        u, ucfg, alls = overflow_site

        def all_permanent(atom, truth):
            if isinstance(atom, ast.Name):
                atom = expand_locals(u, atom, 1)        # a flag holding the test
            if truth is not True or not (isinstance(atom, ast.Call) and norm(atom.func) == 'all' and
                                         len(atom.args) == 1):
                return False
            g_ = atom.args[0]
            return isinstance(g_, (ast.GeneratorExp, ast.ListComp)) and isinstance(g_.elt, ast.Compare) and \
                len(g_.elt.ops) == 1 and isinstance(g_.elt.ops[0], ast.In) and \
                norm(g_.elt.comparators[0]) == perm_p
        ge = ucfg.edges_implying(all_permanent)
        ok2 = bool(ge) and all(not ucfg.can_reach(ucfg.entry, n_, blocked_edges=ge) for n_ in alls)
        detail2 = f'{len(ge)} edge(s) imply the all-permanent test'
        if not ok2:
            # path-sensitive second opinion (the test may be split over a flag and several guard clauses): interpret
            # the function abstractly; every path that returns the "all options" list assumes the all-permanent test
            from ..rules import absint
            try:
                # (on the anchor function: a helper that holds the overflow test is interpreted in place, so a guard
                # at its call site counts)
                hs = {h.node.name: h for h in unit_functions(ctx.prog, fn)[1:]}
                paths = absint.Interp(fn, hs, split_tests=True).run()
                def all_removed(q):
                    # the list of (choice, <all its options>) pairs: options indexed, not filtered
                    t_ = absint.fmt(absint._t(q.outcome[1])) if q.outcome[0] == 'return' else ''
                    return '.options' in t_ and 'index(' in t_ and 'enumerate' in t_ and 'filtered(' not in t_
                rem = [q for q in paths if all_removed(q)]

                def assumes_all_permanent(q):
                    return any(v_ is True and isinstance(t_, tuple) and t_[:2] == ('call', ('name', 'all')) and
                               perm_p in absint.fmt(t_) for t_, v_ in q.conds)
                if rem:
                    ok2 = all(assumes_all_permanent(q) for q in rem)
                    detail2 = f'{len(rem)} interpreted path(s) return all options; ' + \
                        ('each assumes the all-permanent test' if ok2 else 'one does not assume the all-permanent test')
            except AnalysisError:
                pass
        ctx.ob(rule, fkey(fn, rule, 'permutation-overflow-only-if-all-permanent'), ok2, fn.where,
               'PERMUTATION: the options are removed up front only when every constrained choice is permanent '
               '(conditionally active choices need not all be active together, a permutation of the active ones may '
               'exist)', detail2)
    f2 = ctx.fn(f'{DSG}.constrain_choices')
    t2 = FnText(ctx, f2)
    ok = 'choice_nodes = self.ordered_choice_nodes(choice_nodes)' in t2
    ctx.ob(rule, fkey(f2, rule, 'choice-order-canonical'), ok, f2.where,
           'the constrained choices are stored in the canonical choice order (the order the relations refer to)', '')
    # the option lists of the constraint are in the canonical option order (get_option_nodes: sorted by option id) -
    # the order the option *indices* of the relations, of the design vector and of the pre-removal refer to; the
    # adjacency order of the graph (successors / out-edges) is the order of insertion
    opt_sources = []
    for u_ in unit_functions(ctx.prog, f2):
        for c_ in walk_fn(u_):
            if isinstance(c_, ast.Call) and call_name(c_) in ('append', 'extend') and c_.args and \
                    isinstance(c_.func, ast.Attribute) and 'option' in norm(c_.func.value):
                opt_sources.append((u_, c_))
            elif isinstance(c_, ast.Assign) and isinstance(c_.targets[0], ast.Name) and \
                    'option' in c_.targets[0].id and isinstance(c_.value, (ast.ListComp, ast.List)):
                opt_sources.append((u_, c_))
    sel = [(u_, c_) for u_, c_ in opt_sources
           if any(isinstance(x_, ast.Call) and call_name(x_) in ('get_option_nodes', 'successors', 'iter_out_edges',
                                                                 'out_edges', 'neighbors') for x_ in ast.walk(c_))]
    if not sel:
        raise AnalysisError('DSG.constrain_choices: where the option lists of a selection-choice constraint come from '
                            'was not recognised')
    ok = all(any(isinstance(x_, ast.Call) and call_name(x_) == 'get_option_nodes' for x_ in ast.walk(c_)) and
             not any(isinstance(x_, ast.Call) and call_name(x_) in ('successors', 'iter_out_edges', 'out_edges',
                                                                   'neighbors') for x_ in ast.walk(c_))
             for u_, c_ in sel)
    ctx.ob(rule, fkey(f2, rule, 'option-order-canonical'), ok, f2.where,
           'the option lists stored in a constraint come from get_option_nodes (canonical option order, the one option '
           'indices refer to), not from the adjacency order of the graph', '; '.join(short(c_, 70) for _, c_ in sel))
    # a raising test that compares the option counts of the constrained choices: any(len(x) != n ...) or the set of
    # lengths having more than one element
    ok = False
    cfg2 = build_cfg(f2)
    for t_ in cfg2.nodes:
        if t_.kind != 'test' or cfg2.exit.id in cfg2.reachable([m for m, lab in t_.succ if lab == 'T'],
                                                              labels_excluded=('exc',)):
            continue
        for c_ in ast.walk(t_.ast):
            if isinstance(c_, ast.Call) and call_name(c_) == 'any' and c_.args and \
                    isinstance(c_.args[0], (ast.ListComp, ast.GeneratorExp)) and \
                    isinstance(c_.args[0].elt, ast.Compare) and isinstance(c_.args[0].elt.ops[0], ast.NotEq) and \
                    'len(' in norm(c_.args[0].elt.left) + norm(c_.args[0].elt.comparators[0]) and \
                    'node_options' in norm(c_.args[0].generators[0].iter):
                ok = True
            if isinstance(c_, ast.Compare) and isinstance(c_.left, ast.Call) and call_name(c_.left) == 'len' and \
                    c_.left.args and isinstance(c_.left.args[0], ast.SetComp) and \
                    'len(' in norm(c_.left.args[0].elt) and 'node_options' in norm(c_.left.args[0].generators[0].iter) \
                    and ((isinstance(c_.ops[0], ast.Gt) and norm(c_.comparators[0]) == '1') or
                         (isinstance(c_.ops[0], ast.NotEq) and norm(c_.comparators[0]) == '1') or
                         (isinstance(c_.ops[0], ast.GtE) and norm(c_.comparators[0]) == '2')):
                ok = True
    ctx.ob(rule, fkey(f2, rule, 'unordered-equal-option-counts'), ok, f2.where,
           'UNORDERED / UNORDERED_NOREPL require the same number of options for every choice', '')
    ok = "raise RuntimeError(f'Node is already constrained: {node}')" in t2
    ctx.ob(rule, fkey(f2, rule, 'one-constraint-per-choice'), ok, f2.where,
           'a choice can be part of one constraint only', '')
    f3 = ctx.fn(f'{DSG}._get_removed_constrained_selection_choices')
    t3 = FnText(ctx, f3)
    # the call receives (constraint, position of the taken choice in constraint.nodes, position of the selected option in
    # constraint.options[<that position>]) - however the two positions are found (enumerate loop, .index, next(...))
    ok = False
    for c_ in calls(f3, 'get_constraint_removed_options'):
        if len(c_.args) != 3 or not all(isinstance(a_, ast.Name) for a_ in c_.args):
            continue
        con, pos, opt = (a_.id for a_ in c_.args)
        pos_ok = any(isinstance(lp, ast.For) and isinstance(lp.iter, ast.Call) and call_name(lp.iter) == 'enumerate' and
                     norm(lp.iter.args[0]) == f'{con}.nodes' and isinstance(lp.target, ast.Tuple) and
                     norm(lp.target.elts[0]) == pos for lp in ast.walk(f3.node))
        for a_ in walk_fn(f3):
            if isinstance(a_, ast.Assign) and norm(a_.targets[0]) == pos:
                v_ = norm(a_.value)
                if v_.startswith(f'{con}.nodes.index(') or (v_.startswith('next(') and
                                                           f'enumerate({con}.nodes)' in v_):
                    pos_ok = True
        opt_ok = any(isinstance(a_, ast.Assign) and norm(a_.targets[0]) == opt and
                     norm(a_.value).startswith(f'{con}.options[{pos}].index(') for a_ in walk_fn(f3))
        ok = pos_ok and opt_ok
    ctx.ob(rule, fkey(f3, rule, 'removal-uses-constraint-positions'), ok, f3.where,
           'the option removal is evaluated with the position of the taken choice in constraint.nodes and the '
           'position of the selected option in constraint.options (the coordinates the relations refer to)', '')


def removal_always_applied(ctx, rule='A14p'):
    """Taking a constrained choice always evaluates the option removal of its constraint: the only ways out of
    `_get_removed_constrained_selection_choices` without calling get_constraint_removed_options are 'the choice is not
    constrained' / 'no option given' (and errors).  A shortcut for some situations (one option left, ...) lets the
    other choices of the constraint keep options the relation forbids."""
    fn = ctx.fn(f'{DSG}._get_removed_constrained_selection_choices')
    cfg = build_cfg(fn)
    cons = [s for s in walk_fn(fn) if isinstance(s, ast.Assign) and isinstance(s.value, ast.Call) and
            call_name(s.value) == 'is_constrained_choice']
    if not cons:
        raise AnalysisError('_get_removed_constrained_selection_choices: constraint look-up not found')
    cname = norm(cons[0].targets[0])
    opt = fn.params[2]
    through = guards.call_nodes(cfg, 'get_constraint_removed_options')
    if not through:
        raise AnalysisError('_get_removed_constrained_selection_choices: removal evaluation not found')
    def allowed(a, t):
        return guards.none_fact(cname, True)(a, t) or guards.none_fact(opt, True)(a, t)
    exempt = set(cfg.edges_implying(allowed))
    for nd in cfg.nodes:        # `A or B` with only allowed disjuncts: its true edge is exempt as well
        if nd.kind == 'test' and isinstance(nd.ast, ast.BoolOp) and isinstance(nd.ast.op, ast.Or) and \
                all(allowed(v, True) for v in nd.ast.values):
            exempt |= {(nd.id, m.id, lab) for m, lab in nd.succ if lab == 'T'}
        if nd.kind == 'test' and isinstance(nd.ast, ast.BoolOp) and isinstance(nd.ast.op, ast.And) and \
                all(allowed(v, False) for v in nd.ast.values):
            exempt |= {(nd.id, m.id, lab) for m, lab in nd.succ if lab == 'F'}
    reach = cfg.reachable([cfg.entry], blocked_nodes=through, blocked_edges=exempt, labels_excluded=('exc',))
    rets = [r for r in guards.return_nodes(cfg) if r.id in reach]
    p = cfg.find_path(cfg.entry, rets[0], blocked_nodes=through, blocked_edges=exempt, labels_excluded=('exc',)) \
        if rets else None
    ctx.ob(rule, fkey(fn, rule, 'removal-evaluated-unless-unconstrained'), not rets, fn.where,
           'every normal return passes get_constraint_removed_options, except where the choice is known to be '
           'unconstrained or no option was given', 'all returns pass the evaluation' if not rets else
           f'return at L{rets[0].lineno} skips it: {guards.path_text(p) if p else ""}')


def order_flow(ctx, rule='A15'):
    fn = ctx.fn(f'{COMPLETE}._reduced_selection_choice_scenarios')
    loops = [s for s in walk_fn(fn) if isinstance(s, ast.For) and 'get_choice_constraints()' in norm(s.iter)]
    if not loops:
        raise AnalysisError('_reduced_selection_choice_scenarios: constraint loop not found')
    lp = loops[0]
    var = norm(lp.target)
    uses = [x for x in ast.walk(lp) if isinstance(x, ast.Attribute) and x.attr == 'nodes' and norm(x.value) == var]
    from ..astutil import parent_map
    pm = {}
    for p in ast.walk(lp):
        for c in ast.iter_child_nodes(p):
            pm[id(c)] = p
    ordered = False
    for u in uses:
        p = pm.get(id(u))
        if isinstance(p, ast.Call) and call_name(p) in ('enumerate', 'list', 'tuple') or \
                isinstance(p, ast.For) and p.iter is u or \
                isinstance(p, ast.comprehension) and p.iter is u or \
                isinstance(p, ast.Attribute) and p.attr == 'index' or isinstance(p, ast.Subscript):
            ordered = True
    passes_type = any(isinstance(c, ast.Call) and call_name(c) == '_merge_scenarios' and
                      any(kw.arg == 'constraint' for kw in c.keywords) for c in ast.walk(lp))
    if not passes_type:
        raise AnalysisError('_reduced_selection_choice_scenarios: constraint type is no longer passed to the merge')
    ctx.ob(rule, fkey(fn, rule, 'constraint-order-flow'), ordered, f'{fn.module.relpath}:{lp.lineno}',
           'order-sensitive constraint types reach the index-combination filter here, so the order in which the '
           'scenarios are merged (= column order) must be taken from the order of constraint.nodes',
           'constraint.nodes is only used as a set (membership); the columns follow the influence-matrix order of '
           'the scenarios' if not ordered else 'order of constraint.nodes is read')
    f2 = ctx.fn(f'{COMPLETE}._merge_scenarios')
    cs = calls(f2, 'get_valid_idx_combinations')
    ok = bool(cs) and norm(kwarg(cs[0], 'is_all_permanent')) == 'is_all_permanent' and len(cs[0].args) >= 2 and \
        norm(cs[0].args[1]) == 'constraint'
    ctx.ob(rule, fkey(f2, rule, 'filter-receives-type-and-permanence'), ok, f2.where,
           'the merge applies get_valid_idx_combinations with the constraint type and the all-permanent flag it '
           'was given', short(cs[0], 120) if cs else 'missing')
    if cs:
        cfg = build_cfg(f2)
        nodes = guards.call_nodes(cfg, 'get_valid_idx_combinations')
        guards.check_guarded(ctx, rule, f2, nodes,
                             guards.none_fact('constraint', False), set(), 'filter-only-with-constraint',
                             'the filter is applied exactly when a constraint type was given')
    perm = [s for s in walk_fn(fn) if isinstance(s, ast.Assign) and norm(s.targets[0]) == 'is_all_permanent']
    ok = bool(perm) and 'Diag.CONFIRMED.value' in norm(perm[0].value) and norm(perm[0].value).startswith('all(')
    ctx.ob(rule, fkey(fn, rule, 'all-permanent-definition'), ok, fn.where,
           'the all-permanent flag is true iff every constrained choice node is initially confirmed',
           short(perm[0], 120) if perm else 'missing')


def fast_counting(ctx, rule='A14f'):
    fn = ctx.fn(f'{FAST}._get_n_combinations')
    txt = FnText(ctx, fn)
    ok = 'count_n_combinations_max(choice_constraint, is_all_permanent=is_all_permanent)' in txt and \
        'n_opts[i_other] = 1' in txt
    ctx.ob(rule, fkey(fn, rule, 'fast-count-uses-relation'), ok, fn.where,
           'the fast encoder counts a constrained group through the same index-combination filter', '')
    f2 = ctx.fn(f'{CCON}:count_n_combinations_max')
    t2 = FnText(ctx, f2)
    ok = 'get_valid_idx_combinations(all_idx_comb, choice_constraint.type, is_all_permanent=is_all_permanent)' in t2
    ctx.ob(rule, fkey(f2, rule, 'count-through-filter'), ok, f2.where,
           'the maximum number of combinations is the number of rows of the full index product that pass the '
           'filter', '')


def check(ctx):
    relations(ctx)
    C.check_dispatchers(ctx)
    pre_removal(ctx)
    order_flow(ctx)
    fast_counting(ctx)
    # linked continuous design variables are set from the relative position that correct_value returns: it must be
    # the position of the corrected value (inside [0, 1]); same region analysis as C16
    from . import c16 as _c16
    _c16.clamp_regions(ctx)
    _c16.set_value_sanitised(ctx)      # LINKED design variables: what each linked node receives
    ctx.floor('A16', 40, 'regions of correct_value (fraction handed to linked variables)')
    ctx.floor('A14', 12, 'relation instances')
    ctx.floor('A7', 6, 'dispatch chains')
    removal_always_applied(ctx)
    # constraining a copy must not add the constraint to the graph it was copied from
    from ..rules import shared as _sh13
    _sh13.check_constructor_store(ctx)


from ..selftest import V  # noqa: E402

VARIANTS = [
    V('permutation-overflow-for-conditional-choices', 'graph/choice_constraints.py',
      [("    if choice_constraint.type == ChoiceConstraintType.PERMUTATION \\\n            and all(node in permanent_nodes for node in choice_constraint.nodes):\n        n_dec = len(choice_constraint.nodes)\n        n_opt_max",
        "    if choice_constraint.type == ChoiceConstraintType.PERMUTATION:\n        n_dec = len(choice_constraint.nodes)\n        n_opt_max")],
      key='permutation-overflow-only-if-all-permanent'),
    V('permutation-overflow-guard-clause', 'graph/choice_constraints.py',
      [("    if choice_constraint.type == ChoiceConstraintType.PERMUTATION \\\n            and all(node in permanent_nodes for node in choice_constraint.nodes):\n        n_dec = len(choice_constraint.nodes)\n        n_opt_max",
        "    is_all_permanent = all(node in permanent_nodes for node in choice_constraint.nodes)\n    if choice_constraint.type == ChoiceConstraintType.PERMUTATION and not is_all_permanent:\n        return []\n    if choice_constraint.type == ChoiceConstraintType.PERMUTATION:\n        n_dec = len(choice_constraint.nodes)\n        n_opt_max")],
      expect='silent', why='the all-permanent test hoisted into a flag and a guard clause'),
    V('forced-choice-skips-removal', 'graph/adsg.py',
      [("        # Get index of decision and chosen option node\n        for i_dec, dec_node in enumerate(choice_constraint.nodes):", "        if len(self.get_option_nodes(sel_choice_node)) <= 1:\n            return []\n\n        # Get index of decision and chosen option node\n        for i_dec, dec_node in enumerate(choice_constraint.nodes):")], key='removal-evaluated-unless-unconstrained'),
    V('unordered-slice-shift', 'graph/choice_constraints.py',
      [("                removed_opts = options[:i_chosen_option]  # Subsequent cannot have lower-index options", "                removed_opts = options[:i_chosen_option+1]  # Subsequent cannot have lower-index options")],
      key='removal:UNORDERED'),
    V('norepl-keeps-same-index', 'graph/choice_constraints.py',
      [("                removed_opts = options[i_chosen_option:]  # Preceding cannot have higher or the same index", "                removed_opts = options[i_chosen_option+1:]  # Preceding cannot have higher or the same index")],
      key='removal:UNORDERED_NOREPL'),
    V('linked-removes-same', 'graph/choice_constraints.py',
      [("removed_opts = [opt for j, opt in enumerate(options) if j != i_chosen_option]", "removed_opts = [opt for j, opt in enumerate(options) if j == i_chosen_option]")],
      key='removal:LINKED'),
    V('check-gte-strict', 'graph/choice_constraints.py',
      [("                if row[i_value] < row[i_value-1]:\n                    return False\n            return True\n\n        _iter_rows(_check_gte)",
        "                if row[i_value] <= row[i_value-1]:\n                    return False\n            return True\n\n        _iter_rows(_check_gte)")],
      key='validity:UNORDERED'),
    V('check-gt-nonstrict', 'graph/choice_constraints.py',
      [("                if row[i_value] <= row[i_value-1]:\n                    return False\n            return True\n\n        _iter_rows(_check_gt)",
        "                if row[i_value] < row[i_value-1]:\n                    return False\n            return True\n\n        _iter_rows(_check_gt)")],
      key='validity:UNORDERED_NOREPL'),
    V('permutation-arm-deleted', 'graph/choice_constraints.py',
      [("        elif choice_constraint.type == ChoiceConstraintType.PERMUTATION:\n            # For permutation constraints, we remove all options with the same index from the other choices\n            if enough_options:\n                removed_opts = [options[i_chosen_option]]\n\n", "")],
      key='PERMUTATION'),
    V('norepl-window-shift', 'graph/choice_constraints.py',
      [("            i_end = len(choice_constraint.options[i_dec]) - n_dec_after", "            i_end = len(choice_constraint.options[i_dec]) - n_dec_after + 1")],
      key='norepl-window'),
    V('reversed-direction', 'graph/choice_constraints.py',
      [("            if i < i_taken_choice:\n                removed_opts = options[i_chosen_option+1:]  # Preceding cannot have higher-index options\n            else:\n                removed_opts = options[:i_chosen_option]",
        "            if i > i_taken_choice:\n                removed_opts = options[i_chosen_option+1:]  # Preceding cannot have higher-index options\n            else:\n                removed_opts = options[:i_chosen_option]")],
      key='removal:UNORDERED'),
    V('inactive-compared', 'graph/choice_constraints.py',
      [("            active_row = row[row != -1]\n", "            active_row = row\n")], key='inactive-ignored'),
    V('twin-check-gte-rewritten', 'graph/choice_constraints.py',
      [("                if row[i_value] < row[i_value-1]:\n                    return False\n            return True\n\n        _iter_rows(_check_gte)",
        "                if row[i_value-1] > row[i_value]:\n                    return False\n            return True\n\n        _iter_rows(_check_gte)")],
      expect='silent'),
    V('twin-linked-filter-eq-complement', 'graph/choice_constraints.py',
      [("removed_opts = [opt for j, opt in enumerate(options) if j != i_chosen_option]", "removed_opts = [opt for j, opt in enumerate(options) if not j == i_chosen_option]")],
      expect='silent'),
]
