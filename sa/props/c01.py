"""C01 Every design vector decodes to a valid architecture instance - structural clauses."""
from ..rules import decode, edges
from ..rules.common import *

EXPLANATION = (
    'Decides, on the parsed source, necessary conditions of "every in-range vector decodes without an implicit '
    'crash to a final, feasible instance": (A5) every result tuple of both hierarchy analyzers carries an '
    'instance that passed the feasibility test; (A17/A5m) existence scenarios without a valid connection set '
    'are marked -1, masked out, and never used to index the pattern list; (A10) no return-arity mismatch or '
    'None dereference on the decode slice; (A9f/A7) time-out / memory errors of the complete analysis fall '
    'back to the fast encoder and every encoder type is registered; (A4) existence analysis and instance '
    'construction follow the same edge types; (A1/A2) no decode corrupts the persistent tables and caches later '
    'decodes rely on; (A5n) the neighbourhood search of the fast encoder reaches every option.  Not decided: that the returned node set is an admissible '
    'closure (quantifies over graph values).')


def check(ctx):
    fns, reach = decode.decode_slice(ctx)
    ctx.note(f'decode slice: {len(fns)} functions')
    decode.feasible_return(ctx)
    decode.sentinel(ctx)
    decode.infeasible_pattern_masking(ctx)
    decode.fallback_to_fast(ctx)
    decode.crash_shapes(ctx, fns)
    decode.closest_combination_distance(ctx)
    # a choice that can never become active (below a derivation cycle nothing derives) is left in every instance and
    # makes every decode fail: the design space graph contains only what the start nodes derive (finding F23)
    from . import c02 as _c02
    _c02.start_closure(ctx)
    # applying a choice wires the selected option to every node that derives the choice; order-sensitive constraints
    # are stored in the canonical choice order both the graph and the analyzers use
    _c02.apply_selection_shape(ctx)
    from . import c13 as _c13
    _c13.pre_removal(ctx)
    # the tables the decode relies on (scenario index sets, caches) are not corrupted by earlier decodes
    from ..rules import persist
    ps = persist.Persist(ctx, [ctx.fn(f'{GP}.get_graph')], fns)
    ps.check_writes()
    # fast encoder: the neighbourhood search reaches every option value
    from .c14 import neighbourhood, candidate_errors
    neighbourhood(ctx)
    # ... and an infeasible candidate is rejected by its loop, never an error of the decode (F24)
    candidate_errors(ctx)
    edges.check_walks(ctx, categories={'derivation', 'incompat-scan', 'default'})
    edges.check_exhaustive_scans(ctx)
    # the connection part of the instance: source/target sides of the connection-matrix code mirror each other
    # (index translations, degree limits), and an encoder cached on disk is only re-used for the same settings
    from . import c11 as _c11
    _c11.existence_patterns(ctx)        # every existence scenario is mapped to a pattern that exists (no index past the list)
    from ..rules import symmetry
    symmetry.check_side_symmetry(ctx)
    from .c12 import cache_keys
    cache_keys(ctx)
    if ctx.tier == 'thorough':
        # crash shapes program-wide (everything under optimization/ and graph/, not only the decode slice)
        from ..rules import shapes
        wide = [f for f in ctx.prog.all_functions() if f not in fns and
                (f.module.name.startswith('adsg_core.optimization.') or f.module.name.startswith('adsg_core.graph.'))
                and not f.module.name.endswith('sel_choice_enc.util')]
        shapes.check_return_arity(ctx, wide, rule='A10a')
        shapes.check_none_deref(ctx, wide, rule='A10b')
        shapes.check_sentinel_truthiness(ctx, ctx.prog.all_functions())
    ctx.floor('A5', 2, 'result tuples of the two analyzers')
    ctx.floor('A17', 3, 'pattern look-ups by existence-map index in GraphProcessor')
    ctx.floor('A10a', 10, 'destructured calls on the decode slice')
    ctx.floor('A10b', 3, 'None-initialised names dereferenced on the decode slice')
    ctx.floor('A4', 15, 'derivation walks')
    from ..rules import shapes as _sh10
    _sh10.check_override_reductions(ctx)
    ctx.floor('A10g', 1, 'reductions over per-scenario degree lists')
    from ..rules import persist as _psm
    _psm.check_decode_memos(ctx)
    from ..rules import shapes as _shr
    _shr.check_sibling_reductions(ctx)
    # design-vector position vs selection-choice position (forced choices have no variable): the decode keeps the
    # two index spaces apart
    from ..rules import indexspace as _ix21
    _ix21.check_index_spaces(ctx, [f'{GP}.get_graph', f'{GP}._update_comb_fixed_mask'])
    _ix21.check_translation(ctx)


from ..selftest import V  # noqa: E402

VARIANTS = [
    V('base-return-infeasible', 'optimization/hierarchy/base.py',
      [("            if graph_instance.feasible:\n                break\n", "            break\n")],
      key='result-instance-feasible'),
    V('fast-drop-feasible-guard', 'optimization/hierarchy/fast.py',
      [("        if graph_instance is None or not graph_instance.feasible:\n            raise RuntimeError('No more feasible graphs!')\n", "        if graph_instance is None:\n            raise RuntimeError('No more feasible graphs!')\n")],
      key='result-instance-feasible'),
    V('fast-none-deref', 'optimization/hierarchy/fast.py',
      [("if graph_instance is None or not graph_instance.feasible:", "if not graph_instance.feasible:")],
      key='graph_instance'),
    V('fast-arity', 'optimization/hierarchy/fast.py',
      [("                return tuple(), graph.copy()\n", "                return graph.copy()\n")], key='_get_graph'),
    V('sentinel-dropped-decode', 'optimization/graph_processor.py',
      [("            if i_exist_pattern == -1:\n                if i_comb is None:", "            if i_exist_pattern == -2:\n                if i_comb is None:")],
      key='sentinel:i_exist_pattern'),
    V('sentinel-dropped-count', 'optimization/graph_processor.py',
      [("                    if i_exist == -1:  # Infeasible existence scheme\n                        n_combinations[i_comb] = 0\n                    else:\n                        existence = assignment_manager.matrix_gen.existence_patterns.patterns[i_exist]",
        "                    if i_comb == -1:  # Infeasible existence scheme\n                        n_combinations[i_comb] = 0\n                    else:\n                        existence = assignment_manager.matrix_gen.existence_patterns.patterns[i_exist]")],
      key='sentinel:i_exist'),
    V('mask-not-passed', 'optimization/graph_processor.py',
      [("sel_choice_opt_idx, mask=self._existence_mask, is_fixed=is_fixed, exclude=self._excluded_cache)\n\n                # If the combination",
        "sel_choice_opt_idx, mask=self._comb_fixed_mask, is_fixed=is_fixed, exclude=self._excluded_cache)\n\n                # If the combination")],
      key='mask-passed'),
    V('mask-not-cleared', 'optimization/graph_processor.py',
      [("                existence_infeasibility_mask[exist_map == -1] = False\n", "                pass\n")],
      key='mask-minus-one'),
    V('no-fast-fallback-on-memory', 'optimization/graph_processor.py',
      [("        except (TimeoutError, MemoryError):\n            analyzer = self.encoders[SelChoiceEncoderType.FAST]",
        "        except TimeoutError:\n            analyzer = self.encoders[SelChoiceEncoderType.FAST]")],
      key='complete-analysis-fallback'),
    V('confirmed-walk-follows-excludes', 'graph/traversal.py',
      [("if get_edge_type(out_edge) in (EdgeType.INCOMPATIBILITY, EdgeType.EXCLUDES):", "if get_edge_type(out_edge) == EdgeType.INCOMPATIBILITY:")],
      key='get_confirmed_edges_for_node'),
    V('traverse-drops-connects', 'graph/traversal.py',
      [("if get_edge_type(edge) in [EdgeType.DERIVES, EdgeType.CONNECTS]}", "if get_edge_type(edge) in [EdgeType.DERIVES]}")],
      key='traverse_until_choice_nodes'),
    # benign twins
    V('twin-whitelist-as-tuple', 'graph/traversal.py',
      [("if get_edge_type(edge) in [EdgeType.DERIVES, EdgeType.CONNECTS]}", "if get_edge_type(edge) in (EdgeType.CONNECTS, EdgeType.DERIVES)}")],
      expect='silent'),
    V('twin-feasible-guard-rewritten', 'optimization/hierarchy/base.py',
      [("            if graph_instance.feasible:\n                break\n\n            # Mark as infeasible and try again\n            feasibility_mask[i_comb] = False\n",
        "            if not graph_instance.feasible:\n                # Mark as infeasible and try again\n                feasibility_mask[i_comb] = False\n                continue\n            break\n")],
      expect='silent'),
    V('twin-sentinel-neq', 'optimization/graph_processor.py',
      [("                if i_exist == -1:\n                    continue\n                i_comb_exist", "                if not i_exist != -1:\n                    continue\n                i_comb_exist")],
      expect='silent'),
]
