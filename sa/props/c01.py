"""C01 Every design vector decodes to a valid architecture instance - structural clauses."""
from ..rules import decode, edges
from ..rules.common import *

EXPLANATION = (
    'Decides, on the parsed source, necessary conditions of "every in-range vector decodes without an implicit '
    'crash to a final, feasible instance": (A5) every result tuple of both hierarchy analyzers carries an '
    'instance that passed the feasibility test; (A17/A5m) existence scenarios without a valid connection set '
    'are marked -1, masked out, and never used to index the pattern list; (A10) no return-arity mismatch or '
    'None dereference on the decode slice; (A9f/A7) time-out / memory errors of the complete analysis fall '
    'back to the fast encoder and every encoder type is registered; (A4) existence analysis and instance '
    'construction follow the same edge types.  Not decided: that the returned node set is an admissible '
    'closure (quantifies over graph values).')


def check(ctx):
    fns, reach = decode.decode_slice(ctx)
    ctx.note(f'decode slice: {len(fns)} functions')
    decode.feasible_return(ctx)
    decode.sentinel(ctx)
    decode.infeasible_pattern_masking(ctx)
    decode.fallback_to_fast(ctx)
    decode.crash_shapes(ctx, fns)
    edges.check_walks(ctx, categories={'derivation', 'incompat-scan', 'default'})
    ctx.floor('A5', 2, 'result tuples of the two analyzers')
    ctx.floor('A17', 3, 'pattern look-ups by existence-map index in GraphProcessor')
    ctx.floor('A10a', 10, 'destructured calls on the decode slice')
    ctx.floor('A10b', 3, 'None-initialised names dereferenced on the decode slice')
    ctx.floor('A4', 15, 'derivation walks')
