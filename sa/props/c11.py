"""C11 Connection choices respect connectors in every existence scenario - structural clauses."""
import ast

from ..rules.match import FnText
from ..model import AnalysisError, norm
from ..cfg import build_cfg
from ..astutil import short, call_name
from ..report import fkey
from ..rules import decode, edges, guards, shared, intcmp
from ..rules.common import *

EXPLANATION = (
    'Decides necessary conditions: (A4) every graph walk involved in connection choices accepts exactly its '
    'triaged edge-type set (exclusion scan = EXCLUDES, degree counting = CONNECTS, group membership and existence '
    'analysis = DERIVES(/CONNECTS), choice adjacency unfiltered); (A17/A5m) existence scenarios without a valid '
    'connection set are marked -1, masked out of the valid designs and never used as an index; (A11) the degree '
    'of a grouping connector is recomputed for the reading graph at each consumer; (A5) applying a connection '
    'choice rejects endpoints that are not connectors of that choice, validates the edge set unless explicitly '
    'told not to, removes the choice node together with the exclusion and source->target derivation edges, and '
    'adds CONNECTS edges with distinct keys for parallel connections; existence patterns: an absent connector is '
    'marked not existing, a grouping connector takes the combined degree of its *existing* members.  Not '
    'decided: exactness of the offered connection sets (C09 territory).')


def apply_shape(ctx, rule='A5'):
    fn = ctx.fn(f'{CHOICES}:get_mod_apply_connection_choice')
    cfg = build_cfg(fn)
    rets = guards.return_nodes(cfg)
    if len(rets) != 1 or not isinstance(rets[0].ast.value, ast.Tuple) or len(rets[0].ast.value.elts) != 3:
        raise AnalysisError('get_mod_apply_connection_choice: unexpected return shape')
    names = [norm(e) for e in rets[0].ast.value.elts]
    t = FnText(ctx, fn)
    defs = {nm: [s for s in walk_fn(fn) if isinstance(s, ast.Assign) and norm(s.targets[0]) == nm] for nm in names}
    rn = defs.get(names[1], [])
    ok = bool(rn) and isinstance(rn[0].value, ast.Set) and any(norm(e) == fn.params[1] for e in rn[0].value.elts)
    ctx.ob(rule, fkey(fn, rule, 'choice-node-removed'), ok, fn.where,
           'the removed-node set of an applied connection choice contains the choice node', short(rn[0]) if rn
           else 'missing')
    re_ = defs.get(names[0], [])
    ok = bool(re_) and 'get_excluded_edges(graph)' in norm(re_[0].value) and \
        'get_deriving_edges(graph)' in norm(re_[0].value)
    ctx.ob(rule, fkey(fn, rule, 'exclusion-and-deriving-edges-removed'), ok, fn.where,
           'the exclusion edges of the choice and the derivation edges between its sources and targets are removed '
           'with it (no constraint edge survives into the instance)', short(re_[0]) if re_ else 'missing')
    # endpoint validation
    # endpoint validation: the raising test rejects an edge (s, t) exactly when s is not a source connector of the
    # choice, or t is given (not None) and is not a target connector - decided as a truth table over the three atoms,
    # for a per-edge test in a loop as well as for any(...) / not all(...) over the edges
    import itertools
    tests = [n for n in cfg.nodes if n.kind == 'test' and 'in_nodes' in norm(n.ast) and 'out_nodes' in norm(n.ast)]

    def rejects(e, env):
        if isinstance(e, ast.BoolOp):
            vals = [rejects(v, env) for v in e.values]
            return all(vals) if isinstance(e.op, ast.And) else any(vals)
        if isinstance(e, ast.UnaryOp) and isinstance(e.op, ast.Not):
            return not rejects(e.operand, env)
        if isinstance(e, ast.Call) and isinstance(e.func, ast.Name) and e.func.id in ('any', 'all') and \
                len(e.args) == 1 and isinstance(e.args[0], (ast.GeneratorExp, ast.ListComp)) and \
                len(e.args[0].generators) == 1 and not e.args[0].generators[0].ifs:
            return rejects(e.args[0].elt, env)      # one offending edge, the others fine
        if isinstance(e, ast.Compare) and len(e.ops) == 1:
            l, r, op = norm(e.left), norm(e.comparators[0]), e.ops[0]
            neg = isinstance(op, (ast.NotIn, ast.IsNot, ast.NotEq))
            if isinstance(op, (ast.In, ast.NotIn)) and l.endswith('[0]') and r == 'in_nodes':
                return env['src'] != neg
            if isinstance(op, (ast.In, ast.NotIn)) and l.endswith('[1]') and r == 'out_nodes':
                return env['tgt'] != neg
            if isinstance(op, (ast.Is, ast.IsNot, ast.Eq, ast.NotEq)) and l.endswith('[1]') and r == 'None':
                return env['none'] != neg
        raise AnalysisError(f'get_mod_apply_connection_choice: unrecognised endpoint test `{norm(e)}`')
    ok = False
    for t_ in tests:
        raising = {lab for m, lab in t_.succ if m.kind == 'stmt' and isinstance(m.ast, ast.Raise)}
        if len(raising) != 1:
            continue
        lab = raising.pop()
        ok = all((rejects(t_.ast, dict(zip(('src', 'none', 'tgt'), v))) == (lab == 'T')) ==
                 ((not v[0]) or ((not v[1]) and (not v[2])))
                 for v in itertools.product((False, True), repeat=3) if not (v[1] and v[2]))
        if ok:
            break
    ctx.ob(rule, fkey(fn, rule, 'endpoints-validated'), ok, fn.where,
           'an edge whose source is not a source connector of the choice, or whose target is not a target '
           'connector, is rejected with an error', short(tests[0].ast) if tests else 'missing')
    ok = 'in_nodes = {edge[0] for edge in iter_in_edges(graph, choice_node)}' in t and \
        'out_nodes = {edge[1] for edge in iter_out_edges(graph, choice_node)}' in t
    ctx.ob(rule, fkey(fn, rule, 'endpoints-are-choice-neighbours'), ok, fn.where,
           'the admissible sources / targets are the in- / out-neighbours of the choice node', '')
    # parallel connections between the same pair get distinct keys: the key of an added edge is read from a counter
    # kept per (source, target) pair, and that counter is advanced for the same pair in the same iteration
    ok = False
    for lp in [x for x in ast.walk(fn.node) if isinstance(x, ast.For)]:
        for c in [x for x in ast.walk(lp) if isinstance(x, ast.Call) and call_name(x) == 'get_edge']:
            k = kwarg(c, 'key')
            if k is None:
                continue
            kx = expand_locals(fn, k, depth=1)
            # counter read: D[pair] or D.get(pair, 0)
            if isinstance(kx, ast.Subscript) and isinstance(kx.value, ast.Name):
                cnt, pair = kx.value.id, norm(kx.slice)
            elif isinstance(kx, ast.Call) and call_name(kx) == 'get' and isinstance(kx.func.value, ast.Name) and \
                    len(kx.args) == 2 and norm(kx.args[1]) == '0':
                cnt, pair = kx.func.value.id, norm(kx.args[0])
            else:
                continue
            if pair != norm(lp.target):
                continue
            adv = [st for st in ast.walk(lp) if
                   (isinstance(st, ast.AugAssign) and isinstance(st.op, ast.Add) and
                    norm(st.target) == f'{cnt}[{pair}]' and norm(st.value) == '1') or
                   (isinstance(st, ast.Assign) and norm(st.targets[0]) == f'{cnt}[{pair}]' and
                    isinstance(st.value, ast.BinOp) and isinstance(st.value.op, ast.Add) and norm(st.value.right) == '1'
                    and norm(expand_locals(fn, st.value.left, depth=1)) in (norm(kx), norm(k)))]
            ok = ok or bool(adv)
    ctx.ob(rule, fkey(fn, rule, 'parallel-edges-distinct-keys'), ok, fn.where,
           'every applied connection becomes a CONNECTS edge; repeated (parallel) connections get distinct keys so '
           'that none is lost in the edge set', '')
    # validation in get_for_apply_connection_choices
    f2 = ctx.fn(f'{DSG}.get_for_apply_connection_choices')
    cfg2 = build_cfg(f2)
    app = guards.call_nodes(cfg2, 'get_mod_apply_connection_choice')
    val_tests = [n for n in cfg2.nodes if n.kind == 'test' and 'validate_conn_edges' in norm(n.ast)]
    ok = bool(val_tests) and bool(app)
    detail = 'no validation test'
    if ok:
        vt = val_tests[0]
        ok = isinstance(vt.ast, ast.BoolOp) and isinstance(vt.ast.op, ast.And) and \
            norm(vt.ast.values[0]) == 'validate' and 'not choice_node.validate_conn_edges(self, edges)' in norm(vt.ast) \
            and any(m.kind == 'stmt' and isinstance(m.ast, ast.Raise) for m, lab in vt.succ if lab == 'T') and \
            not cfg2.can_reach(cfg2.entry, app[0], blocked_nodes=[vt])
        detail = short(vt.ast, 100)
    ctx.ob(rule, fkey(f2, rule, 'validated-unless-told-not-to'), ok, f2.where,
           'a non-empty edge set is validated against the connectors of the choice before it is applied, unless '
           'validate=False was passed explicitly; an invalid set raises', detail)
    ok = 'status_array = self._status_array.copy()' in FnText(ctx, f2)
    ctx.ob(rule, fkey(f2, rule, 'status-copy'), ok, f2.where,
           'the status array of the receiver is copied before the choice is marked as made', '')
    d = ctx.prog.find_method(ctx.prog.cls(DSG), 'get_for_apply_connection_choice')
    td = FnText(ctx, d)
    ok = 'self.get_for_apply_connection_choices([(choice_node, edges)], validate=validate)' in td
    ctx.ob(rule, fkey(d, rule, 'single-delegates-with-validate'), ok, d.where,
           'the single-choice variant delegates with its validate flag', '')
    # decode passes validate=False only with edges produced by the encoder
    g = ctx.fn(f'{GP}.get_graph')
    cs = calls(g, 'get_for_apply_connection_choice')
    ok = bool(cs) and argv(cs[0], 'edges', 1) is not None and norm(argv(cs[0], 'edges', 1)) == 'node_edges'
    src = [s for s in walk_fn(g) if isinstance(s, ast.Assign) and norm(s.targets[0]) == 'node_edges']
    ok = ok and bool(src) and 'conn_node_map[0][conn_edge[0]]' in norm(src[0].value) and \
        'conn_node_map[1][conn_edge[1]]' in norm(src[0].value) and 'for conn_edge in conn_edges' in norm(src[0].value)
    ctx.ob(rule, fkey(g, rule, 'decode-applies-encoder-edges'), ok, g.where,
           'decode applies exactly the edges returned by the connection encoder, mapped source index -> source '
           'connector and target index -> target connector', short(src[0], 120) if src else 'missing')


def _members_tracked(ctx, fn):
    """A loop `for K, V in <derivation map>.items()` in the unit whose body puts K and the elements of V into a list
    (append / extend / +=, directly or through inner loops over V or over a concatenation with V), where the map is
    the result of get_conn_node_derivations (or a helper parameter bound to it)."""
    unit = unit_functions(ctx.prog, fn)
    maps = {}       # function key -> names holding the derivation map
    for u in unit:
        for a in walk_fn(u):
            if isinstance(a, ast.Assign) and isinstance(a.value, ast.Call) and \
                    call_name(a.value) == 'get_conn_node_derivations' and isinstance(a.targets[0], ast.Name):
                maps.setdefault(u.key, set()).add(a.targets[0].id)
    if not maps:
        return False, 'no call of get_conn_node_derivations in the unit'
    for u in unit:      # helper parameters bound to the map
        for c in walk_fn(u):
            if not isinstance(c, ast.Call):
                continue
            callee = next((h for h in unit if h.node.name == call_name(c)), None)
            if callee is None or callee is u:
                continue
            hp = [q for q in callee.params if q not in ('self', 'cls')]
            for q, a in list(zip(hp, c.args)) + [(k.arg, k.value) for k in c.keywords if k.arg]:
                if isinstance(a, ast.Name) and a.id in maps.get(u.key, ()):
                    maps.setdefault(callee.key, set()).add(q)
    for u in unit:
        for lp in walk_fn(u):
            if not (isinstance(lp, ast.For) and isinstance(lp.iter, ast.Call) and
                    isinstance(lp.iter.func, ast.Attribute) and lp.iter.func.attr == 'items' and
                    isinstance(lp.iter.func.value, ast.Name) and lp.iter.func.value.id in maps.get(u.key, ()) and
                    isinstance(lp.target, ast.Tuple) and len(lp.target.elts) == 2 and
                    all(isinstance(e, ast.Name) for e in lp.target.elts)):
                continue
            tags = {lp.target.elts[0].id: {'key'}, lp.target.elts[1].id: {'members'}}

            def tag_of(e):
                out = set()
                for x in ast.walk(e):
                    if isinstance(x, ast.Name):
                        out |= tags.get(x.id, set())
                return out
            got = set()
            for _ in range(3):
                for x in ast.walk(lp):
                    if isinstance(x, ast.For) and x is not lp:
                        for nm in [t.id for t in ast.walk(x.target) if isinstance(t, ast.Name)]:
                            tags[nm] = tags.get(nm, set()) | tag_of(x.iter)
                    elif isinstance(x, ast.Assign) and isinstance(x.targets[0], ast.Name):
                        tags[x.targets[0].id] = tags.get(x.targets[0].id, set()) | tag_of(x.value)
            for x in ast.walk(lp):
                if isinstance(x, ast.Call) and isinstance(x.func, ast.Attribute) and \
                        x.func.attr in ('append', 'extend') and x.args:
                    got |= tag_of(x.args[0])
                elif isinstance(x, ast.AugAssign) and isinstance(x.op, ast.Add):
                    got |= tag_of(x.value)
            if got >= {'key', 'members'}:
                return True, f'{u.qualname} L{lp.lineno}: connectors and members collected'
            return False, f'{u.qualname} L{lp.lineno}: only {sorted(got)} of the derivation map reach the list'
    return False, 'no loop over the items of the derivation map'


def existence_patterns(ctx, rule='A5p'):
    fn = ctx.fn(f'{NODES}:ConnectionChoiceNode.get_assignment_encoding_args')
    ep = fn.nested.get('_exist_process')
    if ep is None:
        # extracted into a method: the helper that evaluates the combined degree of a group per scenario
        ep = next((u for u in unit_functions(ctx.prog, fn)[1:]
                   if any(isinstance(c, ast.Call) and call_name(c) == 'get_combined_deg' for c in walk_fn(u))), None)
    if ep is None:
        raise AnalysisError('get_assignment_encoding_args: per-scenario existence processing not found')
    ctx.touch(ep)
    t = FnText(ctx, ep)
    ok = 'if not existence_mask[flat_idx_map[conn_node_]]' in t and 'exists[ii] = False' in t
    ctx.ob(rule, fkey(ep, rule, 'absent-connector-not-existing'), ok, ep.where,
           'a connector that is absent in the scenario is marked not existing (it gets no connection)', '')
    ok = 'existing_connectors = [der_conn_node for der_conn_node in derivation_nodes[conn_node_] if existence_mask[flat_idx_map[der_conn_node]]]' in t \
        and 'conn_node_.get_combined_deg(existing_connectors)' in t and 'n_conn_override[ii] = deg_list' in t
    ctx.ob(rule, fkey(ep, rule, 'group-degree-from-existing-members'), ok, ep.where,
           'a grouping connector accepts the combined degree of exactly its members that exist in the scenario', '')
    ok = 'if deg_max == math.inf' in t and 'deg_max = n_max[ii]' in t and \
        'list(range(deg_min, (deg_max or deg_min) + 1))' in t
    ctx.ob(rule, fkey(ep, rule, 'open-ended-group-bounded'), ok, ep.where,
           'an open-ended combined degree is bounded by the maximum number of connections the matrix allows', '')
    tt = FnText(ctx, fn)
    ok = 'existence_masks = hierarchy_analyzer.get_nodes_existence(all_conn_nodes)' in tt and \
        'np.unique(existence_masks, axis=0, return_inverse=True)' in tt
    ctx.ob(rule, fkey(fn, rule, 'scenarios-from-node-existence'), ok, fn.where,
           'the existence scenarios are the distinct rows of the node-existence table of all connectors (members '
           'of groups included)', '')
    ok = 'if existence in pattern_idx_map' in tt and 'existence_map[existence_map == i_exist] = pattern_idx_map[existence]' in tt \
        and 'existence_map[existence_map == i_exist] = i_pattern' in tt
    ctx.ob(rule, fkey(fn, rule, 'scenario-to-pattern-map'), ok, fn.where,
           'every scenario is mapped to the index of its (de-duplicated) existence pattern', '')
    ok, detail = _members_tracked(ctx, fn)
    ctx.ob(rule, fkey(fn, rule, 'members-tracked'), ok, fn.where,
           'the members of grouping connectors take part in the existence table: the flat connector list is filled '
           'from both the keys (connectors) and the values (their members) of the derivation map', detail)
    ta = ctx.fn(f'{NODES}:ConnectionChoiceNode.to_assign_node')
    t2 = FnText(ctx, ta)
    ok = 'nr_conn_list=deg_list' in t2 and 'min_conn=deg_min' in t2 and 'max_conn=deg_max' in t2 and \
        'repeated_allowed=connector_node.repeated_allowed' in t2
    ctx.ob(rule, fkey(ta, rule, 'connector-to-assignment-node'), ok, ta.where,
           'degree list / minimum / maximum / repeated-connection flag of the connector are what the matrix '
           'generator receives', '')
    ga = ctx.fn(f'{NODES}:ConnectionChoiceNode._get_assign_nodes')
    t3 = FnText(ctx, ga)
    ok = 'for edge in self.get_excluded_edges(graph)' in t3 and \
        'if edge[0] not in src_obj_map or edge[1] not in tgt_obj_map' in t3 and \
        'excluded.append((src_obj_map[edge[0]], tgt_obj_map[edge[1]]))' in t3 and \
        'MatrixGenSettings(src_objs, tgt_objs, excluded)' in t3
    ctx.ob(rule, fkey(ga, rule, 'excluded-pairs-forwarded'), ok, ga.where,
           'every exclusion edge between a source and a target of the choice becomes an excluded pair of the '
           'matrix generator', '')
    cd = ctx.fn(f'{NODES}:ConnectorDegreeGroupingNode.get_combined_deg')
    # structural part only (the numbers themselves are not decidable here): the bounded result is built from sums
    # over the cartesian product of the members' degree lists, the open-ended one reports no upper limit
    prods = [c for c in ast.walk(cd.node) if isinstance(c, (ast.SetComp, ast.ListComp, ast.GeneratorExp)) and
             isinstance(c.elt, ast.Call) and call_name(c.elt) == 'sum' and
             any(isinstance(x, ast.Call) and call_name(x) == 'product' and x.args and
                 isinstance(x.args[0], ast.Starred) for x in ast.walk(c.generators[0].iter))]
    open_ret = [r for r in walk_fn(cd) if isinstance(r, ast.Return) and isinstance(r.value, ast.Tuple) and
                len(r.value.elts) == 3 and norm(r.value.elts[2]) == 'math.inf']
    ok = bool(prods) and bool(open_ret)
    ctx.ob(rule, fkey(cd, rule, 'combined-degree-is-sumset'), ok, cd.where,
           'the combined degree of a group is the set of sums of one allowed degree per member (open-ended: sum '
           'of the minima, no upper limit)', '')
    ra = ctx.fn(f'{NODES}:ConnectorDegreeGroupingNode.get_repeated_allowed')
    # some member allowing repeated connections makes the group allow them: the result is true under a test of a
    # member's flag (loop + return True, any(...), a comprehension)
    ok = any(isinstance(x, ast.Attribute) and x.attr == 'repeated_allowed' and
             not (isinstance(x.value, ast.Name) and x.value.id == 'self') for x in walk_fn(ra)) and \
        (any(isinstance(c, ast.Call) and isinstance(c.func, ast.Name) and c.func.id == 'any' for c in walk_fn(ra)) or
         any(isinstance(r, ast.Return) and isinstance(r.value, ast.Constant) and r.value.value is True for r in walk_fn(ra)))
    ctx.ob(rule, fkey(ra, rule, 'repeated-if-any-member'), ok, ra.where, '', '')


def amount_filter_membership(ctx, rule='A13g'):
    """The admissible numbers of connections of a connector are a *list that may have gaps* (a grouping connector
    over members [1] and [0,2] accepts {1, 3}).  Where the generator filters candidate amounts against such a list
    (`for i, n_conn in enumerate(n_conns)`), the list is consulted as a set (set difference, `in`, np.isin) - a
    filter that looks only at len()/min()/max() of it accepts the amounts inside a gap."""
    fn = ctx.fn('adsg_core.optimization.assign_enc.matrix:AggregateAssignmentMatrixGenerator._iter_conn_slots_inner_')
    loops = [l for l in ast.walk(fn.node) if isinstance(l, ast.For) and isinstance(l.iter, ast.Call) and
             norm(l.iter.func) == 'enumerate' and l.iter.args and norm(l.iter.args[0]) == fn.params[0] and
             isinstance(l.target, ast.Tuple) and len(l.target.elts) == 2 and isinstance(l.target.elts[1], ast.Name)]
    if not loops:
        raise AnalysisError('_iter_conn_slots_inner_: filter loop over the admissible amounts not found')
    for lp in loops:
        var = lp.target.elts[1].id
        parents = {}
        for p_ in ast.walk(lp):
            for ch in ast.iter_child_nodes(p_):
                parents[id(ch)] = p_
        as_set = []
        for x in ast.walk(lp):
            if isinstance(x, ast.Name) and x.id == var and isinstance(x.ctx, ast.Load):
                par = parents.get(id(x))
                if isinstance(par, ast.Call) and norm(par.func).split('.')[-1] in ('set', 'frozenset', 'isin', 'in1d') and \
                        x in par.args:
                    as_set.append(par)
                elif isinstance(par, ast.Compare) and isinstance(par.ops[0], (ast.In, ast.NotIn)) and \
                        x in par.comparators:
                    as_set.append(par)
        ctx.ob(rule, fkey(fn, rule, f'amount-filter-is-membership:{var}'), bool(as_set), f'{fn.module.relpath}:{lp.lineno}',
               f'candidate amounts are kept only if they are members of the admissible list `{var}` (set difference / '
               f'in / np.isin)', short(as_set[0], 60) if as_set else
               f'`{var}` is never used as a set in the filter: a range test accepts amounts that fall into a gap of the list')


def open_choice_connectors(ctx, rule='A5'):
    """get_unconnected_connectors, connector waiting on a connection choice that is still open: with no counterpart
    left it is unconnectable only if it exists for sure - a connector that a later selection choice may still remove
    does not make the (partial) graph infeasible.  The fast encoder tests feasibility after every selection step.
    Decided on the function or on the private helper that holds the open-choice branch: whatever reports the connector
    there (an append to the result, or a returned verdict) implies that has_conditional_existence() answered no."""
    root = ctx.fn(f'{TRAV}:get_unconnected_connectors')

    def open_choice(atom, truth):
        return truth is True and isinstance(atom, ast.Call) and call_name(atom) == 'isinstance' and \
            len(atom.args) == 2 and 'ConnectionChoiceNode' in norm(atom.args[1])
    site = None
    for fn in unit_functions(ctx.prog, root):
        cfg = build_cfg(fn)
        ge_open = cfg.edges_implying(open_choice)
        if ge_open:
            site = (fn, cfg, ge_open)
            break
    if site is None:
        raise AnalysisError('get_unconnected_connectors: the branch for a still open connection choice was not found')
    fn, cfg, ge_open = site

    def unconditional(atom, truth):
        if isinstance(atom, ast.Name):
            atom = expand_locals(fn, atom, 1)       # a flag holding the answer
        return truth is False and isinstance(atom, ast.Call) and call_name(atom) == 'has_conditional_existence'

    def implies_unconditional(e):
        # a returned verdict: False, or a conjunction one of whose operands is `not has_conditional_existence(..)`
        if isinstance(e, ast.Constant) and e.value is False:
            return True
        if isinstance(e, ast.UnaryOp) and isinstance(e.op, ast.Not):
            return unconditional(e.operand, False)
        if isinstance(e, ast.BoolOp) and isinstance(e.op, ast.And):
            return any(implies_unconditional(v) for v in e.values)
        if isinstance(e, ast.Name):
            return implies_unconditional(expand_locals(fn, e, 1)) if not isinstance(expand_locals(fn, e, 1), ast.Name) \
                else False
        return False
    in_branch = [n for n in cfg.nodes if n.kind == 'stmt' and not cfg.can_reach(cfg.entry, n, blocked_edges=ge_open)]
    apps = [n for n in in_branch if any(isinstance(c, ast.Call) and call_name(c) == 'append' for c in ast.walk(n.ast))]
    rets = [n for n in in_branch if isinstance(n.ast, ast.Return) and n.ast.value is not None and fn is not root]
    open_rets = [n for n in rets if not implies_unconditional(n.ast.value)]
    if not apps and not rets:
        raise AnalysisError('get_unconnected_connectors: nothing is reported in the open-choice branch')
    desc = ('a connector whose connection choice is still open is reported unconnectable only after '
            'has_conditional_existence() answered no (a conditionally existing connector may still be removed by a '
            'later selection choice)')
    sinks = apps + open_rets
    if sinks:
        guards.check_guarded(ctx, rule, fn, sinks, unconditional, set(),
                             'open-choice-connector-only-if-unconditional', desc)
    else:
        ctx.ob(rule, fkey(fn, rule, 'open-choice-connector-only-if-unconditional'), True, fn.where, desc,
               f'{len(rets)} returned verdict(s) conjoin the existence test')


def check(ctx):
    open_choice_connectors(ctx)
    edges.check_walks(ctx, anchors=[f'{NODES}:ConnectionChoiceNode.get_excluded_edges',
                                    f'{NODES}:ConnectionChoiceNode.get_conn_node_derivations',
                                    f'{TRAV}:get_confirmed_edges_for_node', f'{TRAV}:get_unconnected_connectors'])
    decode.sentinel(ctx)
    decode.infeasible_pattern_masking(ctx)
    shared.check_degree_recompute(ctx)
    apply_shape(ctx)
    existence_patterns(ctx)
    # a connection set imputed for one existence scenario is not re-used for another (same present connectors, other
    # degrees of a group): the imputer memo is keyed by the whole existence pattern
    from . import c10 as _c10
    _c10.imputer_memo(ctx)
    from ..rules import symmetry
    symmetry.check_side_symmetry(ctx)
    ctx.floor('A4', 45, 'graph walks')
    ctx.floor('A17', 3, 'pattern look-ups')
    ctx.floor('A5', 9, 'apply-shape clauses')
    from ..rules import patterns as _pt
    _pt.check_state_written_only_when_initialising(ctx)
    ctx.floor('A13i', 8, 'writes of pattern-encoder state')
    from ..rules import shapes as _sh10
    _sh10.check_override_reductions(ctx)
    ctx.floor('A10g', 1, 'reductions over per-scenario degree lists')
    from ..rules import persist as _psm
    _psm.check_decode_memos(ctx)
    amount_filter_membership(ctx)
    # instances with connection edges are cached by the processor: the caches are keyed canonically (A1/A2)
    from ..rules import persist as _ps11, decode as _dc11
    _fns11, _ = _dc11.decode_slice(ctx)
    _ps11.Persist(ctx, [ctx.fn(f'{GP}.get_graph')], _fns11).check_writes()


from ..selftest import V  # noqa: E402

VARIANTS = [
    V('open-choice-connector-reported-without-existence-test', 'graph/traversal.py',
      [("            if not base_conn_node.is_valid(0) and conn_deg == 0 and \\\n                    not has_conditional_existence(graph, start_nodes, base_conn_node):\n",
        "            if not base_conn_node.is_valid(0) and conn_deg == 0:\n")], key='open-choice-connector-only-if-unconditional'),
    V('open-choice-connector-existence-test-as-guard-clause', 'graph/traversal.py',
      [("            if not base_conn_node.is_valid(0) and conn_deg == 0 and \\\n                    not has_conditional_existence(graph, start_nodes, base_conn_node):\n",
        "            is_conditional = has_conditional_existence(graph, start_nodes, base_conn_node)\n            if not base_conn_node.is_valid(0) and conn_deg == 0 and not is_conditional:\n")],
      expect='silent', why='the existence test hoisted into a flag'),
    V('amount-filter-by-range', 'optimization/assign_enc/matrix.py',
      [("                n_invalid = set(tgt_n_conns) - set(n_conn)\n                if len(n_invalid) > 0:\n                    invalid_mask = np.zeros((len(tgt_n_conns),), dtype=bool)\n                    for n in n_invalid:\n                        invalid_mask |= tgt_n_conns == n\n                    n_tgt_combs = n_tgt_combs[~invalid_mask, :]\n",
        "                valid_mask = (tgt_n_conns >= min(n_conn)) & (tgt_n_conns <= max(n_conn))\n                n_tgt_combs = n_tgt_combs[valid_mask, :]\n")], key='A13g'),
    V('empty-degree-list-crashes-encoding', 'optimization/assign_enc/matrix.py',
      [("max([max(n_conns) for n_conns in override_map.values() if len(n_conns) > 0], default=0)", "max([max(n_conns) for n_conns in override_map.values()])")], key='A10g'),
    V('pattern-state-overwritten-by-later-pattern', 'optimization/assign_enc/patterns/patterns.py',
      [("                if not _set_check('surjective', n_min_conn[0] == 1):\n                    return False\n                return True", "                if n_min_conn[0] == 1:\n                    self.surjective = True\n                return True")], key='A13i'),
    V('exclusion-followed-as-derivation', 'graph/traversal.py',
      [("if get_edge_type(out_edge) in (EdgeType.INCOMPATIBILITY, EdgeType.EXCLUDES):", "if get_edge_type(out_edge) == EdgeType.INCOMPATIBILITY:")],
      key='get_confirmed_edges_for_node'),
    V('group-members-over-all-edges', 'graph/adsg_nodes.py',
      [("                for in_edge in iter_in_edges(graph, node, edge_type=EdgeType.DERIVES):\n                    prev_node = in_edge[0]", "                for in_edge in iter_in_edges(graph, node):\n                    prev_node = in_edge[0]")],
      key='get_conn_node_derivations'),
    V('excluded-scan-derives', 'graph/adsg_nodes.py',
      [("excluded += [edge for edge in iter_out_edges(graph, node, edge_type=EdgeType.EXCLUDES)]", "excluded += [edge for edge in iter_out_edges(graph, node, edge_type=EdgeType.DERIVES)]")],
      key='get_excluded_edges'),
    V('degree-counts-all-edges', 'graph/traversal.py',
      [("            conn_deg = get_out_degree(graph, base_conn_node, edge_type=EdgeType.CONNECTS) \\\n                if is_out_conn else get_in_degree(graph, base_conn_node, edge_type=EdgeType.CONNECTS)\n            if not base_conn_node.is_valid(conn_deg):",
        "            conn_deg = get_out_degree(graph, base_conn_node) \\\n                if is_out_conn else get_in_degree(graph, base_conn_node, edge_type=EdgeType.CONNECTS)\n            if not base_conn_node.is_valid(conn_deg):")],
      key='get_out_degree'),
    V('choice-node-kept', 'graph/choices.py', [("    removed_nodes = {choice_node}\n\n    # Create edges with correct keys", "    removed_nodes = set()\n\n    # Create edges with correct keys")], key='choice-node-removed'),
    V('exclusion-edges-kept', 'graph/choices.py',
      [("    removed_edges = set(choice_node.get_excluded_edges(graph)) | set(choice_node.get_deriving_edges(graph))", "    removed_edges = set(choice_node.get_deriving_edges(graph))")],
      key='exclusion-and-deriving-edges-removed'),
    V('endpoints-unchecked', 'graph/choices.py',
      [("        if edge[0] not in in_nodes or (edge[1] is not None and edge[1] not in out_nodes):\n            raise ValueError('Node not part of connection choice')\n", "        pass\n")],
      key='endpoints-validated'),
    V('never-validated', 'graph/adsg.py',
      [("            if validate and len(edges) > 0 and not choice_node.validate_conn_edges(self, edges):", "            if not validate and len(edges) > 0 and not choice_node.validate_conn_edges(self, edges):")],
      key='validated-unless-told-not-to'),
    V('parallel-edges-collapse', 'graph/choices.py', [("            edge_key[edge] += 1\n", "")], key='parallel-edges-distinct-keys'),
    V('absent-connector-exists', 'graph/adsg_nodes.py',
      [("                if not existence_mask[flat_idx_map[conn_node_]]:\n                    exists[ii] = False\n                    continue\n", "")],
      key='absent-connector-not-existing'),
    V('group-degree-from-all-members', 'graph/adsg_nodes.py',
      [("                    existing_connectors = [der_conn_node for der_conn_node in derivation_nodes[conn_node_]\n                                           if existence_mask[flat_idx_map[der_conn_node]]]", "                    existing_connectors = list(derivation_nodes[conn_node_])")],
      key='group-degree-from-existing-members'),
    V('sentinel-ignored', 'optimization/graph_processor.py',
      [("                if i_exist == -1:\n                    continue\n                i_comb_exist", "                i_comb_exist")], key='sentinel:i_exist'),
    V('twin-rename-local-in-exist-process', 'graph/adsg_nodes.py',
      [("                    existing_connectors = [der_conn_node for der_conn_node in derivation_nodes[conn_node_]\n                                           if existence_mask[flat_idx_map[der_conn_node]]]\n                    deg_list, deg_min, deg_max = conn_node_.get_combined_deg(existing_connectors)",
        "                    present = [member for member in derivation_nodes[conn_node_]\n                               if existence_mask[flat_idx_map[member]]]\n                    deg_list, deg_min, deg_max = conn_node_.get_combined_deg(present)")], expect='silent'),
]
