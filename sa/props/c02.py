"""C02 An architecture instance is exactly the derivation closure of the choices made - structural clauses."""
import ast

from ..rules.match import FnText
from ..model import AnalysisError, norm
from ..cfg import build_cfg, node_exprs
from ..astutil import short, call_name
from ..report import fkey
from ..rules import edges, guards, intcmp
from ..rules.common import *

EXPLANATION = (
    'Decides necessary conditions of "the instance is the derivation closure": (A4) every derivation walk '
    '(derived-edge removal, deriving-in-edges, confirmed-node traversal, conditional existence, floating nodes, '
    'necessary derivers) follows only DERIVES/CONNECTS edges, compared as a set with a committed reference; '
    '(A5) applying a selection choice always removes the choice node, wires origin->option from the in-edges of '
    'the choice node, never removes what the selected option derives, and rejects a node that is not an option; '
    'automatic resolution takes exactly the active choices with 0 or 1 options and terminates only when none is '
    'left; `final` means no choice node is left; the status array marks the choice as made and confirms/removes '
    'only not-yet-decided nodes.  Not decided: order independence and equality with a brute-force closure '
    '(runtime graphs).')

ANCHORS = [f'{TRAV}:traverse_until_choice_nodes', f'{TRAV}:get_derived_edges_for_node',
           f'{TRAV}:get_deriving_in_edges', f'{TRAV}:get_confirmed_edges_for_node', f'{TRAV}:check_derives',
           f'{TRAV}:has_conditional_existence', f'{BASIC}._get_floating_nodes',
           f'{INCOMP}:get_incompatibility_deriving_nodes']


def apply_selection_shape(ctx, rule='A5'):
    fn = ctx.fn(f'{CHOICES}:get_mod_apply_selection_choice')
    cfg = build_cfg(fn)
    params = fn.params
    if 'choice_node' not in params or 'target_option_node' not in params:
        raise AnalysisError('get_mod_apply_selection_choice: parameters renamed; instance needs re-triage')
    rets = guards.return_nodes(cfg)
    # classify returns
    full = []          # returns of the complete modification (not under only_added, not the no-option branch)
    delegated = []     # returns that hand the whole modification over to an extracted helper
    unit = unit_functions(ctx.prog, fn)
    for r in rets:
        v = r.ast.value
        if isinstance(v, ast.Call) and isinstance(v.func, ast.Name) and any(u.name == v.func.id for u in unit[1:]):
            delegated.append((r, next(u for u in unit[1:] if u.name == v.func.id), v))
            continue
        if not (isinstance(v, ast.Tuple) and len(v.elts) == 3):
            raise AnalysisError(f'get_mod_apply_selection_choice: unexpected return shape {short(v)}')
        full.append(r)
    # a helper that builds the modification for one case removes the choice node it is given, on every return
    for r, h, call in delegated:
        pc = None
        for i_a, a in enumerate(call.args):
            if isinstance(a, ast.Name) and a.id == 'choice_node' and i_a < len(h.params):
                pc = h.params[i_a]
        for k in call.keywords:
            if isinstance(k.value, ast.Name) and k.value.id == 'choice_node':
                pc = k.arg
        hcfg = build_cfg(h)
        hrets = [x for x in guards.return_nodes(hcfg) if isinstance(x.ast.value, ast.Tuple) and len(x.ast.value.elts) == 3]
        hthrough = [n for n in hcfg.nodes if n.ast is not None and pc is not None and (
            any(isinstance(c, ast.Call) and call_name(c) == 'add' and c.args and norm(c.args[0]) == pc
                for c in ast.walk(n.ast)) or
            any(isinstance(e, ast.Set) and any(norm(x) == pc for x in e.elts) for e in ast.walk(n.ast)))]
        if not hrets:
            raise AnalysisError(f'{h.qualname}: returned modification not found')
        guards.check_passes(ctx, rule, h, hrets, hthrough, 'choice-node-removed',
                            'every modification returned for an applied selection choice has put the choice node '
                            'into the removed-node set (no choice node survives its own application)')
    # (a) every return hands out a removed-node set containing the choice node, except the only_added one
    def adds_choice(sub):
        if isinstance(sub, ast.Call) and call_name(sub) == 'add' and sub.args and \
                isinstance(sub.args[0], ast.Name) and sub.args[0].id == 'choice_node' and \
                isinstance(sub.func, ast.Attribute) and 'removed_nodes' in norm(sub.func.value):
            return True
        return False
    through = guards.nodes_with(cfg, adds_choice)
    through += [n for n in cfg.nodes if n.kind == 'stmt' and isinstance(n.ast, ast.Assign) and
                'removed_nodes' in norm(n.ast.targets[0]) and isinstance(n.ast.value, ast.Set) and
                any(isinstance(e, ast.Name) and e.id == 'choice_node' for e in n.ast.value.elts)]
    only_added_edges = cfg.edges_implying(lambda atom, t: t is True and isinstance(atom, ast.Name) and
                                          atom.id == 'only_added')
    sinks = []
    for r in full:
        # skip the return directly under `if only_added:`
        if any(r.id == dst for (_, dst, _) in only_added_edges):
            continue
        sinks.append(r)
    if len(sinks) + len(delegated) < 2:
        raise AnalysisError('get_mod_apply_selection_choice: expected a no-option return and a full return')
    guards.check_passes(ctx, rule, fn, sinks, through, 'choice-node-removed',
                        'every modification returned for an applied selection choice has put the choice node '
                        'into the removed-node set (no choice node survives its own application)')
    for r in sinks:
        v = r.ast.value
        ok = isinstance(v.elts[1], ast.Name) and 'removed_nodes' in v.elts[1].id
        ctx.ob(rule, fkey(fn, rule, f'returns-removed-nodes:{short(v, 40)}'), ok,
               f'{fn.module.relpath}:{r.lineno}', 'the second element of the returned modification is the '
               'removed-node set', short(v, 80))
    # (b) added edges = origin -> selected option, from the in-edges of the choice node
    adds = [s for s in walk_fn(fn) if isinstance(s, ast.Assign) and norm(s.targets[0]) == 'added_edges']
    ok = False
    detail = 'no definition of added_edges from the in-edges of the choice node'
    for s in adds:
        for c in ast.walk(s.value):
            if isinstance(c, ast.Call) and call_name(c) == 'get_edge' and len(c.args) >= 2 and \
                    norm(c.args[1]) == 'target_option_node' and isinstance(c.args[0], ast.Subscript) and \
                    norm(c.args[0].slice) == '0':
                src = norm(c.args[0].value)
                # the comprehension iterates over the in-edges of the choice node
                gens = [g for comp in ast.walk(s.value) if isinstance(comp, (ast.SetComp, ast.ListComp,
                                                                             ast.GeneratorExp))
                        for g in comp.generators if norm(g.target) == src]
                for g in gens:
                    it = g.iter
                    defs = [a for a in walk_fn(fn) if isinstance(a, ast.Assign) and norm(a.targets[0]) == norm(it)]
                    srcs = [it] + [a.value for a in defs]
                    if any('iter_in_edges(graph, choice_node' in norm(x) for x in srcs):
                        ok = True
                        detail = short(s, 100)
    ctx.ob(rule, fkey(fn, rule, 'origin-to-option-edges'), ok, fn.where,
           'the added edges connect the source of every in-edge of the choice node to the selected option',
           detail)
    # (c) the selected option's own edge is never passed to the derived-edge removal
    rm_calls = guards.call_nodes(cfg, 'get_derived_edges_for_edge')
    def not_target(atom, truth):
        # fact: NOT (edge[0] == choice_node and edge[1] == target_option_node)
        return False
    # the guard is `if edge[0] == choice_node and edge[1] == target_option_node: continue` -> on the F edge of
    # the conjunction nothing is implied atomically, so check structurally: the removal call is unreachable
    # from the T edge of that test
    def selected_edge_test(e):
        # true exactly for the edge (choice_node, target_option_node): both ends compared (conjunction), or the
        # pair `edge[:2]` compared with the tuple of both (hoisted locals are read through)
        e = expand_locals(fn, e)
        t_ = norm(e)
        if isinstance(e, ast.BoolOp) and isinstance(e.op, ast.And):
            return 'target_option_node' in t_ and 'choice_node' in t_ and '[0]' in t_ and '[1]' in t_
        if isinstance(e, ast.Compare) and len(e.ops) == 1 and isinstance(e.ops[0], ast.Eq):
            sides = [e.left, e.comparators[0]]
            tup = [x for x in sides if isinstance(x, ast.Tuple) and [norm(y) for y in x.elts] ==
                   ['choice_node', 'target_option_node']]
            sl = [x for x in sides if isinstance(x, ast.Subscript) and isinstance(x.slice, ast.Slice) and
                  x.slice.lower is None and isinstance(x.slice.upper, ast.Constant) and x.slice.upper.value == 2]
            return bool(tup) and bool(sl)
        return False
    tests = [n for n in cfg.nodes if n.kind == 'test' and selected_edge_test(n.ast)]
    ok = False
    detail = 'no test `edge[0] == choice_node and edge[1] == target_option_node` guarding the removal loop'
    for t in tests:
        tsucc = [m for m, lab in t.succ if lab == 'T']
        loop_for = None
        for n2 in cfg.nodes:
            if n2.kind == 'for' and t.id in cfg.reachable([n2]):
                loop_for = n2
        # T edge must lead straight back to the loop head (continue), not into the removal call
        reach_t = set()
        stack = list(tsucc)
        while stack:
            x = stack.pop()
            if x.id in reach_t or x.kind == 'for':
                continue
            reach_t.add(x.id)
            stack += [m for m, _ in x.succ]
        if rm_calls and not any(c.id in reach_t for c in rm_calls):
            # and every removal call of this loop is dominated by the test
            dom = cfg.dominators()
            if any(t.id in dom.get(c.id, ()) for c in rm_calls):
                ok = True
                detail = f'L{t.lineno}: {short(t.ast, 80)} skips the selected edge'
    if not ok:
        # filter form: the edges handed to the derived-edge removal (a loop here, or a private helper containing it)
        # come from a comprehension / generator whose filter is true exactly for the edges other than the selected
        # one - decided as a truth table over (source is the choice node, target is the selected option)
        import itertools

        def holds(e, env):
            if isinstance(e, ast.BoolOp):
                vals = [holds(v, env) for v in e.values]
                return all(vals) if isinstance(e.op, ast.And) else any(vals)
            if isinstance(e, ast.UnaryOp) and isinstance(e.op, ast.Not):
                return not holds(e.operand, env)
            if isinstance(e, ast.Compare) and len(e.ops) == 1 and isinstance(e.ops[0], (ast.Eq, ast.NotEq)):
                l, r = norm(e.left), norm(e.comparators[0])
                neg = isinstance(e.ops[0], ast.NotEq)
                if l.endswith('[0]') and r == 'choice_node':
                    return env[0] != neg
                if l.endswith('[1]') and r == 'target_option_node':
                    return env[1] != neg
                x = expand_locals(fn, e)
                sides = [x.left, x.comparators[0]]
                if any(isinstance(y, ast.Tuple) and [norm(z) for z in y.elts] == ['choice_node', 'target_option_node']
                       for y in sides) and any(norm(y).endswith('[:2]') for y in sides):
                    return (env[0] and env[1]) != neg
            raise AnalysisError(f'selected-edge filter: unrecognised test `{norm(e)}`')
        removers = {u.name for u in unit_functions(ctx.prog, fn)[1:]
                    if any(True for _ in calls(u, 'get_derived_edges_for_edge'))}
        for g in [x for x in ast.walk(fn.node) if isinstance(x, (ast.GeneratorExp, ast.ListComp, ast.SetComp))]:
            if len(g.generators) != 1 or not g.generators[0].ifs or 'choice_out_edges' not in norm(g.generators[0].iter):
                continue
            try:
                flt = all(all(holds(i, env) for i in g.generators[0].ifs) == (not (env[0] and env[1]))
                          for env in itertools.product((False, True), repeat=2))
            except AnalysisError:
                continue
            holders = {norm(a.targets[0]) for a in walk_fn(fn) if isinstance(a, ast.Assign) and a.value is g}
            used = any(call_name(c) in removers and any(a is g or norm(a) in holders for a in c.args)
                       for c in calls(fn))
            if flt and used:
                ok = True
                detail = f'L{g.lineno}: the removal only receives edges passing `{short(g.generators[0].ifs[0], 70)}`'
    ctx.ob(rule, fkey(fn, rule, 'selected-option-kept'), ok, fn.where,
           'what the selected option derives is never removed: the (choice node -> selected option) edge is '
           'skipped before the derived-edge removal', detail)
    # (d) a node that is not an option is rejected
    raises = [n for n in cfg.nodes if n.kind == 'stmt' and isinstance(n.ast, ast.Raise) and
              'NoOptionError' in norm(n.ast)]
    ok = False
    for r in raises:
        for p, lab in r.pred:
            if p.kind == 'test' and lab == 'T' and isinstance(p.ast, ast.Compare) and \
                    isinstance(p.ast.ops[0], ast.NotIn) and norm(p.ast.left) == 'target_option_node':
                ok = True
    ctx.ob(rule, fkey(fn, rule, 'non-option-rejected'), ok, fn.where,
           'selecting a node that is not among the out-neighbours of the choice node raises NoOptionError',
           f'{len(raises)} NoOptionError raise(s)')
    if raises:
        guards.check_passes(ctx, rule, fn, [s for s in sinks if s is not sinks[0]] or sinks,
                            [p for r in raises for p, lab in r.pred if p.kind == 'test'],
                            'non-option-test-dominates', 'the full modification is computed only after the '
                            'not-an-option test')


def resolve_single_shape(ctx, rule='A5'):
    fn = ctx.fn(f'{DSG}.resolve_single_selection_choices')
    cfg = build_cfg(fn)
    # the condition under which a choice is taken automatically holds exactly for 0 and 1 options
    unit = unit_functions(ctx.prog, fn)
    ok = False
    detail = 'no test on the number of options'
    for u in unit:
        ucfg = build_cfg(u)
        # what "taking the choice" is in this function: applying it, or (in an extracted search helper) returning it
        takes = guards.call_nodes(ucfg, 'get_for_apply_selection_choice') or \
            [n for n in ucfg.nodes if n.kind == 'stmt' and isinstance(n.ast, ast.Return) and
             isinstance(n.ast.value, ast.Tuple)]
        heads = [n for n in ucfg.nodes if n.kind == 'for']
        for t in [n for n in ucfg.nodes if n.kind == 'test' and 'len(' in norm(n.ast) and 'opt' in norm(n.ast)]:
            try:
                s_ = intcmp.value_set(t.ast, intcmp.is_len_of(lambda e: isinstance(e, ast.Name)),
                                      domain=tuple(range(0, 7)))
            except intcmp.NotSimple:
                continue
            # the option counts under which the choice is taken in this iteration: the side of the test from which
            # the take is reachable without going round the loop
            side = {lab: any(ucfg.can_reach(m, k, blocked_nodes=heads) for m, l2 in t.succ if l2 == lab for k in takes)
                    for lab in ('T', 'F')}
            if side['T'] == side['F']:
                continue
            taken = s_ if side['T'] else frozenset(range(0, 7)) - s_
            detail = f'L{t.lineno}: `{short(t.ast)}`: the choice is taken for option counts {sorted(taken)} (of 0..6)'
            ok = taken == frozenset({0, 1})
    ctx.ob(rule, fkey(fn, rule, 'auto-take-iff-le-1-option'), ok, fn.where,
           'a selection choice is resolved automatically exactly when it has 0 or 1 options left', detail)
    # the while-True loop is left only through the `for ... else: break`
    loops = [n for n in cfg.nodes if n.kind == 'test' and isinstance(n.stmt, ast.While)]
    fors = [n for n in cfg.nodes if n.kind == 'for']
    ok = False
    detail = 'loop structure not recognised'
    if loops and fors:
        w, f0 = loops[0], fors[0]
        breaks = [n for n in cfg.nodes if n.kind == 'stmt' and isinstance(n.ast, ast.Break)]
        exits = [b for b in breaks if any(m.id not in _loop_body_ids(cfg, w) for m, _ in b.succ)]
        # exit break must be reachable only via the F edge of the for (exhausted without finding a candidate)
        f_edges = {(f0.id, m.id, lab) for m, lab in f0.succ if lab == 'F'}
        ok = bool(exits) and all(not cfg.can_reach(cfg.entry, b, blocked_edges=f_edges) for b in exits) and \
            not any(lab == 'F' for _, lab in w.succ)
        detail = f'{len(exits)} loop exit(s), each only after the scan over the active choices found no candidate'
        # the scan iterates over the currently active choices of the *current* graph
        it = norm(f0.ast.iter)
        ok2 = 'get_ordered_next_choice_nodes' in it
        ctx.ob(rule, fkey(fn, rule, 'scan-active-choices'), ok2, f'{fn.module.relpath}:{f0.lineno}',
               'the scan for automatically resolvable choices iterates over the active next choice nodes', it)
    if loops and not fors:
        # extract-method form: `x = <obj>._next_candidate(); if x is None: break` - the loop is left only under the
        # none-test of the helper's result, and the helper returns None only after its scan found no candidate
        w = loops[0]
        breaks = [n for n in cfg.nodes if n.kind == 'stmt' and isinstance(n.ast, ast.Break)]
        exits = [b for b in breaks if any(m.id not in _loop_body_ids(cfg, w) for m, _ in b.succ)]
        hs = {h.name: h for h in unit[1:]}
        cand = [(norm(a.targets[0]), hs[call_name(a.value)]) for a in walk_fn(fn)
                if isinstance(a, ast.Assign) and isinstance(a.value, ast.Call) and call_name(a.value) in hs and
                isinstance(a.targets[0], ast.Name)]
        for var, h in cand:
            ne = cfg.edges_implying(guards.none_fact(var, True))
            guarded = bool(exits) and all(not cfg.can_reach(cfg.entry, b, blocked_edges=ne) for b in exits) and \
                not any(lab == 'F' for _, lab in w.succ)
            hcfg = build_cfg(h)
            hfors = [n for n in hcfg.nodes if n.kind == 'for']
            if not (guarded and hfors):
                continue
            f0 = hfors[0]
            f_edges = {(f0.id, m.id, lab) for m, lab in f0.succ if lab == 'F'}
            none_exits = [n for n in hcfg.nodes if n.kind == 'stmt' and isinstance(n.ast, ast.Return) and
                          (n.ast.value is None or (isinstance(n.ast.value, ast.Constant) and n.ast.value.value is None))]
            falls = [p_ for p_, lab in hcfg.exit.pred if not (p_.kind == 'stmt' and isinstance(p_.ast, ast.Return))]
            ok = all(not hcfg.can_reach(hcfg.entry, n, blocked_edges=f_edges) for n in none_exits) and \
                all(not hcfg.can_reach(hcfg.entry, p_, blocked_edges=f_edges) or p_ is f0 for p_ in falls) and \
                bool(none_exits or falls)
            detail = f'loop left only when {h.name}() returned None, which it does only after its scan found no candidate'
            it = norm(f0.ast.iter)
            ctx.ob(rule, fkey(fn, rule, 'scan-active-choices'), 'get_ordered_next_choice_nodes' in it,
                   f'{h.module.relpath}:{f0.lineno}',
                   'the scan for automatically resolvable choices iterates over the active next choice nodes', it)
    ctx.ob(rule, fkey(fn, rule, 'terminates-only-when-none-left'), ok, fn.where,
           'automatic resolution stops only when a full scan of the active choices found none with <= 1 option',
           detail)
    # the selected option: the only option when there is one, None when there is none
    takes = calls(fn, 'get_for_apply_selection_choice')
    exists(ctx, rule, fn, takes, 'applies-choice', 'the automatically resolved choice is applied through '
           'get_for_apply_selection_choice (same path as an explicit choice)')


def _loop_body_ids(cfg, head):
    ids = set()
    stack = [m for m, lab in head.succ if lab == 'T']
    while stack:
        n = stack.pop()
        if n.id in ids or n is head:
            continue
        ids.add(n.id)
        for m, lab in n.succ:
            stack.append(m)
    # nodes from which head is reachable again
    return {i for i in ids if head.id in cfg.reachable([cfg.nodes[i]])} | {head.id}


def derive_shape(ctx, rule='A5'):
    # final <=> no choice node left
    cls = ctx.prog.cls(DSG)
    fin = cls.methods.get('final')
    if fin is None:
        raise AnalysisError('DSG.final vanished')
    rets = returns_of(fin)
    ok = False
    for r in rets:
        for sub in ast.walk(r.value):
            e = intcmp.emptiness(sub, lambda x: isinstance(x, ast.Attribute) and x.attr == 'choice_nodes') if isinstance(
                sub, (ast.Compare, ast.UnaryOp)) else None
            if e == 'empty':
                ok = True
    ctx.ob(rule, fkey(fin, rule, 'final-iff-no-choice'), ok, fin.where,
           '`final` requires that no (selection or connection) choice node is left in the graph',
           '; '.join(short(r) for r in rets))
    cn = cls.methods.get('choice_nodes')
    gcn = ctx.fn(f'{TRAV}:get_choice_nodes')
    txt = norm(returns_of(gcn)[0].value) if returns_of(gcn) else ''
    ok = 'SelectionChoiceNode' in txt and 'ConnectionChoiceNode' in txt
    ctx.ob(rule, fkey(gcn, rule, 'choice-nodes-both-kinds'), ok, gcn.where,
           'the choice nodes of a graph are its selection *and* connection choice nodes', txt)
    # get_for_apply_selection_choice: modification -> adjusted copy -> automatic resolution
    fn = ctx.fn(f'{DSG}.get_for_apply_selection_choice')
    adj = calls(fn, 'get_for_adjusted')
    ok = False
    detail = 'get_for_adjusted call not found'
    for c in adj:
        kws = {kw.arg: norm(kw.value) for kw in c.keywords}
        ok = all(kws.get(k) == k for k in ('removed_edges', 'removed_nodes', 'added_edges')) and \
            'status_array' in kws
        detail = short(c, 140)
    ctx.ob(rule, fkey(fn, rule, 'applies-all-modifications'), ok, fn.where,
           'the new graph is derived with the removed edges, removed nodes, added edges and the updated status '
           'array of the modification', detail)
    rr = returns_of(fn)
    ok = bool(rr) and all('resolve_single_selection_choices' in norm(r.value) for r in rr)
    ctx.ob(rule, fkey(fn, rule, 'auto-resolution-follows'), ok, fn.where,
           'the graph returned for an applied selection choice has passed automatic resolution of 0/1-option '
           'choices', '; '.join(short(r) for r in rr))
    unpack = [s for s in walk_fn(fn) if isinstance(s, ast.Assign) and isinstance(s.targets[0], ast.Tuple)
              and 'get_mod_apply_selection_choice' in norm(s.value)]
    ok = bool(unpack) and [norm(e) for e in unpack[0].targets[0].elts] == ['removed_edges', 'removed_nodes',
                                                                            'added_edges']
    ctx.ob(rule, fkey(fn, rule, 'modification-order'), ok, fn.where,
           'the modification tuple is unpacked in the order it is produced: (removed edges, removed nodes, '
           'added edges)', short(unpack[0], 120) if unpack else 'not found')
    # get_for_adjusted applies removals and additions to the copy
    fn = ctx.fn(f'{DSG}.get_for_adjusted')
    ok = False
    for f_ in unit_functions(ctx.prog, fn):
        by_recv = {}
        for c in walk_fn(f_):
            if isinstance(c, ast.Call) and isinstance(c.func, ast.Attribute) and \
                    c.func.attr in ('remove_edges_from', 'remove_nodes_from', 'add_edges_from') and c.args:
                by_recv.setdefault(norm(c.func.value), {}).setdefault(c.func.attr, []).append(c)
        for recv, ops in by_recv.items():
            if all(k in ops for k in ('remove_edges_from', 'remove_nodes_from', 'add_edges_from')):
                # the edges added last are the modification's added edges (not the copy of the old edge set)
                last_add = max(ops['add_edges_from'], key=lambda c: c.lineno)
                if ops['remove_nodes_from'][0].lineno < last_add.lineno and \
                        ops['remove_edges_from'][0].lineno < last_add.lineno:
                    ok = True
    ctx.ob(rule, fkey(fn, rule, 'copy-modified'), ok, fn.where,
           'get_for_adjusted removes the given edges and nodes from the copy and adds the given edges afterwards '
           '(an edge added before the node removal could be removed again)',
           {k: [n.lineno for n in v] for k, v in ops.items()}.__repr__())


def status_array_shape(ctx, rule='A5s'):
    im = ctx.prog.cls(INFL)
    fn = ctx.fn(f'{INFL}.get_next_choice_nodes')
    txt = FnText(ctx, fn)
    ok = 'Diag.CONFIRMED' in txt and 'status_array[self.choice_idx]' in txt
    ctx.ob(rule, fkey(fn, rule, 'active-iff-confirmed'), ok, fn.where,
           'the next active choices are exactly the choice nodes whose status is CONFIRMED',
           short(fn.body[-3] if len(fn.body) > 2 else fn.body[0], 120))
    fn = ctx.fn(f'{INFL}.apply_selection_choice')
    stores = [s for s in walk_fn(fn) if isinstance(s, ast.Assign) and isinstance(s.targets[0], ast.Subscript)
              and norm(s.targets[0].value) == 'status_array']
    def find(idx_pred, val):
        return [s for s in stores if idx_pred(norm(s.targets[0].slice), s.targets[0].slice) and norm(s.value) == val]

    def undecided_and(kind):
        # the index is `<influence of that kind> & <mask of nodes whose status is still INITIAL>` (hoisted locals are
        # read through)
        def pred(txt_, e):
            x = expand_locals(fn, e)
            if not (isinstance(x, ast.BinOp) and isinstance(x.op, ast.BitAnd)):
                return False
            sides = [norm(x.left), norm(x.right)]
            return any(f'OffDiag.{kind}' in t_ for t_ in sides) and \
                any('Diag.INITIAL' in t_ and 'OffDiag' not in t_ for t_ in sides)
        return pred
    a = find(lambda i, e: i == 'i_choice_apply', 'Diag.CHOICE_MADE.value')
    b = find(lambda i, e: i == 'i_opt_apply', 'Diag.CONFIRMED.value')
    c = find(undecided_and('CONFIRMATION'), 'Diag.CONFIRMED.value')
    d = find(undecided_and('REMOVAL'), 'Diag.REMOVED.value')
    for nm, hit, desc in (('choice-made', a, 'the applied choice is marked CHOICE_MADE'),
                          ('option-confirmed', b, 'the selected option is marked CONFIRMED'),
                          ('confirm-undecided-only', c, 'confirmation influences only touch nodes that are still '
                                                        'INITIAL (an already confirmed/removed node keeps its '
                                                        'status)'),
                          ('remove-undecided-only', d, 'removal influences only touch nodes that are still '
                                                       'INITIAL')):
        exists(ctx, rule, fn, hit, nm, desc)
    cp = [s for s in walk_fn(fn) if isinstance(s, ast.Assign) and norm(s.targets[0]) == 'status_array' and
          norm(s.value) == 'status_array.copy()']
    exists(ctx, rule, fn, cp, 'status-copy', 'the status array of the receiver graph is copied before it is '
           'updated (the parent graph keeps its own status)')
    mask = [s for s in walk_fn(fn) if isinstance(s, ast.Assign) and norm(s.targets[0]) == 'not_confirmed_mask']
    ok = bool(mask) and norm(mask[0].value) == 'status_array == Diag.INITIAL.value'
    ctx.ob(rule, fkey(fn, rule, 'undecided-is-initial'), ok, fn.where,
           'undecided nodes are those with status INITIAL', short(mask[0]) if mask else 'missing')


def loop_closure_every_level(ctx, rule='A5'):
    """get_confirmed_edges_for_node walks derivation cycles recursively; nodes that closed a cycle get the edge set
    of the node they hit (`_traversed[tgt].update(_traversed[src])`).  With nested cycles an inner node has to be
    brought up to date when its own recursion level returns, because the outer levels copy from it afterwards: the
    update is therefore not restricted to the level of the originally requested node."""
    fn = ctx.fn(f'{TRAV}:get_confirmed_edges_for_node')
    cfg = build_cfg(fn)
    flag = [norm(s_.targets[0]) for s_ in walk_fn(fn) if isinstance(s_, ast.Assign) and
            isinstance(s_.value, ast.Constant) and s_.value.value is True and isinstance(s_.targets[0], ast.Name)]
    ups = guards.call_nodes(cfg, 'update', pred=lambda c: isinstance(c.func.value, ast.Subscript) and
                            c.args and isinstance(c.args[0], ast.Subscript) and
                            norm(c.func.value.value) == norm(c.args[0].value))
    if not ups or not flag:
        raise AnalysisError('get_confirmed_edges_for_node: loop-closure update / request-start flag not found')
    start_only = cfg.edges_implying(lambda a, t: t is True and isinstance(a, ast.Name) and a.id in flag)
    reach = cfg.reachable([cfg.entry], blocked_edges=start_only, labels_excluded=('exc',))
    ok = all(u.id in reach for u in ups)
    ctx.ob(rule, fkey(fn, rule, 'loop-closure-at-every-level'), ok, f'{fn.module.relpath}:{ups[0].lineno}',
           'the edge sets of nodes that closed a derivation cycle are completed at every recursion level, not only '
           'when the walk is back at the requested node',
           'reachable without the request-start test' if ok else
           f'`{short(ups[0].ast, 60)}` runs only under `{flag[0]}`: with nested cycles the inner nodes are copied from '
           f'before they are complete')


def start_closure(ctx, rule='A5u'):
    """set_start_nodes removes *every* node that no start node derives (its documented contract, and what C02's "nothing
    unreachable remains" needs): the set handed to the removal contains the complement of a reachability closure that
    starts at the start nodes and follows derivation edges.  Removing only what floating *root* nodes derive misses
    derivation cycles nothing derives (they have no root) - finding F23."""
    fn = ctx.fn(f'{BASIC}.set_start_nodes')
    unit = unit_functions(ctx.prog, fn)
    start_p = fn.params[1] if len(fn.params) > 1 else None
    # (1) a worklist closure: a set seeded from the start nodes that grows by the targets of out-edges inside a loop
    closures = []       # (function, name of the closure set)
    for u in unit:
        seeds = {norm(a.targets[0]): a for a in walk_fn(u) if isinstance(a, ast.Assign) and
                 isinstance(a.targets[0], ast.Name) and isinstance(a.value, ast.Call) and
                 call_name(a.value) in ('set', 'copy') and
                 any(isinstance(x, ast.Name) and x.id in u.params for x in ast.walk(a.value))}
        for w in ast.walk(u.node):
            if not isinstance(w, (ast.While, ast.For)):
                continue
            walks = [c for c in ast.walk(w) if isinstance(c, ast.Call) and
                     call_name(c) in ('iter_out_edges', 'out_edges', 'successors', 'iter_out_edges_cached')]
            adds = [c for c in ast.walk(w) if isinstance(c, ast.Call) and call_name(c) in ('add', 'update') and
                    isinstance(c.func, ast.Attribute) and norm(c.func.value) in seeds]
            if walks and adds and isinstance(w, ast.While):
                closures.append((u, norm(adds[0].func.value)))
    # (2) the complement of that closure (w.r.t. the graph's nodes) enters the set of removed nodes
    def is_closure_value(e, f_):
        if isinstance(e, ast.Name):
            return any(f_ is u and e.id == nm for u, nm in closures)
        if isinstance(e, ast.Call):
            h = next((u for u, nm in closures if u.name == call_name(e)), None)
            return h is not None and any(isinstance(r.value, ast.Name) and r.value.id == nm
                                         for u, nm in closures if u is h for r in returns_of(h) if r.value is not None)
        return False
    comps = []
    for u in unit:
        for x in walk_fn(u):
            if isinstance(x, ast.BinOp) and isinstance(x.op, ast.Sub) and '.nodes' in norm(x.left) and \
                    is_closure_value(x.right, u):
                comps.append((u, x))
            if isinstance(x, ast.Call) and call_name(x) == 'difference' and '.nodes' in norm(x.func.value) and \
                    x.args and is_closure_value(x.args[0], u):
                comps.append((u, x))
            if isinstance(x, (ast.SetComp, ast.ListComp, ast.GeneratorExp)) and '.nodes' in norm(x.generators[0].iter) \
                    and any(isinstance(i, ast.Compare) and isinstance(i.ops[0], ast.NotIn) and
                            is_closure_value(i.comparators[0], u) for i in x.generators[0].ifs):
                comps.append((u, x))
    removed = {norm(k.value) for c in calls(fn, 'get_for_adjusted') for k in c.keywords if k.arg == 'removed_nodes'}
    feeds = [(u, x) for u, x in comps for st in walk_fn(u)
             if (isinstance(st, ast.AugAssign) and isinstance(st.op, ast.BitOr) and norm(st.target) in removed and
                 any(y is x for y in ast.walk(st.value))) or
             (isinstance(st, ast.Expr) and isinstance(st.value, ast.Call) and call_name(st.value) == 'update' and
              norm(st.value.func.value) in removed and any(y is x for y in ast.walk(st.value))) or
             (isinstance(st, ast.Assign) and norm(st.targets[0]) in removed and any(y is x for y in ast.walk(st.value)))]
    ok = bool(closures) and bool(feeds)
    ctx.ob(rule, fkey(fn, rule, 'unreachable-from-start-removed'), ok, fn.where,
           'every node that cannot be reached from the start nodes over derivation edges is removed (closure from the '
           'start nodes, complement removed) - also nodes of a derivation cycle that nothing derives, which have no '
           'floating root to start the removal from',
           (f'closure in {closures[0][0].qualname}; complement enters `{sorted(removed)[0] if removed else "?"}`'
            if ok else ('no reachability closure from the start nodes: only what the floating root nodes derive is '
                        'removed, an underived derivation cycle (and the choices below it) stays in the graph'
                        if not closures else 'the complement of the closure is not removed')))
    return ok


def closure_subsumes(ctx, ok):
    """When set_start_nodes removes the whole complement of the start nodes' closure, what its floating-root loop
    removes is a subset of that: whether the loop threads its accumulators no longer matters for the result."""
    return {f'{BASIC}.set_start_nodes': 'set_start_nodes removes everything the start nodes do not derive (A5u), '
                                        'which contains whatever the floating-root loop finds'} if ok else {}


def check(ctx):
    edges.check_walks(ctx, categories={'derivation', 'default'}, anchors=ANCHORS)
    edges.check_exhaustive_scans(ctx)
    ctx.floor('A4x', 8, 'collecting edge scans')
    apply_selection_shape(ctx)
    resolve_single_shape(ctx)
    derive_shape(ctx)
    status_array_shape(ctx)
    loop_closure_every_level(ctx)
    closure_ok = start_closure(ctx)
    guards.check_stale_loop_variables(ctx, [f for f in ctx.prog.all_functions() if f.module.name.startswith('adsg_core.graph.')])
    # an instance whose derivation failed on an incompatibility is not an architecture of the closure semantics: it
    # stays marked infeasible (both ends of the marking edge are looked at, whichever way the edge points)
    from . import c06 as _c06
    _c06.resolved_on_every_apply(ctx)
    _c06.removal_shape(ctx)
    # the graph algorithms memoise in caller-provided cache dictionaries: keys cover what the value depends on
    from ..rules import persist as _psg
    _psg.check_memo_functions(ctx, [f for f in ctx.prog.all_functions() if f.module.name.startswith('adsg_core.graph.')])
    guards.check_applied_unless_empty(ctx, [f for f in ctx.prog.all_functions() if f.module.name.startswith('adsg_core.graph.')])
    guards.check_accumulators_threaded(ctx, [f for f in ctx.prog.all_functions() if f.module.name.startswith('adsg_core.graph.')],
                                       subsumed=closure_subsumes(ctx, closure_ok))
    # the influence matrix (choice activation order) is derived from the graph and its start nodes: it is rebuilt
    # whenever set_influence_matrix runs, never kept from an earlier initialisation of the same object
    from ..rules import invalidate as _inv
    _inv.check_unconditional_recompute(ctx, f'{DSG}.set_influence_matrix', '_influence_matrix')
    ctx.floor('A5acc', 6, 'accumulated derived-only removals')
    ctx.floor('A5e', 2, 'guarded applications of a computed modification (incompatibility removal, floating nodes)')
    ctx.floor('A4', 15, 'derivation walks')
    ctx.floor('A5', 12, 'apply/resolve shape clauses')


from ..selftest import V  # noqa: E402

VARIANTS = [
    V('underived-cycles-kept', 'graph/adsg_basic.py',
      [("        removed_nodes |= set(graph.nodes) - self._get_nodes_derived_from(start_nodes)\n", "")],
      key='unreachable-from-start-removed'),
    V('twin-closure-inline-difference-update', 'graph/adsg_basic.py',
      [("        removed_nodes |= set(graph.nodes) - self._get_nodes_derived_from(start_nodes)\n",
        "        removed_nodes.update(set(graph.nodes) - self._get_nodes_derived_from(start_nodes))\n")], expect='silent'),
    V('influence-matrix-kept-from-earlier-initialisation', 'graph/adsg.py',
      [("        try:\n            self._influence_matrix = InfluenceMatrix(self)\n        except ValueError:\n            pass\n", "        if self._influence_matrix is None:\n            try:\n                self._influence_matrix = InfluenceMatrix(self)\n            except ValueError:\n                pass\n")], key='always-reassigns'),
    # since the F23 repair the complement of the start nodes' closure is removed anyway: not threading the accumulators
    # of the floating-root loop no longer changes the result (seed C02-3 rebased: its demo passes) - must stay silent;
    # together with the closure removed it must fire again
    V('twin-floating-roots-removed-independently', 'graph/adsg_basic.py',
      [("                graph, floating_node, start_nodes, removed_edges=removed_edges, removed_nodes=removed_nodes)", "                graph, floating_node, start_nodes)")], expect='silent'),
    V('floating-roots-removed-independently-without-closure', 'graph/adsg_basic.py',
      [("                graph, floating_node, start_nodes, removed_edges=removed_edges, removed_nodes=removed_nodes)", "                graph, floating_node, start_nodes)"),
       ("        removed_nodes |= set(graph.nodes) - self._get_nodes_derived_from(start_nodes)\n", "")], key='A5acc'),
    V('single-incompatible-node-kept', 'graph/adsg.py',
      [("            if len(removed_nodes) > 0:\n                dsg = dsg.get_for_adjusted(removed_nodes=removed_nodes)", "            if len(removed_nodes) > 1:\n                dsg = dsg.get_for_adjusted(removed_nodes=removed_nodes)")], key='A5e'),
    V('floating-removal-needs-both', 'graph/adsg_basic.py',
      [("if len(removed_edges) > 0 or len(removed_nodes) > 0:", "if len(removed_edges) > 0 and len(removed_nodes) > 0:")], key='A5e'),
    V('twin-truthiness-guard', 'graph/adsg.py',
      [("            if len(removed_nodes) > 0:\n                dsg = dsg.get_for_adjusted(removed_nodes=removed_nodes)", "            if removed_nodes:\n                dsg = dsg.get_for_adjusted(removed_nodes=removed_nodes)")], expect='silent'),
    V('choice-node-not-removed', 'graph/choices.py',
      [("    removed_nodes.add(choice_node)\n\n    # Process incompatibility constraints", "    # Process incompatibility constraints")],
      key='choice-node-removed'),
    V('selected-option-not-skipped', 'graph/choices.py',
      [("        if edge[0] == choice_node and edge[1] == target_option_node:\n            continue\n", "")],
      key='selected-option-kept'),
    V('non-option-accepted', 'graph/choices.py',
      [("    if target_option_node not in option_nodes:\n        raise NoOptionError(f'Node ({target_option_node!s}) is not an option of choice node: '\n                            f'{choice_node!s} -> {option_nodes!s}')\n", "")],
      key='non-option'),
    V('auto-take-only-zero', 'graph/adsg.py',
      [("                    if len(opt_nodes) <= 1:", "                    if len(opt_nodes) < 1:")], key='auto-take'),
    V('auto-take-two', 'graph/adsg.py',
      [("                    if len(opt_nodes) <= 1:", "                    if len(opt_nodes) <= 2:")], key='auto-take'),
    V('final-ignores-choices', 'graph/adsg.py',
      [("return len(self._graph.nodes) > 0 and len(self.choice_nodes) == 0", "return len(self._graph.nodes) > 0")],
      key='final-iff-no-choice'),
    V('derived-walk-follows-all', 'graph/traversal.py',
      [("        derived_edge_types = [EdgeType.DERIVES, EdgeType.CONNECTS]\n", "        derived_edge_types = list(EdgeType)\n")],
      key='get_derived_edges_for_node'),
    V('deriving-in-edges-incompat', 'graph/traversal.py',
      [("    deriving_edge_types = {EdgeType.DERIVES, edge_type}\n", "    deriving_edge_types = {EdgeType.DERIVES, EdgeType.INCOMPATIBILITY, edge_type}\n")],
      key='get_deriving_in_edges'),
    V('floating-nodes-ignores-connects', 'graph/adsg_basic.py',
      [("if get_edge_type(edge) in {EdgeType.DERIVES, EdgeType.CONNECTS}:", "if get_edge_type(edge) in {EdgeType.DERIVES}:")],
      key='_get_floating_nodes'),
    V('status-confirms-decided', 'graph/influence_matrix.py',
      [("status_array[confirmation_influence_map & not_confirmed_mask] = Diag.CONFIRMED.value", "status_array[confirmation_influence_map] = Diag.CONFIRMED.value")],
      key='confirm-undecided-only'),
    V('status-no-copy', 'graph/influence_matrix.py',
      [("        status_array = status_array.copy()\n        i_choice_apply = self.matrix_diagonal_nodes_idx[choice_node]\n        i_opt_apply", "        i_choice_apply = self.matrix_diagonal_nodes_idx[choice_node]\n        i_opt_apply")],
      key='status-copy'),
    V('no-auto-resolution-after-apply', 'graph/adsg.py',
      [("                                      added_edges=added_edges, status_array=status_array)\n        return graph.resolve_single_selection_choices()",
        "                                      added_edges=added_edges, status_array=status_array)\n        return graph")],
      key='auto-resolution-follows'),
    V('twin-auto-take-lt2', 'graph/adsg.py',
      [("                    if len(opt_nodes) <= 1:", "                    if len(opt_nodes) < 2:")], expect='silent'),
    V('twin-final-not', 'graph/adsg.py',
      [("return len(self._graph.nodes) > 0 and len(self.choice_nodes) == 0", "return len(self._graph.nodes) > 0 and not self.choice_nodes")],
      expect='silent'),
    V('twin-check-derives-eq', 'graph/traversal.py',
      [("            if get_edge_type(edge) != EdgeType.DERIVES:\n                continue\n\n            derives_cache", "            if not get_edge_type(edge) == EdgeType.DERIVES:\n                continue\n\n            derives_cache")],
      expect='silent'),
]
