"""C15 Fixing a design variable restricts the design space exactly; freeing restores it - structural clauses."""
import ast

from ..rules.match import FnText
from ..model import AnalysisError, norm
from ..cfg import build_cfg
from ..astutil import short, call_name
from ..report import fkey
from ..rules import guards, interval, invalidate, persist, decode
from ..rules.common import *

META = {'technique': 'static analysis: custom AST/CFG/data-flow rules; interval abstract interpretation of the range checks (rules/interval.py); invalidation and index-space analyses'}

EXPLANATION = (
    'Decides necessary conditions of the fix/free laws: (A16) region abstract interpretation of the range guards '
    'of GraphProcessor.fix_des_var - a value reaches the store into the fixed-value table exactly when it lies '
    'in [0, n_opts-1] (discrete) or [lower, upper] (continuous), every other region raises; (A5) the '
    'connection-choice rejection precedes the store, freeing deletes exactly the entry of that variable, both '
    'end in recomputing the combination mask and clearing the function cache (A5inv); (A1) on the decode slice '
    'entered through fix/free/decode no in-place operation lets the fixed mask reach analyzer state; (sibling '
    'agreement) every consumer of the design vector layout - des_vars, vector merging, decode output filter, '
    'enumeration, counting, statistics - filters by the same fixed-value table / combination mask.  Not '
    'decided: the subset law itself (quantifies over enumerated designs).')


def fix_guards(ctx, rule='A16'):
    fn = ctx.fn(f'{GP}.fix_des_var')
    params = fn.params
    if len(params) < 3:
        raise AnalysisError('fix_des_var: signature changed')
    dv, var = params[1], params[2]

    def is_store(st):
        return isinstance(st, ast.Assign) and isinstance(st.targets[0], ast.Subscript) and \
            norm(st.targets[0].value) == 'self._fixed_values' and norm(st.value) == var
    n = 0
    for nopt in (1, 2, 5):
        env = {f'{dv}.n_opts': nopt}
        for v in interval.representatives([0, nopt - 1, nopt], integer=True):
            it = interval.RegionInterp(var, env, on_store=is_store, helpers=interval.unit_helpers(ctx, fn))
            out, _ = it.run(fn.node.body, v, flags={f'{dv}.is_discrete': True, f'{var} is None': False})
            inside = 0 <= v <= nopt - 1
            ok = (out.kind == 'store') == inside and out.kind in ('store', 'raise')
            n += 1
            ctx.ob(rule, fkey(fn, rule, f'discrete:n={nopt}:v={v}'), ok, fn.where,
                   f'fixing a discrete variable with {nopt} option(s) to {v} is '
                   f'{"accepted" if inside else "rejected with an error"}', out.kind,
                   nontrivial=(v in (-1, 0, nopt - 1, nopt)))
    for lo, hi in ((0.0, 1.0), (-1.5, 4.0)):
        env = {f'{dv}.bounds[0]': lo, f'{dv}.bounds[1]': hi}
        for v in interval.representatives([lo, hi], integer=False):
            it = interval.RegionInterp(var, env, on_store=is_store, helpers=interval.unit_helpers(ctx, fn))
            out, _ = it.run(fn.node.body, v, flags={f'{dv}.is_discrete': False, f'{var} is None': False})
            inside = lo <= v <= hi
            ok = (out.kind == 'store') == inside and out.kind in ('store', 'raise')
            n += 1
            ctx.ob(rule, fkey(fn, rule, f'continuous:[{lo},{hi}]:v={v}'), ok, fn.where,
                   f'fixing a continuous variable with bounds [{lo}, {hi}] to {v} is '
                   f'{"accepted" if inside else "rejected with an error"}', out.kind,
                   nontrivial=(v in (lo, hi)))
    return n


def fix_structure(ctx, rule='A5'):
    fn0 = ctx.fn(f'{GP}.fix_des_var')
    # validation moved into a void private helper is seen in place (inlined view, DESIGN 2b)
    fn = inlined_view(ctx.prog, fn0, keep=('_update_comb_fixed_mask', 'clear_func_cache'))
    cfg = build_cfg(fn)
    stores = [n for n in cfg.nodes if n.kind == 'stmt' and isinstance(n.ast, ast.Assign) and
              isinstance(n.ast.targets[0], ast.Subscript) and norm(n.ast.targets[0].value) == 'self._fixed_values']
    if len(stores) != 1:
        raise AnalysisError(f'fix_des_var: expected one store into _fixed_values, found {len(stores)}')
    st = stores[0]
    key_txt = norm(st.ast.targets[0].slice)
    # the index is the position of the variable among *all* design variables
    idx_defs = [a for a in walk_fn(fn) if isinstance(a, ast.Assign) and norm(a.targets[0]) == key_txt]
    ok = bool(idx_defs) and 'self.all_des_vars.index(' in text_through_helpers(ctx.prog, fn0, idx_defs[0].value)
    ctx.ob(rule, fkey(fn, rule, 'index-among-all-des-vars'), ok, fn.where,
           'the fixed-value table is keyed by the position among all design variables (fixed ones included), '
           'the layout every consumer uses', short(idx_defs[0]) if idx_defs else 'missing')
    # connection-choice variables are rejected before the store: a half-open range test over the connection-choice
    # table (loop, any(...), flag variable or private helper), whose positive outcome raises
    from ..rules.common import unit_functions
    unit = unit_functions(ctx.prog, fn)

    def range_tests(f):
        out = []
        for x in ast.walk(f.node):
            if isinstance(x, ast.Compare) and len(x.ops) == 2 and isinstance(x.ops[0], ast.LtE) and \
                    isinstance(x.ops[1], ast.Lt) and isinstance(x.comparators[0], ast.Name):
                out.append(x)
        return out
    helper_names = {f.name for f in unit[1:] if range_tests(f) and '_conn_choice_data_map' in norm(f.node)}
    own = [x for x in range_tests(fn) if norm(x.comparators[0]) == key_txt] \
        if '_conn_choice_data_map' in norm(fn.node) else []

    def scans(e):
        return any(x in own or (isinstance(x, ast.Call) and call_name(x) in helper_names and
                                any(norm(a) == key_txt for a in x.args))
                   for x in ast.walk(e))
    flag_names = {norm(a.targets[0]) for a in walk_fn(fn) if isinstance(a, ast.Assign) and
                  isinstance(a.targets[0], ast.Name) and scans(a.value)}
    blocked = [n for n in cfg.nodes if n.kind == 'for' and '_conn_choice_data_map' in norm(n.ast.iter)]
    for t in cfg.nodes:
        if t.kind == 'test' and (scans(t.ast) or any(isinstance(x, ast.Name) and x.id in flag_names
                                                      for x in ast.walk(t.ast))):
            if any(m.kind == 'stmt' and isinstance(m.ast, ast.Raise) for m, lab in t.succ):
                blocked.append(t)
    ok = bool(own or helper_names) and bool(blocked) and not cfg.can_reach(cfg.entry, st, blocked_nodes=blocked)
    detail = f'half-open range test over the connection-choice table: {bool(own or helper_names)}; the store is ' \
             f'reachable only through the rejecting scan: {ok}'
    ctx.ob(rule, fkey(fn, rule, 'connection-variables-rejected'), ok, fn.where,
           'a variable whose index lies in the half-open range [i_dv_start, i_dv_end) of a connection choice is '
           'rejected with an error before anything is stored', detail)
    # freeing: value None deletes exactly that key
    dels = [n for n in cfg.nodes if n.kind == 'stmt' and isinstance(n.ast, ast.Delete)]
    ok = bool(dels) and norm(dels[0].ast.targets[0]) == f'self._fixed_values[{key_txt}]'
    pops = [c for c in calls(fn, 'pop') if norm(c.func.value) == 'self._fixed_values' and c.args and
            norm(c.args[0]) == key_txt]
    ok = ok or bool(pops)
    ctx.ob(rule, fkey(fn, rule, 'free-deletes-entry'), ok, fn.where,
           'passing None removes exactly the entry of that variable from the fixed-value table (del or pop)',
           short(dels[0].ast) if dels else (short(pops[0]) if pops else 'no delete'))
    if dels:
        guards.check_guarded(ctx, rule, fn, dels,
                             guards.none_fact(fn.params[2], True),
                             set(), 'delete-only-when-none', 'the entry is deleted only when the value is None')
    fr = ctx.fn(f'{GP}.free_des_var')
    cs = calls(fr, 'fix_des_var')
    v_ = argv(cs[0], 'value', 1) if cs else None
    ok = bool(cs) and isinstance(v_, ast.Constant) and v_.value is None
    ctx.ob(rule, fkey(fr, rule, 'free-is-fix-none'), ok, fr.where,
           'free_des_var(dv) is fix_des_var(dv, None) (one code path for bookkeeping and invalidation)',
           short(cs[0]) if cs else 'no call')
    # both paths end with mask recomputation and cache clearing
    upd = guards.call_nodes(cfg, '_update_comb_fixed_mask')
    clr = guards.call_nodes(cfg, 'clear_func_cache')
    guards.check_passes(ctx, rule, fn, [cfg.exit], upd, 'mask-recomputed-on-every-exit',
                        'every normal exit of fix_des_var has recomputed the combination mask of the fixed '
                        'selection choices')
    guards.check_passes(ctx, rule, fn, [cfg.exit], clr, 'function-cache-cleared-on-every-exit',
                        'every normal exit of fix_des_var has cleared the per-object function cache')
    # mask recomputation reads the table through the selection-choice index map
    um = ctx.fn(f'{GP}._update_comb_fixed_mask')
    txt = FnText(ctx, um)
    ok = 'self._sel_choice_idx_map' in txt and 'self._fixed_values' in txt and \
        'self._comb_fixed_mask = self._hierarchy_analyzer.get_available_combinations_mask(fixed_choices)' in txt
    ctx.ob(rule, fkey(um, rule, 'mask-from-table'), ok, um.where,
           'the combination mask is recomputed from the fixed values of the selection-choice variables '
           '(design-variable index -> choice index through _sel_choice_idx_map)', '')
    aliases = {'self._fixed_values'} | {norm(a.targets[0]) for a in walk_fn(um) if isinstance(a, ast.Assign) and
                                        norm(a.value) == 'self._fixed_values'}
    skip = [c for c in ast.walk(um.node) if isinstance(c, ast.Compare) and len(c.ops) == 1 and
            isinstance(c.ops[0], (ast.In, ast.NotIn)) and norm(c.comparators[0]) in aliases]
    exists(ctx, rule, um, skip, 'only-fixed-choices', 'only variables present in the fixed-value table constrain '
           'the mask (membership test on the table)')


def _vector_merge(ctx, m):
    """_get_all_des_var_values interpreted for one generic position (rules/absint.py): the element is
    `<fixed table>[pos]` exactly under `pos in <fixed table>`, else an element of the given vector addressed by
    something else than pos (its own running index).  Loop with append, comprehension with a conditional expression
    and helper forms read the same."""
    from ..rules import absint
    T = absint._t
    helpers = {h.name: h for h in unit_functions(ctx.prog, m)[1:]}
    paths = absint.Interp(m, helpers).run()
    FV = ('attr', ('name', 'self'), '_fixed_values')
    given = ('name', m.params[1]) if len(m.params) > 1 else None
    seen = {True: [], False: []}
    for q in paths:
        if q.outcome[0] != 'return' or not isinstance(q.outcome[1], absint.AList) or len(q.outcome[1].items) != 1:
            return False, f'result is not one element per position: {q.outcome}'
        t = T(q.outcome[1].items[0])
        conds = [(c, v) for c, v in q.conds if isinstance(c, tuple) and c[0] == 'in' and c[2] == FV]
        if conds:
            seen[conds[0][1]].append((t, conds[0][0][1]))
            continue
        if isinstance(t, tuple) and t[0] == 'ite':
            test, flip = absint.canon(t[1])
            if isinstance(test, tuple) and test[0] == 'in' and test[2] == FV:
                seen[not flip].append((t[2], test[1]))
                seen[flip].append((t[3], test[1]))
                continue
        return False, f'element `{absint.fmt(t)[:100]}` is not decided by membership in the fixed-value table'
    if not seen[True] or not seen[False]:
        return False, 'fixed / free side missing'
    ok = all(t == ('index', FV, pos) for t, pos in seen[True]) and \
        all(isinstance(t, tuple) and t[0] == 'index' and t[1] == given and t[2] != pos for t, pos in seen[False])
    return ok, '; '.join(f'{"fixed" if k else "free"}: {absint.fmt(t)[:60]}' for k in (True, False) for t, _ in seen[k])


def consumers(ctx, rule='A5c'):
    """Sibling agreement: every consumer of the vector layout filters by the same table."""
    cls = ctx.prog.cls(GP)
    def src(name):
        m = cls.methods.get(name)
        if m is None:
            raise AnalysisError(f'GraphProcessor.{name} vanished')
        ctx.touch(m)
        return m, FnText(ctx, m)
    m, t = src('des_vars')
    ctx.ob(rule, fkey(m, rule, 'des-vars-exclude-fixed'), 'if i not in fixed_values' in t and
           'fixed_values = self._fixed_values' in t, m.where,
           'des_vars lists exactly the design variables whose index is not in the fixed-value table', t[:140])
    m, t = src('_get_all_des_var_values')
    ok, detail = _vector_merge(ctx, m)
    ctx.ob(rule, fkey(m, rule, 'vector-merge'), ok, m.where,
           'the full vector takes the fixed value at fixed positions (looked up by the position among all variables) '
           'and consumes the given vector - not indexed by that position - at the others', detail)
    m, t = src('get_graph')
    # the returned values and activeness cover the non-fixed variables only: somewhere in get_graph or the private
    # helpers it calls, membership in the fixed-value table decides what is kept (a filter `if i not in fixed`, a
    # `continue` under `i in fixed`, a list of free indices)
    def _fixed_tests(f_):
        alias = {norm(a.targets[0]) for a in walk_fn(f_) if isinstance(a, ast.Assign) and
                 norm(a.value) == 'self._fixed_values'} | {'self._fixed_values'}
        return [c for c in walk_fn(f_) if isinstance(c, ast.Compare) and len(c.ops) == 1 and
                isinstance(c.ops[0], (ast.In, ast.NotIn)) and norm(c.comparators[0]) in alias]
    tests = [(f_, c) for f_ in unit_functions(ctx.prog, m) for c in _fixed_tests(f_)]
    # ... of which at least one governs the construction of the returned lists (it is not the is_fixed flag store)
    governing = [(f_, c) for f_, c in tests if not any(
        isinstance(a, ast.Assign) and a.value is c and isinstance(a.targets[0], ast.Subscript) for a in walk_fn(f_))]
    ctx.ob(rule, fkey(m, rule, 'decode-output-filter'), bool(governing), m.where,
           'decode returns values and activeness of the non-fixed variables only (what is returned is selected by '
           'membership in the fixed-value table)',
           '; '.join(f'{f_.qualname} L{c.lineno} `{short(c)}`' for f_, c in governing[:3]) or 'no such test')
    # in a loop over enumerate(_sel_choice_idx_map) (here or in a private helper) the flag of the *choice* is set
    # from membership of the *design-vector* index in the fixed-value table
    from ..rules import indexspace as _ixs
    ok = False
    for u in unit_functions(ctx.prog, m):
        _, dv_names = _ixs._spaces(ctx.prog, m, u)
        for counter, elem, scope in _ixs._loops(u):
            for a in ast.walk(scope):
                if isinstance(a, ast.Assign) and isinstance(a.targets[0], ast.Subscript) and \
                        norm(a.targets[0].slice) == elem and isinstance(a.value, ast.Compare) and \
                        len(a.value.ops) == 1 and isinstance(a.value.ops[0], ast.In) and \
                        norm(a.value.left) == counter and norm(a.value.comparators[0]) in dv_names and \
                        'fixed' in norm(a.value.comparators[0]):
                    ok = True
    ctx.ob(rule, fkey(m, rule, 'decode-is-fixed-flags'), ok, m.where,
           'the analyzer is told which selection choices are fixed (so that correction never moves them)', '')
    m, t = src('get_all_discrete_x')
    # the returned arrays are column-filtered by a selector computed from the fixed-value table
    sel_ok = False
    cols = [x.slice.elts[1] for x in ast.walk(m.node) if isinstance(x, ast.Subscript) and
            isinstance(x.slice, ast.Tuple) and len(x.slice.elts) == 2 and isinstance(x.slice.elts[0], ast.Slice) and
            x.slice.elts[0].lower is None and x.slice.elts[0].upper is None and isinstance(x.slice.elts[1], ast.Name)
            and isinstance(x.ctx, ast.Load)]
    free_sel = [c_ for c_ in cols if any(('fixed_values' in norm(a_) or
                                          'fixed_values' in text_through_helpers(ctx.prog, m, a_.value))
                                         for a_ in walk_fn(m) if isinstance(a_, ast.Assign)
                                         and any(norm(t_) == c_.id or (isinstance(t_, ast.Subscript) and
                                                                       norm(t_.value) == c_.id) for t_ in a_.targets))]
    # both returned arrays (values and activeness) are cut with it
    sel_ok = len({id(c_) for c_ in free_sel}) >= 2 and len({c_.id for c_ in free_sel}) == 1
    ok = 'self._existence_mask if with_fixed else self._existence_infeasibility_mask' in t and \
        sel_ok and 'values[[fixed_values[dv_idx]], :]' in t and \
        'fixed_values = self._fixed_values if with_fixed else {}' in t
    ctx.ob(rule, fkey(m, rule, 'enumeration-filter'), ok, m.where,
           'the enumeration keeps the combinations of the fixed-mask, expands a fixed discrete design-variable '
           'node with its fixed value only, and drops the fixed columns', '')
    m, t = src('get_n_valid_designs')
    ok = 'if with_fixed and self._comb_fixed_mask is not None' in t and \
        'n_combinations[self._comb_fixed_mask]' in t and 'with_fixed=with_fixed' in t
    ctx.ob(rule, fkey(m, rule, 'count-filter'), ok, m.where,
           'counting with_fixed=True restricts to the combinations of the fixed-mask and counts fixed '
           'design-variable nodes once', '')
    m, t = src('get_additional_dv_stats')
    ok = 'if with_fixed and i_dv in self._fixed_values' in t
    ctx.ob(rule, fkey(m, rule, 'dv-stats-filter'), ok, m.where,
           'a fixed design-variable node contributes one combination to the counts', '')
    m, t = src('_get_dv_n_opts')
    ok = 'self.des_vars if with_fixed else self.all_des_vars' in t
    ctx.ob(rule, fkey(m, rule, 'declared-size-filter'), ok, m.where,
           'the declared design-space size with_fixed=True is the product over the non-fixed variables', '')
    m, t = src('_existence_mask')
    ok = 'self._existence_infeasibility_mask & self._comb_fixed_mask' in t
    ctx.ob(rule, fkey(m, rule, 'existence-mask-combines'), ok, m.where,
           'the mask handed to the analyzers is the conjunction of the infeasibility mask and the fixed mask', '')
    # complete analyzer: mask of combinations with the fixed option
    f = ctx.fn(f'{COMPLETE}._get_available_combinations_mask')
    t = FnText(ctx, f)
    # structural form: combinations whose option index equals the fixed one are gathered per fixed choice (union of
    # the iteration-spec sets) and the per-choice sets are intersected (every fixed choice must have its value)
    unit_nodes = [x for u in unit_functions(ctx.prog, f) for x in ast.walk(u.node)]
    eq = [x for x in unit_nodes if isinstance(x, ast.Compare) and len(x.ops) == 1 and isinstance(x.ops[0], ast.Eq) and
          'opt_idx_combinations' in norm(x.left) + norm(x.comparators[0])]
    inter = [x for x in unit_nodes if (isinstance(x, (ast.BinOp, ast.AugAssign)) and isinstance(x.op, ast.BitAnd)) or
             (isinstance(x, ast.Call) and call_name(x) in ('intersection', 'intersection_update'))]
    union = [x for x in unit_nodes if (isinstance(x, (ast.BinOp, ast.AugAssign)) and isinstance(x.op, ast.BitOr) and
                                       'i_set' in norm(x)) or
             (isinstance(x, ast.Call) and call_name(x) in ('union', 'update') and 'i_set' in norm(x)) or
             # boolean-mask form of the union: mask[list(its.i_set)] = True
             (isinstance(x, ast.Assign) and isinstance(x.targets[0], ast.Subscript) and
              'i_set' in norm(x.targets[0].slice) and isinstance(x.value, ast.Constant) and x.value.value is True)]
    ok = bool(eq) and bool(inter) and bool(union)
    ctx.ob(rule, fkey(f, rule, 'available-combinations'), ok, f.where,
           'a combination is available iff for every fixed choice some scenario containing it selects exactly '
           'the fixed option (union within a choice, intersection across choices)', '')


def check(ctx):
    fix_guards(ctx)
    fix_structure(ctx)
    consumers(ctx)
    from ..rules import indexspace, shapes
    shapes.check_sentinel_truthiness(ctx, [f for f in ctx.prog.all_functions() if f.module.name.startswith(
        'adsg_core.optimization.hierarchy') or f.module.name.endswith('graph_processor')])
    indexspace.check_index_spaces(ctx, [f'{GP}.get_graph', f'{GP}._update_comb_fixed_mask'])
    indexspace.check_translation(ctx)
    invalidate.check_invalidation(ctx, GP)
    invalidate.check_unconditional_recompute(ctx, f'{GP}._update_comb_fixed_mask', '_comb_fixed_mask')
    roots = [ctx.fn(f'{GP}.{r}') for r in ('fix_des_var', 'free_des_var', 'get_graph')]
    fns, _ = decode.decode_slice(ctx, extra_roots=[f'{GP}.fix_des_var', f'{GP}.free_des_var'])
    ps = persist.Persist(ctx, roots, fns)
    from ..rules.persist import A1_TABLE
    A1_TABLE.setdefault('adsg_core.optimization.graph_processor:GraphProcessor.fix_des_var',
                        'the fixed-value table is the state this operation exists to change')
    A1_TABLE.setdefault('adsg_core.optimization.graph_processor:GraphProcessor._update_comb_fixed_mask',
                        'the combination mask is a function of the fixed-value table, recomputed on every fix/free')
    ps.check_writes()
    ctx.floor('A16', 30, 'regions of the fix guards')
    ctx.floor('A5c', 10, 'consumers of the fixed-value table')
    ctx.floor('A1', 8, 'persistent writes on the fix/free/decode slice')
    # memoised answers on the decode path: the key covers every parameter the stored answer depends on
    from ..rules import persist as _ps
    _ps.check_decode_memos(ctx)
    from ..rules import indexspace as _ixg
    _ixg.check_global_row_ids(ctx, f'{GP}.get_all_discrete_x')
    _ixg.check_fixed_table_keys(ctx)


from ..selftest import V  # noqa: E402

VARIANTS = [
    V('row-ids-taken-after-the-filter', 'optimization/graph_processor.py',
      [("        i_combs = np.arange(x.shape[0])\n", ""), ("        i_combs = i_combs[x_keep]\n", "        i_combs = np.arange(x.shape[0])\n")], key='A21g'),
    V('old-value-dropped-before-validation', 'optimization/graph_processor.py',
      [("        if value is None:\n            if idx in self._fixed_values:\n                del self._fixed_values[idx]\n        else:\n", "        self._fixed_values.pop(idx, None)\n        if value is not None:\n")], key='clears-after-write'),
    V('twin-free-by-pop', 'optimization/graph_processor.py',
      [("            if idx in self._fixed_values:\n                del self._fixed_values[idx]\n", "            self._fixed_values.pop(idx, None)\n")], expect='silent'),
    V('fix-accepts-n', 'optimization/graph_processor.py',
      [("                if value < 0 or value >= des_var.n_opts:", "                if value < 0 or value > des_var.n_opts:")],
      key='discrete'),
    V('fix-accepts-negative', 'optimization/graph_processor.py',
      [("                if value < 0 or value >= des_var.n_opts:", "                if value >= des_var.n_opts:")], key='discrete'),
    V('fix-rejects-upper-bound', 'optimization/graph_processor.py',
      [("                if value < des_var.bounds[0] or value > des_var.bounds[1]:", "                if value < des_var.bounds[0] or value >= des_var.bounds[1]:")],
      key='continuous'),
    V('fix-conn-range-closed', 'optimization/graph_processor.py',
      [("                if i_dv_start <= idx < i_dv_end:", "                if i_dv_start < idx < i_dv_end:")],
      key='connection-variables-rejected'),
    V('fix-no-mask-update', 'optimization/graph_processor.py',
      [("            self._fixed_values[idx] = value\n\n        self._update_comb_fixed_mask()\n", "            self._fixed_values[idx] = value\n\n")],
      key='mask-recomputed'),
    V('free-keeps-entry', 'optimization/graph_processor.py',
      [("            if idx in self._fixed_values:\n                del self._fixed_values[idx]\n", "            pass\n")],
      key='free-deletes-entry'),
    V('mask-folded', 'optimization/hierarchy/base.py',
      [("                include_mask = include_mask & mask\n", "                include_mask &= mask\n")], key='include_mask'),
    V('count-ignores-fixed-mask', 'optimization/graph_processor.py',
      [("        if with_fixed and self._comb_fixed_mask is not None:\n            n_combinations = n_combinations[self._comb_fixed_mask]\n", "")],
      key='count-filter'),
    V('decode-is-fixed-dropped', 'optimization/graph_processor.py',
      [("            is_fixed[i_dec] = i_dv in self._fixed_values\n", "")], key='decode-is-fixed-flags'),
    V('available-mask-union-across-choices', 'optimization/hierarchy/complete.py',
      [("(fixed_comb_set & fixed_comb_set_i)", "(fixed_comb_set | fixed_comb_set_i)")], key='available-combinations'),
    V('twin-fix-range-rewritten', 'optimization/graph_processor.py',
      [("                if value < 0 or value >= des_var.n_opts:", "                if not (0 <= value <= des_var.n_opts-1):")],
      expect='silent'),
    V('twin-rename-local-in-des-vars', 'optimization/graph_processor.py',
      [("        fixed_values = self._fixed_values\n        return [des_var for i, des_var in enumerate(self.all_des_vars) if i not in fixed_values]",
        "        fixed = self._fixed_values\n        return [dv for k, dv in enumerate(self.all_des_vars) if k not in fixed]")], expect='silent'),
    V('twin-rename-locals-in-merge', 'optimization/graph_processor.py',
      [("        fixed_values = self._fixed_values\n        i_value = 0\n        values = []\n        for i, des_var in enumerate(self.all_des_vars):\n            if i in fixed_values:\n                values.append(fixed_values[i])\n            else:\n                values.append(des_var_values[i_value])\n                i_value += 1\n        return values",
        "        fixed = self._fixed_values\n        pos = 0\n        out = []\n        for k, des_var in enumerate(self.all_des_vars):\n            if k in fixed:\n                out.append(fixed[k])\n            else:\n                out.append(des_var_values[pos])\n                pos += 1\n        return out")], expect='silent'),
]
