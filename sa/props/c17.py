"""C17 Metrics are classified and evaluated according to the documented contract - structural clauses."""
import ast

from ..rules.match import FnText
from ..model import AnalysisError, norm
from ..cfg import build_cfg
from ..astutil import short, call_name
from ..report import fkey
from ..rules import guards, truth, absint
from ..rules.common import *

META = {'technique': 'static analysis: custom AST/CFG/call-graph rules; truth tables of predicates; term-domain abstract interpretation (rules/absint.py) of the typing, categorisation and evaluation procedures over their finite input domains'}

EXPLANATION = (
    'Decides the classification and evaluation contract on the code itself: the truth tables of _can_be_objective '
    '(direction AND permanent) and _can_be_constraint (direction AND reference) are computed from their return '
    'expressions; the role of a metric is a decision table over (declared type: none / NONE / OBJECTIVE / CONSTRAINT / '
    'OBJ_OR_CON) x (can be objective) x (can be constraint) - _get_metrics is interpreted abstractly for all 20 '
    'inputs (rules/absint.py: constants for the finite inputs, opaque terms for everything else, private helpers '
    'interpreted in place) and compared with the documented table; _categorize_metrics is interpreted for the four '
    'role sets (what is appended to which list, whether the chooser is consulted), every implementation of '
    '_choose_metric_type raises; evaluate() is interpreted for one generic metric node / objective / constraint: the '
    'reported values are read off as terms (look-up in the mapping returned by _evaluate for this instance, NaN '
    'default, the reference value exactly on the "node absent from this instance" side, values stored on the '
    'instance).  The spelling (nested ifs, guard clauses, flag variables, comprehension or loop, local helper) does '
    'not matter.  Permanence: the set returned by get_non_confirmed_nodes must (may-)depend on the confirmed-closure '
    'component of traverse_until_choice_nodes (flow-insensitive data+control dependence; "no dependence" is a '
    'definite verdict).  Not decided: the values an evaluator returns.')


def predicates(ctx, rule='A17t'):
    fo = ctx.fn(f'{GP}._can_be_objective')
    fc = ctx.fn(f'{GP}._can_be_constraint')
    ro, rc = returns_of(fo), returns_of(fc)
    if len(ro) != 1 or len(rc) != 1:
        raise AnalysisError('_can_be_objective/_can_be_constraint: expected a single return')
    atoms_o = {'dir': truth.is_not_none('.dir'),
               'perm': lambda e: isinstance(e, ast.Compare) and isinstance(e.ops[0], ast.In) and
               'permanent' in norm(e.comparators[0])}
    names, tt = truth.truth_table(ro[0].value, atoms_o)
    want = {v: (v[names.index('dir')] and v[names.index('perm')]) for v in tt}
    ctx.ob(rule, fkey(fo, rule, 'objective-iff-direction-and-permanent'), tt == want, fo.where,
           'a metric can be an objective iff it has a direction AND its node is among the permanent nodes',
           f'truth table over {names}: {sorted(k for k, v in tt.items() if v)} true')
    atoms_c = {'dir': truth.is_not_none('.dir'), 'ref': truth.is_not_none('.ref')}
    names, tt = truth.truth_table(rc[0].value, atoms_c)
    want = {v: (v[names.index('dir')] and v[names.index('ref')]) for v in tt}
    ctx.ob(rule, fkey(fc, rule, 'constraint-iff-direction-and-reference'), tt == want, fc.where,
           'a metric can be a constraint iff it has a direction AND a reference value',
           f'truth table over {names}: {sorted(k for k, v in tt.items() if v)} true')
    pn = ctx.fn(f'{GP}._get_permanent_nodes')
    t = FnText(ctx, pn)
    ok = 'self.graph.get_confirmed_graph()' in t and 'set(confirmed_initial_graph.graph.nodes)' in t
    ctx.ob(rule, fkey(pn, rule, 'permanent-is-confirmed-initial-graph'), ok, pn.where,
           'permanent nodes are exactly the nodes of the confirmed part of the initial graph (present in every '
           'architecture)', t[:120])
    cg = ctx.fn(f'{DSG}.get_confirmed_graph')
    t = FnText(ctx, cg)
    ok = 'get_non_confirmed_nodes(self._graph, start_nodes)' in t and 'removed_nodes=non_confirmed_nodes' in t
    ctx.ob(rule, fkey(cg, rule, 'confirmed-graph-removes-non-confirmed'), ok, cg.where,
           'the confirmed graph is the graph minus every node not reachable from the start nodes without passing '
           'a choice', '')


def _may_depend_on_call_elem(fn_node, is_source_call, elem=0):
    """Flow-insensitive MAY dependence (data + control) of the function's returned value on element `elem` of the
    tuple returned by a call matching `is_source_call`.  Over-approximates (a name is one cell for the whole
    function; every test of an enclosing compound statement and every test guarding a jump counts as a control
    dependence), so 'no dependence' is a definite verdict and 'dependence' is not a proof of correctness."""
    SRC = '<source>'
    deps = {}
    jump_tests = set()

    def loads(e):
        out = set()
        if e is None:
            return out
        for x in ast.walk(e):
            if isinstance(x, ast.Name):
                out.add(x.id)
            if isinstance(x, ast.Call) and is_source_call(x):
                out.add(SRC)
        return out

    def base_name(t):
        while isinstance(t, (ast.Subscript, ast.Attribute, ast.Starred)):
            t = t.value
        return t.id if isinstance(t, ast.Name) else None

    def bind(t, used):
        if isinstance(t, (ast.Tuple, ast.List)):
            for e in t.elts:
                bind(e, used)
            return
        b = base_name(t)
        if b is not None:
            deps.setdefault(b, set()).update(used)

    returned = set()

    def visit(stmts, ctrl):
        for st in stmts:
            if isinstance(st, (ast.Assign, ast.AnnAssign, ast.AugAssign)):
                targets = st.targets if isinstance(st, ast.Assign) else [st.target]
                val = st.value
                if isinstance(val, ast.Call) and is_source_call(val) and len(targets) == 1 and \
                        isinstance(targets[0], (ast.Tuple, ast.List)) and \
                        not any(isinstance(e, ast.Starred) for e in targets[0].elts):
                    rest = set(ctrl)
                    for a in list(val.args) + [k.value for k in val.keywords]:
                        rest |= loads(a)
                    for i, e in enumerate(targets[0].elts):
                        bind(e, rest | ({SRC} if i == elem else set()))
                    continue
                used = loads(val) | ctrl
                for t in targets:
                    bind(t, used | (loads(t) - {base_name(t)}))
            elif isinstance(st, ast.Expr):
                used = loads(st.value) | ctrl
                for x in ast.walk(st.value):
                    if isinstance(x, ast.Call) and isinstance(x.func, ast.Attribute):
                        b = base_name(x.func.value)
                        if b is not None:
                            deps.setdefault(b, set()).update(used)
            elif isinstance(st, ast.Return):
                returned.update(loads(st.value) | ctrl)
            elif isinstance(st, (ast.If, ast.While)):
                c = ctrl | loads(st.test)
                if any(isinstance(x, (ast.Return, ast.Continue, ast.Break, ast.Raise)) for x in ast.walk(st)):
                    jump_tests.update(c)
                visit(st.body, c)
                visit(st.orelse, c)
            elif isinstance(st, (ast.For, ast.AsyncFor)):
                c = ctrl | loads(st.iter)
                bind(st.target, c)
                visit(st.body, c)
                visit(st.orelse, c)
            elif isinstance(st, (ast.With, ast.AsyncWith)):
                for it in st.items:
                    if it.optional_vars is not None:
                        bind(it.optional_vars, loads(it.context_expr) | ctrl)
                visit(st.body, ctrl)
            elif isinstance(st, ast.Try):
                visit(st.body, ctrl)
                for h in st.handlers:
                    visit(h.body, ctrl)
                visit(st.orelse, ctrl)
                visit(st.finalbody, ctrl)
            elif isinstance(st, (ast.FunctionDef, ast.AsyncFunctionDef)):
                deps.setdefault(st.name, set()).update(loads(st) | ctrl)
                visit(st.body, ctrl)
            else:
                for x in ast.walk(st):
                    if isinstance(x, ast.NamedExpr):
                        bind(x.target, loads(x.value) | ctrl)

    visit(fn_node.body, set())
    for x in ast.walk(fn_node):     # walrus / comprehension variables inside expressions
        if isinstance(x, ast.NamedExpr):
            bind(x.target, loads(x.value))
        elif isinstance(x, ast.comprehension):
            bind(x.target, loads(x.iter))
    seen, todo = set(), list(returned | jump_tests)
    while todo:
        n = todo.pop()
        if n in seen:
            continue
        seen.add(n)
        todo.extend(deps.get(n, ()))
    return SRC in seen, sorted(seen - {SRC})


def non_confirmed_rule(ctx, rule='A17t'):
    """Permanence of a metric node rests on get_non_confirmed_nodes: a node is non-confirmed iff it is NOT in the
    closure traverse_until_choice_nodes reaches from the start nodes without passing a choice (a node below a choice
    that also has a derivation path from the permanent part is confirmed).  Necessary condition decided here: the
    returned set depends on the confirmed-nodes component (first element) of that traversal."""
    fn = ctx.fn(f'{TRAV}:get_non_confirmed_nodes')
    unit = unit_functions(ctx.prog, fn)
    carriers = set()
    for h in unit[1:]:
        if any(call_name(c) == 'traverse_until_choice_nodes' for c in calls(h)):
            carriers.add(h.name)

    def is_src(c):
        nm = call_name(c)
        return nm == 'traverse_until_choice_nodes' or (nm or '').split('.')[-1] in carriers

    if not any(is_src(c) for c in calls(fn)):
        raise AnalysisError('get_non_confirmed_nodes no longer calls traverse_until_choice_nodes (directly or through a '
                            'private helper): the confirmed closure it complements cannot be located')
    dep, through = _may_depend_on_call_elem(fn.node, is_src, elem=0)
    ctx.ob(rule, fkey(fn, rule, 'non-confirmed-complements-confirmed-closure'), dep, fn.where,
           'the set returned by get_non_confirmed_nodes depends (data or control) on the confirmed-nodes component '
           '(first element) of traverse_until_choice_nodes: non-confirmed is the complement of the closure reached '
           'without passing a choice, not "everything below a choice"',
           f'returned value may depend on: {through[:12]}')


def _metric_type_values(ctx):
    """NONE/OBJECTIVE/CONSTRAINT/OBJ_OR_CON -> flag value, read from the enum class body."""
    cls = ctx.prog.cls('adsg_core.graph.adsg_nodes:MetricType')
    vals, auto = {}, 1
    for st in cls.node.body:
        if isinstance(st, ast.Assign) and isinstance(st.targets[0], ast.Name):
            k, v = st.targets[0].id, st.value
            if isinstance(v, ast.Constant) and isinstance(v.value, int):
                vals[k] = v.value
            elif isinstance(v, ast.Call) and norm(v.func) in ('enum.auto', 'auto'):
                vals[k] = auto
                auto *= 2
            elif isinstance(v, ast.BinOp) and isinstance(v.op, ast.BitOr) and isinstance(v.left, ast.Name) and \
                    isinstance(v.right, ast.Name):
                vals[k] = vals[v.left.id] | vals[v.right.id]
            else:
                raise AnalysisError(f'MetricType: unrecognised member definition `{norm(st)}`')
    if set(vals) != {'NONE', 'OBJECTIVE', 'CONSTRAINT', 'OBJ_OR_CON'} or vals['NONE'] != 0 or \
            vals['OBJ_OR_CON'] != vals['OBJECTIVE'] | vals['CONSTRAINT']:
        raise AnalysisError(f'MetricType members changed: {vals}')
    return vals


def typing_rules(ctx, rule='A17c'):
    fn = ctx.fn(f'{GP}._get_metrics')
    txt = FnText(ctx, fn)
    mt = _metric_type_values(ctx)
    names = {v: k for k, v in mt.items()}
    helpers = {h.name: h for h in unit_functions(ctx.prog, fn)[1:]}

    def run_typing(declared, can_obj, can_con):
        def oracle(kind, node, args, path):
            if kind == 'attr':
                base = args[0]
                if isinstance(base, absint.Sym) and base.term == ('name', 'MetricType') and node.attr in mt:
                    return mt[node.attr]
                if node.attr == 'type':
                    return declared
            if kind == 'call':
                nm = call_name(node)
                if nm == '_can_be_objective':
                    return can_obj
                if nm == '_can_be_constraint':
                    return can_con
                if nm == 'isinstance' and len(args[0]) == 2 and isinstance(args[0][1], absint.Sym) and \
                        args[0][1].term == ('name', 'MetricType'):
                    a0 = args[0][0]
                    if a0 is None or isinstance(a0, int):
                        return a0 is not None
            return absint.NOTHING
        paths = absint.Interp(fn, helpers, oracle).run()
        roles = set()
        for q in paths:
            if q.outcome[0] != 'return' or not isinstance(q.outcome[1], absint.AList) or not q.outcome[1].items:
                raise AnalysisError(f'_get_metrics: result is not the list of (node, role) pairs ({q.outcome})')
            it = q.outcome[1].items[-1]
            if not (isinstance(it, tuple) and len(it) == 2):
                raise AnalysisError(f'_get_metrics: unrecognised list element {it!r}')
            roles.add(it[1])
        if len(roles) != 1 or not isinstance(next(iter(roles)), int):
            raise AnalysisError(f'_get_metrics: role not decided for declared={declared} ({roles})')
        return roles.pop()

    def nm(v):
        return 'undeclared' if v is None else names.get(v, str(v))
    for declared in (None, mt['NONE'], mt['OBJECTIVE'], mt['CONSTRAINT'], mt['OBJ_OR_CON']):
        for can_obj in (False, True):
            for can_con in (False, True):
                got = run_typing(declared, can_obj, can_con)
                union = (mt['OBJECTIVE'] if can_obj else 0) | (mt['CONSTRAINT'] if can_con else 0)
                if declared == mt['NONE']:
                    want, key = mt['NONE'], 'declared-none-means-no-role'
                    desc = 'a metric declared NONE gets no role, whatever its direction / reference'
                elif declared is None:
                    want, key = union, 'role-set-is-union'
                    desc = 'the possible roles of an undeclared metric are the union of the objective bit (if it ' \
                           'can be one) and the constraint bit'
                else:
                    want = declared if union == mt['OBJ_OR_CON'] else union
                    key = 'declared-type-decides-only-if-both'
                    desc = 'the declared type replaces the role set exactly when both roles are possible; ' \
                           'otherwise the possible role stands'
                ctx.ob(rule, fkey(fn, rule, f'{key}:{nm(declared)}:obj={int(can_obj)}:con={int(can_con)}'),
                       got == want, fn.where, desc,
                       f'declared {nm(declared)}, can be objective {can_obj}, can be constraint {can_con}: role '
                       f'{names.get(got, got)}' + ('' if got == want else f', expected {names.get(want, want)}'),
                       nontrivial=(can_obj and can_con))
    ok = 'permanent_nodes = self.permanent_nodes' in txt and 'for metric_node in self.metric_nodes' in txt
    ctx.ob(rule, fkey(fn, rule, 'iterates-sorted-metric-nodes'), ok, fn.where,
           'metrics are classified in the order of the name-sorted metric-node list', '')
    mn = ctx.prog.cls(GP).methods['metric_nodes']
    t = FnText(ctx, mn)
    ok = 'sorted(self.graph.get_nodes_by_type(MetricNode), key=lambda n: n.name)' in t
    ctx.ob(rule, fkey(mn, rule, 'metric-nodes-sorted-by-name'), ok, mn.where,
           'the metric nodes are sorted by name (stable output order)', t[:100])
    # categorisation: decision table over the four role sets (abstract interpretation of the loop body)
    cat = ctx.fn(f'{GP}._categorize_metrics')
    chelpers = {h.name: h for h in unit_functions(ctx.prog, cat)[1:] if h.name != '_choose_metric_type'}

    def run_cat(role):
        def oracle(kind, node, args, path):
            if kind == 'attr':
                base = args[0]
                if isinstance(base, absint.Sym) and base.term == ('name', 'MetricType') and node.attr in mt:
                    return mt[node.attr]
            if kind == 'call' and call_name(node) == 'isinstance' and len(args[0]) == 2:
                # an object made by Objective.from_metric_node(..) is an Objective, one made by
                # Constraint.from_metric_node(..) is not (and vice versa); the chooser's result stays open
                obj, cls_ = args[0]
                t_o = obj.term if isinstance(obj, absint.Sym) else None
                t_c = cls_.term if isinstance(cls_, absint.Sym) else None
                if isinstance(t_o, tuple) and t_o[0] == 'call' and isinstance(t_o[1], tuple) and t_o[1][0] == 'attr' \
                        and t_o[1][2] == 'from_metric_node' and t_o[1][1] in (('name', 'Objective'),
                                                                              ('name', 'Constraint')) and \
                        t_c in (('name', 'Objective'), ('name', 'Constraint')):
                    return t_o[1][1] == t_c
            return absint.NOTHING

        def binder(target, it, path):
            if isinstance(target, ast.Tuple) and len(target.elts) == 2 and all(isinstance(e, ast.Name)
                                                                                 for e in target.elts):
                return {target.elts[0].id: absint.Sym(('elem', absint._t(it), 0)), target.elts[1].id: role}
            return None
        return absint.Interp(cat, chelpers, oracle, binder).run()

    def made_by(v, cls_name):
        t = v.term if isinstance(v, absint.Sym) else None
        return isinstance(t, tuple) and t[0] == 'call' and t[1] == ('attr', ('name', cls_name), 'from_metric_node')

    def chooser(q):
        return [e for e in q.trace if e[0] == 'call' and e[1][1][0] == 'attr' and e[1][1][2] == '_choose_metric_type']
    table = {}
    for role in (0, 1, 2, 3):
        res = []
        for q in run_cat(role):
            out = q.outcome
            if out[0] == 'raise':
                res.append(('raise', None, None, q))
                continue
            if out[0] != 'return' or not (isinstance(out[1], tuple) and len(out[1]) == 2 and
                                          all(isinstance(x, absint.AList) for x in out[1])):
                raise AnalysisError(f'_categorize_metrics: result is not (objectives, constraints): {out}')
            res.append(('ok', out[1][0].items, out[1][1].items, q))
        table[role] = res
    R_OBJ, R_CON, R_BOTH = mt['OBJECTIVE'], mt['CONSTRAINT'], mt['OBJ_OR_CON']
    ok = all(k == 'ok' and not o and not c for k, o, c, q in table[0]) and \
        all(k == 'ok' and not o for k, o, c, q in table[R_CON]) and \
        all(k == 'ok' and len(o) == 1 and made_by(o[0], 'Objective') for k, o, c, q in table[R_OBJ])
    ctx.ob(rule, fkey(cat, rule, 'objective-needs-objective-bit'), ok, cat.where,
           'a metric becomes an objective exactly under the OBJECTIVE bit of its role set (no role: nothing; '
           'constraint only: no objective)', '; '.join(f'role {r}: objectives {[repr(x) for x in o or []]}'
                                                      for r in (0, R_OBJ, R_CON) for k, o, c, q in table[r])[:300])
    ok = all(k == 'ok' and not c for k, o, c, q in table[0]) and \
        all(k == 'ok' and not c for k, o, c, q in table[R_OBJ]) and \
        all(k == 'ok' and len(c) == 1 and made_by(c[0], 'Constraint') for k, o, c, q in table[R_CON])
    ctx.ob(rule, fkey(cat, rule, 'constraint-needs-constraint-bit'), ok, cat.where,
           'a metric becomes a constraint exactly under the CONSTRAINT bit of its role set', '')
    ok = bool(table[R_BOTH]) and all(k == 'raise' or chooser(q) for k, o, c, q in table[R_BOTH]) and \
        all(k == 'raise' or all(not made_by(x, 'Objective') and not made_by(x, 'Constraint') for x in o + c)
            for k, o, c, q in table[R_BOTH])
    ctx.ob(rule, fkey(cat, rule, 'ambiguous-consults-chooser'), ok, cat.where,
           'when both bits are set (and no declared type resolved it) _choose_metric_type decides: nothing is '
           'appended without consulting it', '')
    ok = all(not chooser(q) for r in (0, R_OBJ, R_CON) for k, o, c, q in table[r])
    ctx.ob(rule, fkey(cat, rule, 'unambiguous-objective'), ok, cat.where,
           'an unambiguous metric is categorised without consulting the chooser', '')
    # every implementation of _choose_metric_type raises
    n = 0
    for c in [ctx.prog.cls(GP)] + ctx.prog.subclasses(ctx.prog.cls(GP)):
        m = c.methods.get('_choose_metric_type')
        if m is None:
            continue
        n += 1
        ok = len(m.body) >= 1 and all(isinstance(s, (ast.Raise, ast.Expr)) for s in m.body) and \
            any(isinstance(s, ast.Raise) for s in m.body)
        ctx.ob(rule, fkey(m, rule, 'chooser-raises'), ok, m.where,
               'an undeclared metric that could be both an objective and a constraint is rejected with an error',
               short(m.body[-1]))
    if n < 2:
        raise AnalysisError('fewer than two _choose_metric_type implementations found')
    # definitions: from_metric_node interpreted for every (direction, reference) combination
    REF = 5.5
    for cls_name, dirs, needs_ref in (('Objective', ('MIN', 'MAX'), False), ('Constraint', ('LTE', 'GTE'), True)):
        f = ctx.fn(f'adsg_core.optimization.dv_output_defs:{cls_name}.from_metric_node')
        if len(f.params) < 2:
            raise AnalysisError(f'{cls_name}.from_metric_node: signature changed')
        node_p = f.params[1]
        helpers = {h.name: h for h in unit_functions(ctx.prog, f)[1:]}
        table = {}
        for d in (None, -1, 0, 2):
            for r in (None, REF):
                def oracle(kind, node, args, path, d=d, r=r):
                    if kind == 'attr' and isinstance(args[0], absint.Sym) and args[0].term == ('name', node_p):
                        if node.attr == 'dir':
                            return d
                        if node.attr == 'ref':
                            return r
                        if node.attr == 'idx':
                            return None
                    return absint.NOTHING
                paths = absint.Interp(f, helpers, oracle).run()
                outs = set()
                for q in paths:
                    if q.outcome[0] == 'raise':
                        outs.add(('raise',))
                        continue
                    t = absint._t(q.outcome[1]) if q.outcome[0] == 'return' else None
                    if not (isinstance(t, tuple) and t[0] == 'call' and t[1] == ('name', f.params[0])):
                        raise AnalysisError(f'{cls_name}.from_metric_node: unrecognised result {absint.fmt(t)[:80]}')
                    args_ = [x for x in t[2] if not (isinstance(x, tuple) and len(x) == 2 and isinstance(x[0], str)
                                                    and x[0] == 'node')]
                    direction = [x[2] for x in args_ if isinstance(x, tuple) and x[:2] == ('attr', ('name', 'Direction'))]
                    outs.add(('ok', direction[0] if direction else None, REF in args_))
                table[(d, r)] = outs
        ok = True
        bad = ''
        for (d, r), outs in table.items():
            if d is None or (needs_ref and r is None):
                want = {('raise',)}
            else:
                want = {('ok', dirs[0] if d <= 0 else dirs[1], needs_ref)} if r is not None else \
                    {('ok', dirs[0] if d <= 0 else dirs[1], False)}
            if outs != want:
                ok = False
                bad = bad or f'direction {d}, reference {r}: {sorted(outs)} instead of {sorted(want)}'
        ctx.ob(rule, fkey(f, rule, 'direction-mapping'), ok, f.where,
               f'{cls_name}: direction <= 0 maps to Direction.{dirs[0]}, > 0 to Direction.{dirs[1]}; a metric without '
               f'direction' + (' or without reference value' if needs_ref else '') + ' is rejected' +
               ('; the constraint carries the reference value of its node' if needs_ref else ''), bad)
        if needs_ref:
            ctx.ob(rule, fkey(f, rule, 'constraint-carries-reference'),
                   all(x[2] for outs in table.values() for x in outs if x[0] == 'ok'), f.where,
                   'a constraint carries the reference value of its metric node (and requires one)', bad)


def evaluate_rules(ctx, rule='A17e'):
    """evaluate() is interpreted abstractly (one generic metric node / objective / constraint): what the returned
    lists contain is read off as terms, so a comprehension, an explicit loop with append, a conditional expression,
    an if statement and a local look-up helper all give the same verdict."""
    fn = ctx.fn('adsg_core.optimization.evaluator:DSGEvaluator.evaluate')
    if len(fn.params) < 2:
        raise AnalysisError('evaluate: signature changed')
    inst = fn.params[1]
    helpers = {h.name: h for h in unit_functions(ctx.prog, fn)[1:] if h.name != '_evaluate'}
    paths = absint.Interp(fn, helpers).run()
    T = absint._t
    NANS = {('attr', ('name', 'math'), 'nan'), ('attr', ('name', 'np'), 'nan'), ('attr', ('name', 'numpy'), 'nan'),
            ('call', ('name', 'float'), ('nan',)), ('name', 'nan')}
    MN = ('attr', ('name', inst), 'metric_nodes')

    def is_eval(t):
        # the mapping returned by self._evaluate(<instance>, ...) in this call
        return isinstance(t, tuple) and t[0] == 'call' and t[1] == ('attr', ('name', 'self'), '_evaluate') and \
            t[2] and t[2][0] == ('name', inst)

    def lookup(t):
        """(receiver, key, default) of `<m>.get(key, default)` / `<m>[key]`, else None."""
        if isinstance(t, tuple) and t[0] == 'call' and t[1][0] == 'attr' and t[1][2] == 'get' and 1 <= len(t[2]) <= 2:
            return t[1][1], t[2][0], (t[2][1] if len(t[2]) == 2 else 'none')
        if isinstance(t, tuple) and t[0] == 'index':
            return t[1], t[2], 'keyerror'
        return None
    if not paths or any(q.outcome[0] != 'return' for q in paths):
        raise AnalysisError(f'evaluate: a path does not return ({[q.outcome for q in paths]})')
    rets = [q.outcome[1] for q in paths]
    ok = all(isinstance(r, tuple) and len(r) == 2 and all(isinstance(x, absint.AList) for x in r) for r in rets)
    ctx.ob(rule, fkey(fn, rule, 'returns-objectives-then-constraints'), ok, fn.where,
           'the result is (objective values, constraint values), two lists built in this call', repr(rets[0])[:120])
    if not ok:
        return

    def side_checks(side, idx, values_of):
        elem = ('elem', ('attr', ('name', 'self'), side))
        key = ('attr', elem, 'node')
        ok_one = ok_src = ok_nan = ok_through = True
        detail = ''
        for q, r in zip(paths, rets):
            items = r[idx].items
            if len(items) != 1:
                ok_one = False
                detail = f'{len(items)} value(s) per generic {side[:-1]}'
                continue
            for v in values_of(q, items[0]):
                lk = lookup(T(v))
                if lk is None:
                    ok_through = False
                    detail = f'reported value is `{absint.fmt(T(v))}`'
                    continue
                recv, k, d = lk
                ok_one &= (k == key)
                ok_src &= is_eval(recv)
                ok_nan &= d in NANS
                detail = detail or f'{absint.fmt(T(v))}'
        return ok_one, ok_src, ok_nan, ok_through, detail

    # objectives: the single item is the look-up itself
    o_one, o_src, o_nan, o_thr, o_det = side_checks('objectives', 0, lambda q, v: [v])
    ctx.ob(rule, fkey(fn, rule, 'one-value-per-objective-in-order'), o_one, fn.where,
           'one value per objective, in the order of self.objectives, looked up by the objective\'s node', o_det)
    ctx.ob(rule, fkey(fn, rule, 'value-from-this-evaluation:objective.node'), o_src, fn.where,
           'the value reported for an objective is looked up in the mapping returned by _evaluate for this instance',
           o_det)
    ctx.ob(rule, fkey(fn, rule, 'nan-default:objective.node'), o_nan, fn.where,
           'an objective value that the evaluator did not provide is reported as NaN', o_det)
    ctx.ob(rule, fkey(fn, rule, 'value-handed-through:objective.node'), o_thr, fn.where,
           'the evaluator\'s value is reported itself (no truthiness fallback that would also replace 0.0)', o_det)

    # constraints: value under "node present in this instance" / "absent"
    celem = ('elem', ('attr', ('name', 'self'), 'constraints'))
    present_terms = []

    def resolve(q, v, present):
        """The value of the generic constraint on this path under the assumption; None if the path contradicts it."""
        t = T(v)
        for ct, truth_ in q.conds:
            if isinstance(ct, tuple) and ct[0] == 'in' and ct[1] == ('attr', celem, 'node'):
                present_terms.append(ct)
                if truth_ != present:
                    return None
        while isinstance(t, tuple) and t[0] == 'ite':
            test, flip = absint.canon(t[1])
            if not (isinstance(test, tuple) and test[0] == 'in' and test[1] == ('attr', celem, 'node')):
                break
            present_terms.append(test)
            t = t[2] if (present != flip) else t[3]
        return t
    ok_present = ok_absent = c_one = True
    c_src = c_nan = c_thr = True
    det_p = det_a = ''
    seen_present = seen_absent = False
    for q, r in zip(paths, rets):
        items = r[1].items
        if len(items) != 1:
            c_one = False
            continue
        tp, ta = resolve(q, items[0], True), resolve(q, items[0], False)
        if tp is not None:
            seen_present = True
            lk = lookup(tp)
            det_p = absint.fmt(tp)
            if lk is None:
                c_thr = False
                ok_present = ok_present and False
            else:
                recv, k, d = lk
                ok_present &= (k == ('attr', celem, 'node'))
                c_src &= is_eval(recv)
                c_nan &= d in NANS
        if ta is not None:
            seen_absent = True
            det_a = absint.fmt(ta)
            ok_absent &= (ta == ('attr', celem, 'ref'))
    tested = {t for t in present_terms}
    ctx.ob(rule, fkey(fn, rule, 'absent-constraint-reports-reference'),
           c_one and seen_present and seen_absent and ok_present and ok_absent and bool(tested), fn.where,
           'the value of a constraint is its reference value exactly when its node is absent from the evaluated '
           'architecture; otherwise the evaluator\'s value, in the order of self.constraints',
           f'present: {det_p or "?"}; absent: {det_a or "?"}')
    ctx.ob(rule, fkey(fn, rule, 'absence-tested-against-instance'), bool(tested) and all(t[2] == MN for t in tested),
           fn.where, 'absence of the constraint\'s node is tested against the metric nodes of the evaluated instance',
           '; '.join(absint.fmt(t) for t in tested) or 'no membership test on the constraint\'s node')
    ctx.ob(rule, fkey(fn, rule, 'value-from-this-evaluation:constraint.node'), c_src and seen_present, fn.where,
           'the value reported for a present constraint is looked up in the mapping returned by _evaluate for this '
           'instance', det_p)
    ctx.ob(rule, fkey(fn, rule, 'nan-default:constraint.node'), c_nan and seen_present, fn.where,
           'a constraint value that the evaluator did not provide is reported as NaN', det_p)
    ctx.ob(rule, fkey(fn, rule, 'value-handed-through:constraint.node'), c_thr, fn.where,
           'the evaluator\'s value is reported itself (no truthiness fallback that would also replace 0.0)', det_p)
    # every metric node of the instance gets its value stored on the instance
    ok = True
    det = 'no set_metric_value call'
    for q in paths:
        sets = [e[1] for e in q.trace if e[0] == 'call' and e[1][1][0] == 'attr' and e[1][1][2] == 'set_metric_value']
        good = False
        for t in sets:
            args = t[2]
            if t[1][1] == ('name', inst) and len(args) == 2 and args[0] == ('elem', MN):
                lk = lookup(args[1])
                det = absint.fmt(t)
                good = lk is not None and is_eval(lk[0]) and lk[1] == ('elem', MN) and lk[2] in NANS
        ok &= good
    ctx.ob(rule, fkey(fn, rule, 'values-stored-on-instance'), ok, fn.where,
           'every metric node of the instance gets its value (NaN if missing) stored on the instance', det)
    gp = ctx.prog.cls(GP)
    for nm, idx in (('objectives', 0), ('constraints', 1)):
        m = gp.methods[nm]
        t = FnText(ctx, m)
        ctx.ob(rule, fkey(m, rule, f'{nm}-from-categorisation'), f'self._categorized_metrics[{idx}]' in t, m.where,
               f'the {nm} are element {idx} of the categorised metrics', t[:80])


def check(ctx):
    predicates(ctx)
    non_confirmed_rule(ctx)
    typing_rules(ctx)
    evaluate_rules(ctx)
    ctx.floor('A17c', 12, 'typing clauses')
    ctx.floor('A17e', 8, 'evaluation clauses')


from ..selftest import V  # noqa: E402

VARIANTS = [
    V('zero-value-reported-as-nan', 'optimization/evaluator.py',
      [("        objective_values = [value_map.get(objective.node, math.nan) for objective in self.objectives]", "        def _get_value(metric_node):\n            return value_map.get(metric_node) or math.nan\n        objective_values = [_get_value(objective.node) for objective in self.objectives]")], key='value-handed-through'),
    V('constraint-read-from-stored-values', 'optimization/evaluator.py',
      [("constraint_values = [value_map.get(constraint.node, math.nan)\n                             if constraint.node in metric_nodes else constraint.ref\n                             for constraint in self.constraints]",
        "metric_values = dsg.metric_values\n        constraint_values = [metric_values.get(constraint.node, constraint.ref) for constraint in self.constraints]")],
      key='value-from-this-evaluation'),
    V('objective-without-permanence', 'optimization/graph_processor.py',
      [("        return metric_node.dir is not None and metric_node in permanent_nodes", "        return metric_node.dir is not None")],
      key='objective-iff'),
    V('objective-or', 'optimization/graph_processor.py',
      [("        return metric_node.dir is not None and metric_node in permanent_nodes", "        return metric_node.dir is not None or metric_node in permanent_nodes")],
      key='objective-iff'),
    V('constraint-without-direction', 'optimization/graph_processor.py',
      [("        return metric_node.dir is not None and metric_node.ref is not None", "        return metric_node.ref is not None")], key='constraint-iff'),
    V('none-still-used', 'optimization/graph_processor.py',
      [("            if is_none:\n                metric_type = MetricType.NONE\n            else:\n                obj =", "            if False:\n                metric_type = MetricType.NONE\n            else:\n                obj =")],
      key='declared-none'),
    V('declared-type-always-wins', 'optimization/graph_processor.py',
      [("            if metric_type == MetricType.OBJ_OR_CON and isinstance(metric_node.type, MetricType):", "            if isinstance(metric_node.type, MetricType):")],
      key='declared-type-decides-only-if-both'),
    V('chooser-defaults-to-objective', 'optimization/evaluator.py',
      [("        raise RuntimeError(f'Metric {objective.name} can either be an objective or a constraint! '\n                           f'Specify the metric type using node.type = MetricType.x')", "        return objective")],
      key='chooser-raises'),
    V('missing-value-zero', 'optimization/evaluator.py',
      [("objective_values = [value_map.get(objective.node, math.nan) for objective in self.objectives]", "objective_values = [value_map.get(objective.node, 0.) for objective in self.objectives]")],
      key='nan-default'),
    V('absent-constraint-nan', 'optimization/evaluator.py',
      [("                             if constraint.node in metric_nodes else constraint.ref\n", "                             if constraint.node in metric_nodes else math.nan\n")],
      key='absent-constraint-reports-reference'),
    V('absent-tested-against-design-space', 'optimization/evaluator.py',
      [("                             if constraint.node in metric_nodes else constraint.ref\n", "                             if constraint.node in self.metric_nodes else constraint.ref\n")],
      key='absen'),
    V('min-max-swapped', 'optimization/dv_output_defs.py',
      [("        direction = Direction.MIN if metric_node.dir <= 0 else Direction.MAX", "        direction = Direction.MIN if metric_node.dir >= 0 else Direction.MAX")],
      key='direction-mapping'),
    V('non-confirmed-is-everything-below-a-choice', 'graph/traversal.py',
      [('    confirmed_nodes, _ = traverse_until_choice_nodes(graph, set(start_nodes))\n\n    # Get non-confirmed nodes\n    non_confirmed_nodes = set(graph.nodes) - confirmed_nodes\n    return non_confirmed_nodes', "    _, choice_nodes = traverse_until_choice_nodes(graph, set(start_nodes))\n\n    non_confirmed_nodes = set(choice_nodes)\n    to_visit = list(choice_nodes)\n    while len(to_visit) > 0:\n        for edge in iter_out_edges(graph, to_visit.pop()):\n            if edge[1] not in non_confirmed_nodes:\n                non_confirmed_nodes.add(edge[1])\n                to_visit.append(edge[1])\n    return non_confirmed_nodes")],
      key='non-confirmed-complements-confirmed-closure'),
    V('non-confirmed-ignores-closure', 'graph/traversal.py',
      [('    confirmed_nodes, _ = traverse_until_choice_nodes(graph, set(start_nodes))\n\n    # Get non-confirmed nodes\n    non_confirmed_nodes = set(graph.nodes) - confirmed_nodes\n    return non_confirmed_nodes', "    confirmed_nodes, choice_nodes = traverse_until_choice_nodes(graph, set(start_nodes))\n    non_confirmed_nodes = set(graph.nodes) - set(start_nodes)\n    return non_confirmed_nodes")],
      key='non-confirmed-complements-confirmed-closure'),
    V('twin-non-confirmed-as-loop', 'graph/traversal.py',
      [('    confirmed_nodes, _ = traverse_until_choice_nodes(graph, set(start_nodes))\n\n    # Get non-confirmed nodes\n    non_confirmed_nodes = set(graph.nodes) - confirmed_nodes\n    return non_confirmed_nodes', "    closure = traverse_until_choice_nodes(graph, set(start_nodes))[0]\n    non_confirmed_nodes = set()\n    for node in graph.nodes:\n        if node in closure:\n            continue\n        non_confirmed_nodes.add(node)\n    return non_confirmed_nodes")],
      expect='silent'),
    V('twin-non-confirmed-as-comprehension', 'graph/traversal.py',
      [('    confirmed_nodes, _ = traverse_until_choice_nodes(graph, set(start_nodes))\n\n    # Get non-confirmed nodes\n    non_confirmed_nodes = set(graph.nodes) - confirmed_nodes\n    return non_confirmed_nodes', "    res = traverse_until_choice_nodes(graph, set(start_nodes))\n    confirmed_nodes = res[0]\n    return {node for node in graph.nodes if node not in confirmed_nodes}")],
      expect='silent'),
    V('twin-objective-predicate-reordered', 'optimization/graph_processor.py',
      [("        return metric_node.dir is not None and metric_node in permanent_nodes", "        return metric_node in permanent_nodes and not (not (metric_node.dir is not None))")],
      expect='silent'),
    V('twin-rename-locals-in-get-metrics', 'optimization/graph_processor.py',
      [("                obj = MetricType.OBJECTIVE if self._can_be_objective(metric_node, permanent_nodes) else MetricType.NONE\n                constr = MetricType.CONSTRAINT if self._can_be_constraint(metric_node) else MetricType.NONE\n\n                metric_type = obj | constr",
        "                as_obj = MetricType.OBJECTIVE if self._can_be_objective(metric_node, permanent_nodes) else MetricType.NONE\n                as_con = MetricType.CONSTRAINT if self._can_be_constraint(metric_node) else MetricType.NONE\n\n                metric_type = as_obj | as_con")], expect='silent'),
]
