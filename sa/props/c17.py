"""C17 Metrics are classified and evaluated according to the documented contract - structural clauses."""
import ast

from ..rules.match import FnText
from ..model import AnalysisError, norm
from ..cfg import build_cfg
from ..astutil import short, call_name
from ..report import fkey
from ..rules import guards, truth
from ..rules.common import *

EXPLANATION = (
    'Decides the classification and evaluation contract structurally: the truth tables of _can_be_objective '
    '(direction AND permanent) and _can_be_constraint (direction AND reference) are computed from their return '
    'expressions; a metric declared NONE short-circuits to no role; the role set is the union of both capability '
    'bits, replaced by the declared type exactly when both are possible and a type is declared; objectives / '
    'constraints are appended only under the corresponding bit (control dependence), the ambiguous case consults '
    '_choose_metric_type, every implementation of which raises; permanent nodes are the nodes of the confirmed '
    'initial graph; evaluate(): every value look-up has the NaN default, the constraint value is the reference '
    'exactly on the "node not in this architecture" side, result order follows the objective / constraint lists '
    'built from name-sorted metric nodes.')


def predicates(ctx, rule='A17t'):
    fo = ctx.fn(f'{GP}._can_be_objective')
    fc = ctx.fn(f'{GP}._can_be_constraint')
    ro, rc = returns_of(fo), returns_of(fc)
    if len(ro) != 1 or len(rc) != 1:
        raise AnalysisError('_can_be_objective/_can_be_constraint: expected a single return')
    atoms_o = {'dir': truth.is_not_none('.dir'),
               'perm': lambda e: isinstance(e, ast.Compare) and isinstance(e.ops[0], ast.In) and
               'permanent' in norm(e.comparators[0])}
    names, tt = truth.truth_table(ro[0].value, atoms_o)
    want = {v: (v[names.index('dir')] and v[names.index('perm')]) for v in tt}
    ctx.ob(rule, fkey(fo, rule, 'objective-iff-direction-and-permanent'), tt == want, fo.where,
           'a metric can be an objective iff it has a direction AND its node is among the permanent nodes',
           f'truth table over {names}: {sorted(k for k, v in tt.items() if v)} true')
    atoms_c = {'dir': truth.is_not_none('.dir'), 'ref': truth.is_not_none('.ref')}
    names, tt = truth.truth_table(rc[0].value, atoms_c)
    want = {v: (v[names.index('dir')] and v[names.index('ref')]) for v in tt}
    ctx.ob(rule, fkey(fc, rule, 'constraint-iff-direction-and-reference'), tt == want, fc.where,
           'a metric can be a constraint iff it has a direction AND a reference value',
           f'truth table over {names}: {sorted(k for k, v in tt.items() if v)} true')
    pn = ctx.fn(f'{GP}._get_permanent_nodes')
    t = FnText(ctx, pn)
    ok = 'self.graph.get_confirmed_graph()' in t and 'set(confirmed_initial_graph.graph.nodes)' in t
    ctx.ob(rule, fkey(pn, rule, 'permanent-is-confirmed-initial-graph'), ok, pn.where,
           'permanent nodes are exactly the nodes of the confirmed part of the initial graph (present in every '
           'architecture)', t[:120])
    cg = ctx.fn(f'{DSG}.get_confirmed_graph')
    t = FnText(ctx, cg)
    ok = 'get_non_confirmed_nodes(self._graph, start_nodes)' in t and 'removed_nodes=non_confirmed_nodes' in t
    ctx.ob(rule, fkey(cg, rule, 'confirmed-graph-removes-non-confirmed'), ok, cg.where,
           'the confirmed graph is the graph minus every node not reachable from the start nodes without passing '
           'a choice', '')


def typing_rules(ctx, rule='A17c'):
    fn = ctx.fn(f'{GP}._get_metrics')
    cfg = build_cfg(fn)
    txt = FnText(ctx, fn)
    ok = 'is_none = isinstance(metric_node.type, MetricType) and metric_node.type == MetricType.NONE' in txt
    ctx.ob(rule, fkey(fn, rule, 'declared-none-detected'), ok, fn.where,
           'a metric whose declared type is MetricType.NONE is recognised', '')
    none_assign = [n for n in cfg.nodes if n.kind == 'stmt' and isinstance(n.ast, ast.Assign) and
                   norm(n.ast) == 'metric_type = MetricType.NONE']
    ok = bool(none_assign) and any(p.kind == 'test' and lab == 'T' and norm(p.ast) == 'is_none'
                                   for p, lab in none_assign[0].pred)
    ctx.ob(rule, fkey(fn, rule, 'declared-none-means-no-role'), ok, fn.where,
           'a metric declared NONE gets no role, whatever its direction / reference', '')
    ok = 'obj = MetricType.OBJECTIVE if self._can_be_objective(metric_node, permanent_nodes) else MetricType.NONE' in txt and \
        'constr = MetricType.CONSTRAINT if self._can_be_constraint(metric_node) else MetricType.NONE' in txt and \
        'metric_type = obj | constr' in txt
    ctx.ob(rule, fkey(fn, rule, 'role-set-is-union'), ok, fn.where,
           'the possible roles are the union of the objective bit (if it can be one) and the constraint bit', '')
    pref = [n for n in cfg.nodes if n.kind == 'stmt' and isinstance(n.ast, ast.Assign) and
            norm(n.ast) == 'metric_type = metric_node.type']
    ok = bool(pref)
    if ok:
        t = [p for p, lab in pref[0].pred if p.kind == 'test' and lab == 'T']
        ok = bool(t) and norm(t[0].ast) == 'metric_type == MetricType.OBJ_OR_CON and isinstance(metric_node.type, MetricType)'
    ctx.ob(rule, fkey(fn, rule, 'declared-type-decides-only-if-both'), ok, fn.where,
           'the declared type replaces the role set exactly when both roles are possible and a type is declared',
           '')
    ok = 'permanent_nodes = self.permanent_nodes' in txt and 'for metric_node in self.metric_nodes' in txt
    ctx.ob(rule, fkey(fn, rule, 'iterates-sorted-metric-nodes'), ok, fn.where,
           'metrics are classified in the order of the name-sorted metric-node list', '')
    mn = ctx.prog.cls(GP).methods['metric_nodes']
    t = FnText(ctx, mn)
    ok = 'sorted(self.graph.get_nodes_by_type(MetricNode), key=lambda n: n.name)' in t
    ctx.ob(rule, fkey(mn, rule, 'metric-nodes-sorted-by-name'), ok, mn.where,
           'the metric nodes are sorted by name (stable output order)', t[:100])
    # categorisation: control dependence
    cat = ctx.fn(f'{GP}._categorize_metrics')
    cfgc = build_cfg(cat)
    obj_app = guards.call_nodes(cfgc, 'append', pred=lambda c: norm(c.func.value) == 'objectives')
    con_app = guards.call_nodes(cfgc, 'append', pred=lambda c: norm(c.func.value) == 'constraints')
    if not obj_app or not con_app:
        raise AnalysisError('_categorize_metrics: appends not found')

    def bit(name):
        def g(atom, truth_):
            return truth_ is True and isinstance(atom, ast.BinOp) and isinstance(atom.op, ast.BitAnd) and \
                norm(atom.right) == f'MetricType.{name}' and norm(atom.left) == 'metric_type'
        return g
    guards.check_guarded(ctx, rule, cat, obj_app, bit('OBJECTIVE'), set(), 'objective-needs-objective-bit',
                         'a metric is appended to the objectives only under the OBJECTIVE bit of its role set')
    guards.check_guarded(ctx, rule, cat, con_app, bit('CONSTRAINT'), set(), 'constraint-needs-constraint-bit',
                         'a metric is appended to the constraints only under the CONSTRAINT bit of its role set')
    choose = guards.call_nodes(cfgc, '_choose_metric_type')
    ok = bool(choose)
    if ok:
        e1 = cfgc.edges_implying(bit('OBJECTIVE'))
        e2 = cfgc.edges_implying(bit('CONSTRAINT'))
        ok = not cfgc.can_reach(cfgc.entry, choose[0], blocked_edges=e1) and \
            not cfgc.can_reach(cfgc.entry, choose[0], blocked_edges=e2)
    ctx.ob(rule, fkey(cat, rule, 'ambiguous-consults-chooser'), ok, cat.where,
           'when both bits are set (and no declared type resolved it) _choose_metric_type decides', '')
    # plain objective append (not via chooser) is on the "not CONSTRAINT" side
    plain = [n for n in obj_app if 'item' not in norm(n.ast)]
    if plain:
        e = cfgc.edges_implying(lambda atom, t: t is False and isinstance(atom, ast.BinOp) and
                                norm(atom.right) == 'MetricType.CONSTRAINT')
        ok = not cfgc.can_reach(cfgc.entry, plain[0], blocked_edges=e)
        ctx.ob(rule, fkey(cat, rule, 'unambiguous-objective'), ok, cat.where,
               'an objective is appended without consulting the chooser only when the CONSTRAINT bit is absent', '')
    # every implementation of _choose_metric_type raises
    n = 0
    for c in [ctx.prog.cls(GP)] + ctx.prog.subclasses(ctx.prog.cls(GP)):
        m = c.methods.get('_choose_metric_type')
        if m is None:
            continue
        n += 1
        ok = len(m.body) >= 1 and all(isinstance(s, (ast.Raise, ast.Expr)) for s in m.body) and \
            any(isinstance(s, ast.Raise) for s in m.body)
        ctx.ob(rule, fkey(m, rule, 'chooser-raises'), ok, m.where,
               'an undeclared metric that could be both an objective and a constraint is rejected with an error',
               short(m.body[-1]))
    if n < 2:
        raise AnalysisError('fewer than two _choose_metric_type implementations found')
    # definitions
    for cls_name, dirs in (('Objective', ('Direction.MIN', 'Direction.MAX')), ('Constraint', ('Direction.LTE', 'Direction.GTE'))):
        f = ctx.fn(f'adsg_core.optimization.dv_output_defs:{cls_name}.from_metric_node')
        t = FnText(ctx, f)
        ok = f'direction = {dirs[0]} if metric_node.dir <= 0 else {dirs[1]}' in t and \
            'if metric_node.dir is None' in t
        ctx.ob(rule, fkey(f, rule, 'direction-mapping'), ok, f.where,
               f'{cls_name}: direction <= 0 maps to {dirs[0]}, > 0 to {dirs[1]}; a metric without direction is '
               f'rejected', '')
    f = ctx.fn('adsg_core.optimization.dv_output_defs:Constraint.from_metric_node')
    t = FnText(ctx, f)
    ok = 'if metric_node.ref is None' in t and 'cls(name, metric_node.ref, direction, node=metric_node)' in t
    ctx.ob(rule, fkey(f, rule, 'constraint-carries-reference'), ok, f.where,
           'a constraint carries the reference value of its metric node (and requires one)', '')


def evaluate_rules(ctx, rule='A17e'):
    fn = ctx.fn('adsg_core.optimization.evaluator:DSGEvaluator.evaluate')
    # the values reported come from the evaluator's answer of THIS call, never from values stored on the graph
    # (a derived graph inherits the stored values of its parent, also for nodes it no longer has)
    result_maps = {norm(s.targets[0]) for s in walk_fn(fn) if isinstance(s, ast.Assign) and
                   isinstance(s.value, ast.Call) and call_name(s.value) == '_evaluate'}
    if not result_maps:
        raise AnalysisError('evaluate: call of _evaluate not found')
    lookups = [c for c in calls(fn, 'get') if c.args and norm(c.args[0]).endswith('.node')] + \
        [x for x in walk_fn(fn) if isinstance(x, ast.Subscript) and norm(x.slice).endswith('.node')]
    # a local helper that does the look-up for its argument counts as the look-up, provided it hands the evaluator's
    # value through unchanged: `m.get(node, nan)` - not `m.get(node) or nan`, which turns a legitimate 0.0 into NaN
    for h in fn.nested.values():
        if len(h.params) != 1:
            continue
        rets = returns_of(h)
        hcalls = [c for c in walk_fn(fn) if isinstance(c, ast.Call) and isinstance(c.func, ast.Name) and
                  c.func.id == h.name and c.args and norm(c.args[0]).endswith('.node')]
        if not rets or not hcalls:
            continue
        rv = rets[-1].value
        plain = isinstance(rv, ast.Call) and call_name(rv) == 'get' and rv.args and norm(rv.args[0]) == h.params[0]
        ctx.ob(rule, fkey(h, rule, 'helper-hands-value-through'), plain and len(rets) == 1, h.where,
               'the look-up helper returns the evaluator\'s value itself (missing -> the default of .get), without a '
               'truthiness fallback that would also replace 0.0', short(rv, 80))
        inner = rv if plain else next((x for x in ast.walk(rv) if isinstance(x, ast.Call) and call_name(x) == 'get'), None)
        if inner is not None:
            for c in hcalls:
                lookups.append(ast.copy_location(ast.Call(func=inner.func, args=[c.args[0]] + list(inner.args[1:]),
                                                          keywords=[]), c))
    if len(lookups) < 2:
        raise AnalysisError('evaluate: no value look-up keyed by the node of an objective / constraint found')
    for i, c in enumerate(lookups):
        recv = norm(c.func.value) if isinstance(c, ast.Call) else norm(c.value)
        ctx.ob(rule, fkey(fn, rule, f'value-from-this-evaluation:{norm(c.args[0]) if isinstance(c, ast.Call) else norm(c.slice)}'),
               recv in result_maps, f'{fn.module.relpath}:{c.lineno}',
               'the value reported for an objective / constraint is looked up in the mapping returned by _evaluate '
               'for this instance', f'looked up in `{recv}`' + ('' if recv in result_maps else
                                                                 ' - not the result of this evaluation'))
    gets = [c for c in calls(fn, 'get') if norm(c.func.value) in result_maps]
    for i, c in enumerate(gets):
        ok = len(c.args) == 2 and norm(c.args[1]) in ('math.nan', "float('nan')", 'np.nan', 'nan')
        ctx.ob(rule, fkey(fn, rule, f'nan-default:{norm(c.args[0])}'), ok, f'{fn.module.relpath}:{c.lineno}',
               'a value that the evaluator did not provide is reported as NaN', short(c))
    comps = [s for s in walk_fn(fn) if isinstance(s, ast.Assign) and isinstance(s.value, ast.ListComp)]
    oc = [s for s in comps if norm(s.targets[0]) == 'objective_values']
    cc = [s for s in comps if norm(s.targets[0]) == 'constraint_values']
    ok = bool(oc) and norm(oc[0].value.generators[0].iter) == 'self.objectives' and \
        'objective.node' in norm(oc[0].value.elt)
    ctx.ob(rule, fkey(fn, rule, 'one-value-per-objective-in-order'), ok, fn.where,
           'one value per objective, in the order of self.objectives, looked up by the objective\'s node', '')
    ok = False
    detail = 'constraint comprehension not found'
    if cc:
        elt = cc[0].value.elt
        ok = isinstance(elt, ast.IfExp) and isinstance(elt.test, ast.Compare) and \
            isinstance(elt.test.ops[0], ast.In) and norm(elt.test.left) == 'constraint.node' and \
            norm(elt.orelse) == 'constraint.ref' and 'value_map.get(constraint.node' in norm(elt.body) and \
            norm(cc[0].value.generators[0].iter) == 'self.constraints'
        # also accept the mirrored form
        if not ok and isinstance(elt, ast.IfExp) and isinstance(elt.test, ast.Compare) and \
                isinstance(elt.test.ops[0], ast.NotIn):
            ok = norm(elt.body) == 'constraint.ref' and 'value_map.get(constraint.node' in norm(elt.orelse)
        detail = short(elt, 120)
        mn = norm(elt.test.comparators[0]) if isinstance(elt, ast.IfExp) and isinstance(elt.test, ast.Compare) else ''
        defs = [s for s in walk_fn(fn) if isinstance(s, ast.Assign) and norm(s.targets[0]) == mn]
        ok2 = bool(defs) and norm(defs[0].value) == f'{fn.params[1]}.metric_nodes'
        ctx.ob(rule, fkey(fn, rule, 'absence-tested-against-instance'), ok2, fn.where,
               'absence of the constraint\'s node is tested against the metric nodes of the evaluated instance',
               short(defs[0]) if defs else 'missing')
    ctx.ob(rule, fkey(fn, rule, 'absent-constraint-reports-reference'), ok, fn.where,
           'the value of a constraint is its reference value exactly when its node is absent from the evaluated '
           'architecture; otherwise the evaluator\'s value (NaN if missing), in the order of self.constraints',
           detail)
    rets = returns_of(fn)
    ok = bool(rets) and norm(rets[0].value) == '(objective_values, constraint_values)'
    ctx.ob(rule, fkey(fn, rule, 'returns-objectives-then-constraints'), ok, fn.where,
           'the result is (objective values, constraint values)', short(rets[0]) if rets else 'missing')
    st = [c for c in calls(fn, 'set_metric_value')]
    ok = bool(st) and 'value_map.get(metric_node, math.nan)' in norm(st[0])
    ctx.ob(rule, fkey(fn, rule, 'values-stored-on-instance'), ok, fn.where,
           'every metric node of the instance gets its value (NaN if missing) stored on the instance', '')
    gp = ctx.prog.cls(GP)
    for nm, idx in (('objectives', 0), ('constraints', 1)):
        m = gp.methods[nm]
        t = FnText(ctx, m)
        ctx.ob(rule, fkey(m, rule, f'{nm}-from-categorisation'), f'self._categorized_metrics[{idx}]' in t, m.where,
               f'the {nm} are element {idx} of the categorised metrics', t[:80])


def check(ctx):
    predicates(ctx)
    typing_rules(ctx)
    evaluate_rules(ctx)
    ctx.floor('A17c', 12, 'typing clauses')
    ctx.floor('A17e', 8, 'evaluation clauses')


from ..selftest import V  # noqa: E402

VARIANTS = [
    V('zero-value-reported-as-nan', 'optimization/evaluator.py',
      [("        objective_values = [value_map.get(objective.node, math.nan) for objective in self.objectives]", "        def _get_value(metric_node):\n            return value_map.get(metric_node) or math.nan\n        objective_values = [_get_value(objective.node) for objective in self.objectives]")], key='helper-hands-value-through'),
    V('constraint-read-from-stored-values', 'optimization/evaluator.py',
      [("constraint_values = [value_map.get(constraint.node, math.nan)\n                             if constraint.node in metric_nodes else constraint.ref\n                             for constraint in self.constraints]",
        "metric_values = dsg.metric_values\n        constraint_values = [metric_values.get(constraint.node, constraint.ref) for constraint in self.constraints]")],
      key='value-from-this-evaluation'),
    V('objective-without-permanence', 'optimization/graph_processor.py',
      [("        return metric_node.dir is not None and metric_node in permanent_nodes", "        return metric_node.dir is not None")],
      key='objective-iff'),
    V('objective-or', 'optimization/graph_processor.py',
      [("        return metric_node.dir is not None and metric_node in permanent_nodes", "        return metric_node.dir is not None or metric_node in permanent_nodes")],
      key='objective-iff'),
    V('constraint-without-direction', 'optimization/graph_processor.py',
      [("        return metric_node.dir is not None and metric_node.ref is not None", "        return metric_node.ref is not None")], key='constraint-iff'),
    V('none-still-used', 'optimization/graph_processor.py',
      [("            if is_none:\n                metric_type = MetricType.NONE\n            else:\n                obj =", "            if False:\n                metric_type = MetricType.NONE\n            else:\n                obj =")],
      key='declared-none'),
    V('declared-type-always-wins', 'optimization/graph_processor.py',
      [("            if metric_type == MetricType.OBJ_OR_CON and isinstance(metric_node.type, MetricType):", "            if isinstance(metric_node.type, MetricType):")],
      key='declared-type-decides-only-if-both'),
    V('chooser-defaults-to-objective', 'optimization/evaluator.py',
      [("        raise RuntimeError(f'Metric {objective.name} can either be an objective or a constraint! '\n                           f'Specify the metric type using node.type = MetricType.x')", "        return objective")],
      key='chooser-raises'),
    V('missing-value-zero', 'optimization/evaluator.py',
      [("objective_values = [value_map.get(objective.node, math.nan) for objective in self.objectives]", "objective_values = [value_map.get(objective.node, 0.) for objective in self.objectives]")],
      key='nan-default'),
    V('absent-constraint-nan', 'optimization/evaluator.py',
      [("                             if constraint.node in metric_nodes else constraint.ref\n", "                             if constraint.node in metric_nodes else math.nan\n")],
      key='absent-constraint-reports-reference'),
    V('absent-tested-against-design-space', 'optimization/evaluator.py',
      [("                             if constraint.node in metric_nodes else constraint.ref\n", "                             if constraint.node in self.metric_nodes else constraint.ref\n")],
      key='absen'),
    V('min-max-swapped', 'optimization/dv_output_defs.py',
      [("        direction = Direction.MIN if metric_node.dir <= 0 else Direction.MAX", "        direction = Direction.MIN if metric_node.dir >= 0 else Direction.MAX")],
      key='direction-mapping'),
    V('twin-objective-predicate-reordered', 'optimization/graph_processor.py',
      [("        return metric_node.dir is not None and metric_node in permanent_nodes", "        return metric_node in permanent_nodes and not (not (metric_node.dir is not None))")],
      expect='silent'),
    V('twin-rename-locals-in-get-metrics', 'optimization/graph_processor.py',
      [("                obj = MetricType.OBJECTIVE if self._can_be_objective(metric_node, permanent_nodes) else MetricType.NONE\n                constr = MetricType.CONSTRAINT if self._can_be_constraint(metric_node) else MetricType.NONE\n\n                metric_type = obj | constr",
        "                as_obj = MetricType.OBJECTIVE if self._can_be_objective(metric_node, permanent_nodes) else MetricType.NONE\n                as_con = MetricType.CONSTRAINT if self._can_be_constraint(metric_node) else MetricType.NONE\n\n                metric_type = as_obj | as_con")], expect='silent'),
]
