"""C10 Every connection encoder is a faithful, total and onto coding of connection sets - structural clauses."""
import ast

from ..rules.match import FnText
from ..model import AnalysisError, norm
from ..cfg import build_cfg
from ..astutil import short, call_name
from ..report import fkey
from ..rules import abstract, patterns, vectors, guards, interval, persist, decode
from ..rules.common import *

EXPLANATION = (
    'Decides necessary conditions: (A12) every encoder / imputer class instantiated by the registry implements '
    'every hook declared abstract in its bases; (A6b) the raw vector reaches table look-up / decoding / imputation '
    'only after the size and the bounds correction, in the eager and the lazy encoder, for get_matrix and '
    'is_valid_vector; (A16) region interpretation of correct_vector_bounds: every entry ends in [0, n_opts-1] and is '
    'unchanged when already inside; (A13) every "element 0 speaks for all" read of a pattern encoder is backed by a '
    'uniformity / singleton test in its matcher, and max-min+1 option counts by a contiguity test; (A5) the '
    '>= 2 options checks precede publication of the design variables and trivial patterns declare no variable; '
    '(A2) imputer caches are canonical memos whose key contains the existence pattern and the vector.  Not '
    'decided: round trip and onto-ness (value-level).')


def bounds_regions(ctx, rule='A16'):
    fn = ctx.fn(f'{ENC}:EagerEncoder.correct_vector_bounds')
    loops = [s for s in fn.node.body if isinstance(s, ast.For)]
    if not loops:
        raise AnalysisError('correct_vector_bounds: loop not found')
    lp = loops[0]
    body = lp.body
    # rewrite `correct_vector[i]` as a scalar variable for the region interpreter
    class R(ast.NodeTransformer):
        def visit_Subscript(self, node):
            if norm(node.value) == 'correct_vector' and norm(node.slice) == 'i':
                return ast.copy_location(ast.Name(id='__v', ctx=node.ctx), node)
            return self.generic_visit(node)
    import copy
    body2 = [R().visit(copy.deepcopy(s)) for s in body]
    for s in body2:
        ast.fix_missing_locations(s)
    for nopt in (2, 3, 6):
        for v in interval.representatives([0, nopt - 1, nopt], integer=True):
            it = interval.RegionInterp('__v', {'dv.n_opts': nopt}, helpers=interval.unit_helpers(ctx, fn))
            out, vv = it.run(body2, v)
            want = min(max(v, 0), nopt - 1)
            ctx.ob(rule, fkey(fn, rule, f'n={nopt}:v={v}'), out.kind in ('fall', 'continue') and vv == want, fn.where,
                   f'entry {v} of a variable with {nopt} options is corrected to {want}', f'{out.kind} {vv}',
                   nontrivial=(v in (-1, 0, nopt - 1, nopt)))
    t = FnText(ctx, fn)
    ok = 'correct_vector = vector.copy()' in t
    ctx.ob(rule, fkey(fn, rule, 'input-not-modified'), ok, fn.where,
           'the correction works on a copy (the caller\'s vector is not modified)', '')
    cs = ctx.fn(f'{ENC}:EagerEncoder.correct_vector_size')
    t = FnText(ctx, cs)
    ok = 'n_extra = len(vector) - n_dv' in t and 'vector = vector[:n_dv]' in t
    ctx.ob(rule, fkey(cs, rule, 'size-truncation'), ok, cs.where,
           'a vector longer than the declared variables is truncated (the surplus is reported separately)', '')


def _rejected_option_counts(cfg):
    """Option counts k for which some guard on `.n_opts` leads to a raise (one offending element, the rest fine):
    plain comparisons, `any(<cmp> for ...)`, `not all(<cmp> for ...)`, on either branch of the test."""
    from ..rules import intcmp
    is_nopts = lambda e: isinstance(e, ast.Attribute) and e.attr == 'n_opts'  # noqa: E731
    out = None
    where = None
    for t in cfg.nodes:
        if t.kind != 'test' or 'n_opts' not in norm(t.ast):
            continue
        raising = {lab for m, lab in t.succ if m.kind == 'stmt' and isinstance(m.ast, ast.Raise)}
        if len(raising) != 1:
            continue
        lab = raising.pop()

        def truth(e, k):
            if isinstance(e, ast.UnaryOp) and isinstance(e.op, ast.Not):
                return not truth(e.operand, k)
            if isinstance(e, ast.Call) and isinstance(e.func, ast.Name) and e.func.id in ('any', 'all') and \
                    len(e.args) == 1 and isinstance(e.args[0], (ast.GeneratorExp, ast.ListComp)) and \
                    not e.args[0].generators[0].ifs:
                return truth(e.args[0].elt, k)
            return k in intcmp.value_set(e, is_nopts, domain=tuple(range(0, 6)))
        try:
            s = frozenset(k for k in range(0, 6) if truth(t.ast, k) == (lab == 'T'))
        except Exception:
            continue
        out, where = s, t
        break
    return out, where


def publication_guards(ctx, rule='A5'):
    fn = ctx.fn(f'{LAZY}:LazyEncoder.set_settings')
    cfg = build_cfg(fn)
    rej, tn = _rejected_option_counts(cfg)
    t = [tn] if tn is not None else []
    ok = rej == frozenset({0, 1})
    ctx.ob(rule, fkey(fn, rule, 'lazy-two-options-check'), ok, fn.where,
           'a lazily encoded variable with fewer than 2 options is refused (raise) before the encoder is used',
           short(t[0].ast) if t else 'missing')
    init = guards.call_nodes(cfg, 'initialize')
    if init and t:
        ok = not cfg.can_reach(cfg.entry, init[0], blocked_nodes=[n for n in cfg.nodes if n.kind == 'for' and
                                                                  any(x is t[0].stmt for x in ast.walk(n.ast))])
        ctx.ob(rule, fkey(fn, rule, 'check-before-imputer-init'), ok, fn.where,
               'the imputer is initialised only after the option-count check', '')
    ge = ctx.fn(f'{ENC}:EagerEncoder.get_design_variables')
    cfg2 = build_cfg(ge)
    rets = guards.return_nodes(cfg2)
    rej, tn = _rejected_option_counts(cfg2)
    tt = [tn] if tn is not None else []
    ok = rej == frozenset({0, 1}) and bool(rets)
    ctx.ob(rule, fkey(ge, rule, 'eager-two-options-check'), ok, ge.where,
           'an eagerly encoded variable with fewer than 2 options is refused (raise)', short(tt[0].ast) if tt else '')
    t2 = FnText(ctx, ge)
    ok = "raise RuntimeError('Not all design vectors are unique!')" in t2 and \
        "raise RuntimeError('Design variables should start at zero!')" in t2
    ctx.ob(rule, fkey(ge, rule, 'unique-and-zero-based'), ok, ge.where,
           'duplicate design vectors and variables not starting at 0 are refused (equal vectors <=> equal matrices; '
           'declared range = used range)', '')
    fd = ctx.fn(f'{LAZY}:LazyEncoder._filter_dvs')
    t3 = FnText(ctx, fd)
    ok = 'if dv.n_opts >= 2' in t3
    ctx.ob(rule, fkey(fd, rule, 'filter-keeps-two-or-more'), ok, fd.where,
           'lazy encoders keep only variables with at least 2 options', '')
    # pattern encoders: trivial cases declare no variable
    comb = ctx.fn('adsg_core.optimization.assign_enc.patterns.patterns:CombiningPatternEncoder._encode_effective')
    t4 = FnText(ctx, comb)
    ok = 'if n_opts < 2: return []' in t4.replace('\n', ' ') or ('if n_opts < 2' in t4 and 'return []' in t4)
    ctx.ob(rule, fkey(comb, rule, 'combining-no-variable-if-trivial'), ok, comb.where,
           'the combining pattern declares no variable when there is nothing to choose', '')
    part = ctx.fn('adsg_core.optimization.assign_enc.patterns.patterns:PartitioningPatternEncoder._matches_pattern')
    t5 = FnText(ctx, part)
    ok = 'len(src) == 1 and tgt[0].conns == [1]' in t5
    ctx.ob(rule, fkey(part, rule, 'partitioning-rejects-no-choice'), ok, part.where,
           'the partitioning pattern rejects settings with one source and required targets (one option per '
           'variable)', '')
    pe = ctx.fn('adsg_core.optimization.assign_enc.patterns.encoder:PatternEncoderBase._impute')
    ok = any(isinstance(s, ast.Raise) for s in pe.body)
    ctx.ob(rule, fkey(pe, rule, 'pattern-never-imputes'), ok, pe.where,
           'a pattern encoder corrects vectors itself; reaching the generic imputer is an explicit error', '')


def imputer_memo(ctx, rule='A2k'):
    """Keys of the imputer caches contain the existence pattern (and the vector where the result depends on it)
    in an injective form."""
    f1 = ctx.fn(f'{LAZY}:LazyImputer.impute')
    k = [s for s in walk_fn(f1) if isinstance(s, ast.Assign) and norm(s.targets[0]) == 'cache_key']
    ok = len(k) == 1 and 'tuple(vector)' in norm(k[0].value) and 'hash(existence)' in norm(k[0].value)
    ctx.ob(rule, fkey(f1, rule, 'key-has-vector-and-existence'), ok, f1.where,
           'the imputation cache is keyed by the vector itself and the existence pattern (not by something '
           'derived from them that several inputs share)', short(k[0]) if k else 'missing')
    f2 = ctx.fn('adsg_core.optimization.assign_enc.lazy.imputation.first:LazyFirstImputer._impute')
    k = [s for s in walk_fn(f2) if isinstance(s, ast.Assign) and norm(s.targets[0]) == 'cache_key']
    ok = len(k) == 1 and ('hash(existence)' in norm(k[0].value) or
                          any(isinstance(e, ast.Name) and e.id == 'existence'
                              for e in (k[0].value.elts if isinstance(k[0].value, ast.Tuple) else [])))
    ctx.ob(rule, fkey(f2, rule, 'key-has-existence'), ok, f2.where,
           'the first-valid-vector cache is keyed by the existence pattern itself (two patterns with the same '
           'design variables have different valid matrices)', short(k[0]) if k else 'missing')
    ini = ctx.fn(f'{LAZY}:LazyImputer.initialize')
    ok = any(norm(s) == 'self._impute_cache = {}' for s in ini.body)
    ctx.ob(rule, fkey(ini, rule, 'cache-reset-on-initialize'), ok, ini.where,
           're-initialising an imputer for other settings drops its cache', '')


def check(ctx):
    guards.check_zero_tested_divisions(ctx, [f for f in ctx.prog.all_functions() if f.module.name.startswith('adsg_core.optimization.assign_enc')])
    # repair / counting loops of the encoders: the arrays they update are the arrays they test
    guards.check_dead_inplace_updates(ctx, [f for f in ctx.prog.all_functions() if f.module.name.startswith('adsg_core.optimization.assign_enc')])
    ctx.floor('A28', 5, 'in-place element updates of local arrays in the encoders')
    regs = abstract.registered_classes(ctx, 'adsg_core.optimization.assign_enc.encoder_registry')
    if len(regs) < 20:
        raise AnalysisError(f'only {len(regs)} registered classes found')
    abstract.check_complete(ctx, regs)
    vectors.corrected_before_lookup(ctx)
    bounds_regions(ctx)
    patterns.check_representatives(ctx)
    publication_guards(ctx)
    imputer_memo(ctx)
    vectors.manager_contract(ctx)
    from ..rules import symmetry
    symmetry.check_side_symmetry(ctx)
    symmetry.check_transpose_complete(ctx)
    patterns.check_state_written_only_when_initialising(ctx)
    vectors.check_imputer_vector_width(ctx)
    vectors.check_decode_pair(ctx)
    # matrices loaded from the on-disk cache are the ones of these settings (a wrong entry is decoded faithfully into
    # connection sets of another problem): completeness of the settings key
    from .c12 import cache_keys as _ck10
    _ck10(ctx)
    ctx.floor('A6p', 2, 'returns of a decoded (vector, matrix) pair')
    ctx.floor('A21w', 4, 'eager imputers')
    ctx.floor('A13i', 8, 'writes of pattern-encoder state')
    ctx.floor('A23t', 2, 'transposed copies (settings, existence pattern)')
    ctx.floor('A12', 20, 'registered encoder / imputer classes')
    ctx.floor('A13', 8, 'representative reads')
    ctx.floor('A6b', 8, 'look-up / decode sinks')


from ..selftest import V  # noqa: E402

PP = 'optimization/assign_enc/patterns/patterns.py'
VARIANTS = [
    V('imputer-returns-candidate-with-decoded-matrix', 'optimization/assign_enc/lazy/imputation/delta.py',
      [("                dv, matrix = results\n                if validate(matrix):\n                    return dv, matrix\n", "                _, dv_matrix = results\n                if validate(dv_matrix):\n                    return dv, dv_matrix\n")], key='A6p'),
    V('closest-imputer-compares-full-width', 'optimization/assign_enc/eager/imputation/closest.py',
      [("np.array(vector)[:design_vectors.shape[1]]", "np.array(vector)")], key='A21w'),
    V('delta-imputer-keys-full-width', 'optimization/assign_enc/eager/imputation/delta.py',
      [("        vector = np.array(vector)[:n_dv]\n", "")], key='A21w'),
    V('pattern-state-overwritten-by-later-pattern', 'optimization/assign_enc/patterns/patterns.py',
      [("                if not _set_check('surjective', n_min_conn[0] == 1):\n                    return False\n                return True", "                if n_min_conn[0] == 1:\n                    self.surjective = True\n                return True")], key='A13i'),
    V('transpose-drops-parallel-limit', 'optimization/assign_enc/matrix.py',
      [("existence=existence_patterns,\n                                 max_conn_parallel=self.max_conn_parallel)", "existence=existence_patterns)")], key='A23t'),
    V('transpose-drops-max-override', 'optimization/assign_enc/matrix.py',
      [("max_src_conn_override=self.max_tgt_conn_override, max_tgt_conn_override=self.max_src_conn_override)", "max_src_conn_override=self.max_tgt_conn_override)")], key='A23t'),
    V('partitioning-mixed-targets', PP,
      [("        if any(n.conns != tgt[0].conns for n in tgt):\n            return False\n", "")], key='tgt[0].conns'),
    V('assigning-mixed-min', PP,
      [("        # Check if all source nodes have the same minimum nr of connections\n        if any(n.min_conns != src[0].min_conns for n in src):\n            return False\n\n        # Check if all max parallel", "        # Check if all max parallel")],
      key='src[0].min_conns'),
    V('combining-gaps', PP,
      [("                if any(not n.max_inf and n.conns != list(range(n.conns[0], n.conns[-1]+1)) for n in (src[0], tgt[0])):\n                    return False\n", "")],
      key='range-from-endpoints'),
    V('unordered-combining-multi-src', PP,
      [("        if len(src) != 1 or not src[0].conns or len(src[0].conns) != 1:", "        if not src[0].conns or len(src[0].conns) != 1:")], key='src[0].conns'),
    V('hook-deleted', 'optimization/assign_enc/lazy/encodings/direct_matrix.py',
      [("    def _decode(", "    def _decode_disabled(")], key='LazyDirectMatrixEncoder'),
    V('bounds-not-corrected-before-lookup', 'optimization/assign_enc/encoding.py',
      [("        extra_vector = [X_INACTIVE_VALUE]*n_extra\n        vector, _ = self.correct_vector_bounds(vector, self.design_vars)\n\n        i_mat, existence = self.get_matrix_index", "        extra_vector = [X_INACTIVE_VALUE]*n_extra\n\n        i_mat, existence = self.get_matrix_index")],
      key='bounds-corrected-before:get_matrix_index'),
    V('lazy-size-not-corrected', 'optimization/assign_enc/lazy_encoding.py',
      [("        vector, n_dv, n_extra, dvs, existence = self._correct_vector_size(vector, existence)\n        extra_vector = [X_INACTIVE_VALUE]*n_extra\n        vector, _ = EagerEncoder.correct_vector_bounds(vector, dvs)\n\n        # Decode matrix",
        "        _, n_dv, n_extra, dvs, existence = self._correct_vector_size(vector, existence)\n        extra_vector = [X_INACTIVE_VALUE]*n_extra\n        vector, _ = EagerEncoder.correct_vector_bounds(vector, dvs)\n\n        # Decode matrix")],
      key='size-corrected-before:_decode_vector'),
    V('bounds-upper-off-by-one', 'optimization/assign_enc/encoding.py',
      [("            elif correct_vector[i] >= dv.n_opts:\n                correct_vector[i] = dv.n_opts-1", "            elif correct_vector[i] > dv.n_opts:\n                correct_vector[i] = dv.n_opts-1")],
      key='A16'),
    V('one-option-accepted-lazy', 'optimization/assign_enc/lazy_encoding.py',
      [("            if dv.n_opts < 2:\n                raise RuntimeError(f'All design variables must have at least 2 options: {i} has {dv.n_opts} opts')", "            if dv.n_opts < 1:\n                raise RuntimeError(f'All design variables must have at least 2 options: {i} has {dv.n_opts} opts')")],
      key='lazy-two-options-check'),
    V('first-imputer-key-loses-existence', 'optimization/assign_enc/lazy/imputation/first.py',
      [("        cache_key = ('found_first', hash(existence))", "        cache_key = ('found_first', tuple(dv.n_opts for dv in self._get_des_vars(existence)))")],
      key='key-has-existence'),
    V('twin-uniform-check-rewritten', PP,
      [("        if any(n.conns != tgt[0].conns for n in tgt):\n            return False\n", "        if any(n.conns != tgt[0].conns for n in tgt) or False:\n            return False\n")],
      expect='silent'),
]
