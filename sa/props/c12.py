"""C12 Encoder selection always succeeds and disk caches are transparent - structural clauses."""
import ast

from ..rules.match import FnText
from ..model import AnalysisError, norm, walk_no_nested
from ..cfg import build_cfg
from ..flow import Slice
from ..astutil import short, call_name
from ..report import fkey
from ..rules import exc, guards
from ..rules.common import *

EXPLANATION = (
    'Decides necessary conditions: (A9) every exception class explicitly raised on the call-graph slice of a '
    'candidate encoder instantiation is caught by the handlers around that instantiation in the selection loop, '
    'or is a tabled internal-invariant raise; all run_timeout callers in the selector handle TimeoutError (and '
    'MemoryError where memory-hungry work is wrapped); (A20) no in-place store into an array obtained from '
    'DataFrame/Series `.values` without a copy (read-only under pandas copy-on-write); (A8) the settings cache '
    'key is a hashlib digest that reads every field of the settings dataclass, Node.__repr__ every attribute of a '
    'connector node, NodeExistence.__hash__ every public attribute; selection cache and matrix cache use the same '
    'key in different folders; (A2) each pickle cache uses one path variable for exists / load / dump; (A5) the '
    'zero-matrix short-cut precedes candidate scoring and yields a manager without variables; the time-limit '
    'override is restored.  Not decided: time-limit behaviour, cross-process cache writes.'
    ' (A10z) a division by a value the function tests against zero lies behind that test; (A8) source and target connectors are separate components of the settings key.')

# explicit raises on the candidate-instantiation slice that are not input-reachable
RAISE_TABLE = {
    ('NotImplementedError', '*'): 'abstract hook of a base class; every registered encoder overrides it (rule A12)',
    ('RuntimeError', 'QuasiLazyEncoder._encode'): 'internal invariant: encode is only called for the existence '
                                                  'patterns of the same matrix generator whose aggregate matrix '
                                                  'was just computed',
    ('ValueError', 'GroupedEncoder.group_by_values'): 'internal invariant: grouping values are built by the encoders '
                                                      'themselves and are non-negative',
    ('ValueError', 'GroupedEncoder.convert_to_base'): 'internal invariant: the base is chosen from 2..9 by the caller',
    ('ValueError', 'Node.__init__'): 'internal invariant: assignment nodes built by the encoders always carry a '
                                     'degree list or a lower limit',
    ('RuntimeError', 'LazyEncoder.set_settings'): 'lazy encoders filter out one-option variables (_filter_dvs) or '
                                                  'return no variable for n_opts < 2; the pattern matchers reject '
                                                  'the no-choice settings (finding F9, repaired) - checked by rule A19',
}


def exception_cover(ctx, rule='A9'):
    sel = ctx.fn(f'{SEL}._get_best_assignment_manager')
    cm = sel.nested.get('_create_managers')
    if cm is None:
        raise AnalysisError('_create_managers vanished')
    ctx.touch(cm)
    tries = [t for t in try_statements(cm) if any(call_name(c) == 'run_timeout' and '_instantiate_manager' in norm(c)
                                                  for b in t.body for c in ast.walk(b) if isinstance(c, ast.Call))]
    if not tries:
        raise AnalysisError('_create_managers: protected instantiation not found')
    caught = [n.split('.')[-1] for h in tries[0].handlers for n in handler_type_names(h)]
    for h in tries[0].handlers:
        ok = all(isinstance(s, (ast.Continue, ast.Expr)) for s in h.body) and any(isinstance(s, ast.Continue)
                                                                                    for s in h.body)
        ctx.ob(rule, fkey(cm, rule, f'handler-continues:{",".join(handler_type_names(h))}'), ok,
               f'{cm.module.relpath}:{h.lineno}', 'a rejected candidate is skipped (continue), the loop goes on', '')
    roots = [ctx.fn(f'{AMGR}:AssignmentManager.__init__'), ctx.fn(f'{AMGR}:LazyAssignmentManager.__init__')]
    rs, reach = exc.raises_on_slice(ctx, roots)
    if len(reach) < 80:
        raise AnalysisError(f'instantiation slice has only {len(reach)} functions')
    for fn, st, name, chain in rs:
        anc = exc.ancestors_of(ctx.prog, fn.module, name)
        handled = any(a in caught for a in anc)
        key = (name, fn.qualname)
        tabled = key in RAISE_TABLE or (name, '*') in RAISE_TABLE
        if tabled and not handled:
            ctx.used_exception('A9', f'{name}@{fn.qualname}', RAISE_TABLE.get(key) or RAISE_TABLE[(name, '*')])
        ctx.ob(rule, fkey(fn, rule, f'raise:{name}'), handled or tabled, f'{fn.module.relpath}:{st.lineno}',
               f'an exception raised while instantiating a candidate encoder is caught by the selection loop '
               f'({sorted(set(caught))}) or is a tabled internal invariant',
               ('caught' if handled else f'tabled: {RAISE_TABLE.get(key) or RAISE_TABLE[(name, "*")]}') if
               (handled or tabled) else f'`{short(st, 70)}` (via {chain[:120]}) escapes the selection loop: one '
               f'rejecting candidate aborts the whole selection')
    need = {'InvalidPatternEncoder', 'DetectedHighImpRatio', 'TimeoutError', 'MemoryError'}
    ctx.ob(rule, fkey(cm, rule, 'handler-set'), need <= set(caught), cm.where,
           f'the candidate loop tolerates {sorted(need)}', f'caught: {caught}')
    # dist-corr wrapper handles Timeout and Memory
    # ... in the candidate loop itself or in a method of the selector it calls
    scope = [cm] + list(ctx.prog.cls(SEL).methods.values())
    t2 = [t for f_ in scope for t in try_statements(f_)
          if any(call_name(c) == 'run_timeout' and '_get_dist_corr' in norm(c)
                 for b in t.body for c in ast.walk(b) if isinstance(c, ast.Call))]
    ok = bool(t2) and {'TimeoutError', 'MemoryError'} <= {n for h in t2[0].handlers for n in handler_type_names(h)}
    ctx.ob(rule, fkey(cm, rule, 'dist-corr-handlers'), ok, cm.where,
           'the distance-correlation measurement tolerates TimeoutError and MemoryError (the score stays NaN)', '')


def fresh_imputer_per_encoder(ctx, rule='A24'):
    """An imputer is bound to one encoder by initialize(): every candidate encoder created in the selection loop
    receives an imputer created in the same iteration."""
    sel = ctx.fn(f'{SEL}._get_best_assignment_manager')
    cm = sel.nested['_create_managers']
    cfg = build_cfg(cm)
    loops = [n for n in cfg.nodes if n.kind == 'for' and 'encoders' in norm(n.ast.iter)]
    if not loops:
        raise AnalysisError('_create_managers: candidate loop not found')
    lp = loops[0]
    fvar = norm(lp.ast.target)
    sites = [c for c in ast.walk(lp.ast) if isinstance(c, ast.Call) and norm(c.func) == fvar]
    if not sites:
        raise AnalysisError('_create_managers: encoder factory call not found')
    from ..cfg import build_rd
    rd = build_rd(cm)
    body_ids = cfg.reachable([m for m, lab in lp.succ if lab == 'T'], blocked_nodes=[lp])
    for c in sites:
        arg = c.args[0] if c.args else None
        ok = isinstance(arg, ast.Call)
        detail = short(c)
        if isinstance(arg, ast.Name):
            node = [n for n in cfg.nodes if n.ast is not None and any(x is c for x in ast.walk(n.ast))][0]
            defs = rd.defs_of(arg.id, node)
            ok = bool(defs) and all(d.id in body_ids and d.kind == 'stmt' and isinstance(d.ast, ast.Assign) and
                                    isinstance(d.ast.value, ast.Call) for d in defs)
            detail += f'; `{arg.id}` defined at ' + ', '.join(f'L{d.lineno}' for d in defs)
        ctx.ob(rule, fkey(cm, rule, 'imputer-created-per-candidate'), ok, f'{cm.module.relpath}:{c.lineno}',
               'each candidate encoder gets its own imputer instance, created in the same loop iteration (an '
               'imputer shared between candidates is re-initialised by the last one and repairs vectors with the '
               'wrong tables)', detail)
    # same discipline where an encoder is re-bound to another imputer
    for key in (f'{ENC}:EagerEncoder.get_for_imputer', f'{LAZY}:LazyEncoder.get_for_imputer'):
        f = ctx.fn(key)
        t = FnText(ctx, f)
        ok = 'copy.deepcopy(self)' in t and 'encoder.set_imputer(imputer)' in t
        ctx.ob(rule, fkey(f, rule, 'rebinding-copies-encoder'), ok, f.where,
               'binding an encoder to another imputer works on a deep copy of the encoder (the original keeps its '
               'own imputer)', '')


def view_write(ctx, rule='A20'):
    n = 0
    for fn in ctx.prog.all_functions():
        if 'assign_enc' not in fn.module.name and 'graph_processor' not in fn.module.name:
            continue
        views = {}
        for s in walk_fn(fn):
            if isinstance(s, ast.Assign) and isinstance(s.targets[0], ast.Name) and \
                    isinstance(s.value, ast.Attribute) and s.value.attr == 'values' and \
                    not isinstance(s.value.value, ast.Call):
                base = norm(s.value.value)
                if base.startswith('df') or '.df' in base or 'frame' in base.lower() or 'series' in base.lower():
                    views[s.targets[0].id] = s
        for s in walk_fn(fn):
            if isinstance(s, (ast.Assign, ast.AugAssign)):
                tg = s.targets[0] if isinstance(s, ast.Assign) else s.target
                if isinstance(tg, ast.Subscript) and isinstance(tg.value, ast.Name) and tg.value.id in views:
                    n += 1
                    ctx.ob(rule, fkey(fn, rule, f'view-store:{tg.value.id}'), False, f'{fn.module.relpath}:{s.lineno}',
                           'no in-place store into `<DataFrame column>.values` (a read-only view under pandas '
                           'copy-on-write): copy first', f'{short(views[tg.value.id])} ... {short(s)}')
        # positive form: .values.copy() assigned then stored into
        for s in walk_fn(fn):
            if isinstance(s, ast.Assign) and isinstance(s.targets[0], ast.Name) and isinstance(s.value, ast.Call) and \
                    isinstance(s.value.func, ast.Attribute) and s.value.func.attr == 'copy' and \
                    isinstance(s.value.func.value, ast.Attribute) and s.value.func.value.attr == 'values':
                n += 1
                ctx.touch(fn)
                ctx.ob(rule, fkey(fn, rule, f'values-copied:{s.targets[0].id}'), True, f'{fn.module.relpath}:{s.lineno}',
                       'an array taken from a DataFrame column is copied before it is modified', short(s))
    return n


def cache_keys(ctx, rule='A8'):
    st = ctx.prog.cls(f'{MATRIX}:MatrixGenSettings')
    fields = [s.target.id for s in st.node.body if isinstance(s, ast.AnnAssign) and isinstance(s.target, ast.Name)]
    if len(fields) < 4:
        raise AnalysisError('MatrixGenSettings: dataclass fields not found')
    gk = st.methods.get('get_cache_key')
    if gk is None:
        raise AnalysisError('MatrixGenSettings.get_cache_key vanished')
    ctx.touch(gk)
    cfg = build_cfg(gk)
    rets = returns_of(gk)
    sl = Slice(gk)
    node = cfg.node_of(rets[-1])
    ORIG = origins_through_helpers(ctx.prog, gk, rets[-1].value, node)      # through extracted key-part helpers
    txts = [norm(v) for v in ORIG]
    alltxt = ' '.join(txts)
    for f in fields:
        ok = f'self.{f}' in alltxt or (f == 'excluded' and 'get_excluded_indices()' in alltxt)
        ctx.ob(rule, fkey(gk, rule, f'key-reads-field:{f}'), ok, gk.where,
               f'the cache key depends on the settings field `{f}` (two settings that differ in it must not share a '
               f'cache entry)', 'flows into the digest' if ok else 'the digest does not depend on it')
    ok = 'hashlib.' in norm(rets[-1].value) and 'hexdigest' in norm(rets[-1].value)
    ctx.ob(rule, fkey(gk, rule, 'key-is-digest'), ok, gk.where,
           'the on-disk cache key is a hashlib digest (stable across processes)', short(rets[-1]))
    ok = 'cache_version' in alltxt
    ctx.ob(rule, fkey(gk, rule, 'key-has-version'), ok, gk.where, 'the key carries a cache-format version', '')
    # excluded pairs enter sorted
    ok = 'sorted(' in alltxt and 'get_excluded_indices' in alltxt
    ctx.ob(rule, fkey(gk, rule, 'excluded-sorted'), ok, gk.where,
           'excluded pairs enter the key in sorted order (the same set gives the same key)', '')
    # existence patterns are addressed by their position in the list (the existence map of a processor stores pattern
    # indices): their order is part of what is cached, so it is part of the key - no sorted()/set() around them
    pat = [v for v in ORIG if 'patterns' in norm(v)]
    unordered = [c for v in pat for c in ast.walk(v) if isinstance(c, ast.Call) and
                 norm(c.func).split('.')[-1] in ('sorted', 'set', 'frozenset') and 'patterns' in norm(c)]
    ctx.ob(rule, fkey(gk, rule, 'existence-order-preserved'), bool(pat) and not unordered, gk.where,
           'the existence patterns enter the key in list order (two settings with the same patterns in another order '
           'number them differently and must not share a cache entry)',
           '; '.join(short(v, 70) for v in pat) if not unordered else f'order dropped by `{short(unordered[0], 70)}`')
    # which exclusion is meant is given by position: connector objects have no identity in their rendering
    ex_defs = [v for v in ORIG if 'excluded' in norm(v)]
    ok = bool(ex_defs) and any('get_excluded_indices()' in norm(v) for v in ex_defs) and \
        not any(isinstance(g, ast.comprehension) and norm(g.iter) == 'self.excluded'
                for v in ex_defs for g in ast.walk(v))
    ctx.ob(rule, fkey(gk, rule, 'excluded-by-position'), ok, gk.where,
           'the excluded connections enter the key as (source index, target index) pairs from '
           'get_excluded_indices() - the raw `excluded` entries may be connector objects, whose rendering does not '
           'say which connector is meant', '; '.join(short(v, 60) for v in ex_defs) or 'missing')
    # the connectors enter through a rendering (repr / str) that covers every attribute
    nd = ctx.prog.cls(f'{MATRIX}:Node')
    attrs = sorted(nd.instance_attrs)
    used = set()
    # the two connector lists enter the key as two components: rendered over their concatenation the key does not say
    # where the source list ends (1 source x 3 targets and 3 sources x 1 target of the same connectors would share an entry)
    joint = [c for v in ORIG for c in ast.walk(v) if isinstance(c, (ast.ListComp, ast.GeneratorExp)) and
             'self.src' in norm(c.generators[0].iter) and 'self.tgt' in norm(c.generators[0].iter)]
    ctx.ob(rule, fkey(gk, rule, 'sides-rendered-separately'), not joint, gk.where,
           'source and target connectors are separate components of the key (their split is part of what is cached)',
           short(joint[0], 90) if joint else 'rendered per side')
    for side in ('src', 'tgt'):
        comps = [c for v in ORIG for c in ast.walk(v)
                 if isinstance(c, (ast.ListComp, ast.GeneratorExp)) and
                 (norm(c.generators[0].iter) == f'self.{side}' or c in joint)]
        maps = [c for v in ORIG for c in ast.walk(v)
                if isinstance(c, ast.Call) and call_name(c) == 'map' and len(c.args) == 2 and
                norm(c.args[1]) == f'self.{side}' and isinstance(c.args[0], ast.Name) and c.args[0].id in ('repr', 'str')]
        for c in maps:
            used.add((side, '__repr__' if c.args[0].id == 'repr' else '__str__'))
        if not comps and not maps:
            raise AnalysisError(f'get_cache_key: rendering of self.{side} not found')
        for c in comps:
            var = norm(c.generators[0].target)
            e = c.elt
            if isinstance(e, ast.Call) and call_name(e) in ('repr', 'str') and e.args and norm(e.args[0]) == var:
                used.add((side, '__repr__' if call_name(e) == 'repr' else '__str__'))
            elif isinstance(e, ast.JoinedStr) and len(e.values) == 1 and isinstance(e.values[0], ast.FormattedValue) \
                    and norm(e.values[0].value) == var:
                used.add((side, '__repr__' if e.values[0].conversion == 114 else '__str__'))
            else:
                raise AnalysisError(f'get_cache_key: unrecognised rendering of a connector: {short(e)}')
    for side, meth in sorted(used):
        rp = nd.methods.get(meth) or nd.methods.get('__repr__')
        t = FnText(ctx, rp) if rp else ''
        for a in attrs:
            ctx.ob(rule, fkey(rp, rule, f'node-rendering-covers:{side}:{a}'), f'self.{a}' in t, rp.where,
                   f'the rendering of the {side} connectors embedded in the key ({nd.name}.{rp.name}) covers '
                   f'attribute `{a}`', '' if f'self.{a}' in t else f'{nd.name}.{rp.name} does not mention self.{a}: '
                   f'two settings that differ only in it share a cache entry')
    # NodeExistence.__hash__ covers every public attribute
    ne = ctx.prog.cls(f'{MATRIX}:NodeExistence')
    pub = sorted(a for a in ne.instance_attrs if not a.startswith('_'))
    hs = ne.methods.get('__hash__')
    t = FnText(ctx, hs) if hs else ''
    for a in pub:
        ctx.ob(rule, fkey(hs, rule, f'existence-hash-covers:{a}'), f'self.{a}' in t, hs.where,
               f'the existence-pattern hash (part of the key) covers attribute `{a}`', '')
    gs = ne.methods.get('__getstate__')
    ok = gs is not None and "state['_hash'] = None" in FnText(ctx, gs)
    ctx.ob(rule, fkey(gs, rule, 'hash-not-pickled') if gs else f'{ne.key}:getstate', ok, ne.where,
           'the memoised hash of an existence pattern is dropped when pickled (re-computed in the loading process)', '')
    # both caches use the settings key, in different folders
    s1 = ctx.fn(f'{SEL}._get_cache_key')
    s2 = ctx.fn(f'{MATRIX}:AggregateAssignmentMatrixGenerator._get_cache_key')
    for f in (s1, s2):
        ok = norm(returns_of(f)[0].value) == 'self.settings.get_cache_key()'
        ctx.ob(rule, fkey(f, rule, 'uses-settings-key'), ok, f.where, 'the cache file is named after the settings key', '')
    p1 = ' '.join(norm(s) for s in ctx.fn(f'{SEL}._cache_path').body)
    p2 = ' '.join(norm(s) for s in ctx.fn(f'{MATRIX}:AggregateAssignmentMatrixGenerator._cache_path').body)
    ok = "'encoder_cache'" in p1 and "'matrix_cache'" in p2
    ctx.ob(rule, fkey(s1, rule, 'separate-folders'), ok, s1.where,
           'selection cache and matrix cache live in different folders (same key, different content)', '')
    f3 = ctx.fn(f'{MATRIX}:AggregateAssignmentMatrixGenerator._get_cache_file_iter_n')
    ok = '_iter_n' in norm(returns_of(f3)[0].value)
    ctx.ob(rule, fkey(f3, rule, 'iter-cache-distinct-name'), ok, f3.where,
           'the degree-tuple cache uses a file name distinct from the aggregate-matrix cache', '')


def pickle_caches(ctx, rule='A2'):
    fn = ctx.fn(f'{SEL}.get_best_assignment_manager')
    unit = unit_functions(ctx.prog, fn)
    helpers = {h.name: h for h in unit[1:]}
    paths = [s for s in walk_fn(fn) if isinstance(s, ast.Assign) and norm(s.targets[0]) == 'cache_path']

    def uses_of(f, name, depth=2):
        """(call name, call) for every call in f (and, through private helpers handed the name, in them) that takes
        the variable as an argument; for open() the mode is appended."""
        out = []
        for c in calls(f):
            args = list(c.args) + [k.value for k in c.keywords]
            if not any(isinstance(a_, ast.Name) and a_.id == name for a_ in args):
                continue
            h = helpers.get(call_name(c))
            if h is not None and depth > 0:
                hp = [q for q in h.params if q not in ('self', 'cls')] if isinstance(c.func, ast.Attribute) else h.params
                for q, a_ in zip(hp, c.args):
                    if isinstance(a_, ast.Name) and a_.id == name:
                        out += uses_of(h, q, depth - 1)
            else:
                out.append((call_name(c), c))
        return out
    uses = uses_of(fn, 'cache_path')
    kinds = sorted({k for k, _ in uses})
    ok = len(paths) == 1 and {'exists', 'open'} <= set(kinds) and sum(1 for k, _ in uses if k == 'open') == 2
    ctx.ob(rule, fkey(fn, rule, 'one-path-variable'), ok, fn.where,
           'the selection cache checks, loads and writes one path variable that is assigned once (directly or in '
           'private helpers it is handed to)', f'{kinds}')

    def ret_text(e, depth=2):
        # text of the expression, with calls to private helpers replaced by what they return
        t = norm(e)
        if isinstance(e, ast.Call) and call_name(e) in helpers and depth > 0:
            t += ' ' + ' '.join(ret_text(r.value, depth - 1) for r in returns_of(helpers[call_name(e)])
                                if r.value is not None)
        return t
    ok = bool(paths) and '_get_cache_key()' in ret_text(paths[0].value)
    ctx.ob(rule, fkey(fn, rule, 'path-from-key'), ok, fn.where, 'the path is derived from the settings key', '')
    # what is dumped (here, or by a helper that is handed the object) is what is returned
    dumped = [norm(c.args[0]) for c in calls(fn, 'dump') if c.args]
    for c in calls(fn):
        h = helpers.get(call_name(c))
        if h is None:
            continue
        hp = [q for q in h.params if q not in ('self', 'cls')] if isinstance(c.func, ast.Attribute) else h.params
        sub = {q: norm(a_) for q, a_ in zip(hp, c.args)}
        dumped += [sub.get(norm(d.args[0])) for d in calls(h, 'dump') if d.args]
    rets = returns_of(fn)
    ok = bool(dumped) and all(d is not None and d == norm(rets[-1].value) for d in dumped)
    ctx.ob(rule, fkey(fn, rule, 'dumps-what-it-returns'), ok, fn.where,
           'what is written to the cache is the object that is returned (a later cache hit equals this result)',
           f'dumped {dumped}, returned {norm(rets[-1].value)}')
    cfg = build_cfg(fn)
    loads = guards.call_nodes(cfg, 'load')
    if loads:
        guards.check_guarded(ctx, rule, fn, loads,
                             lambda atom, truth: truth is True and isinstance(atom, ast.Name) and atom.id == 'cache',
                             set(), 'cache-flag-respected', 'the cache is read only when cache=True')
    # restore of the time-limit override: every attribute overridden for limit_time=False is restored from a
    # value saved before the override
    cands = [u for u in unit if any(True for _ in calls(u, '_get_best_assignment_manager')) and
             any(isinstance(st, ast.Assign) and any(is_self_attr(x) for t_ in st.targets for x in
                                                    (t_.elts if isinstance(t_, ast.Tuple) else [t_]))
                 for st in walk_fn(u))]
    lf = cands[0] if cands else fn
    ctx.touch(lf)
    cfgf = build_cfg(lf)
    call_nodes_ = guards.call_nodes(cfgf, '_get_best_assignment_manager')
    saved = {}
    for st in walk_fn(lf):
        if isinstance(st, ast.Assign) and isinstance(st.targets[0], ast.Tuple) and isinstance(st.value, ast.Tuple):
            for tg, v in zip(st.targets[0].elts, st.value.elts):
                if isinstance(tg, ast.Name) and is_self_attr(v):
                    saved[tg.id] = v.attr
    overridden, restored = set(), {}
    for n in cfgf.nodes:
        if n.kind != 'stmt' or not isinstance(n.ast, ast.Assign):
            continue
        before = call_nodes_ and cfgf.can_reach(n, call_nodes_[0])
        tgts = n.ast.targets[0].elts if isinstance(n.ast.targets[0], ast.Tuple) else [n.ast.targets[0]]
        vals = n.ast.value.elts if isinstance(n.ast.value, ast.Tuple) and isinstance(n.ast.targets[0], ast.Tuple) \
            else [n.ast.value] * len(tgts)
        for tg, v in zip(tgts, vals):
            if is_self_attr(tg):
                if before:
                    overridden.add(tg.attr)
                elif isinstance(v, ast.Name) and saved.get(v.id) == tg.attr:
                    restored[tg.attr] = v.id
    ok = bool(overridden) and overridden <= set(restored)
    ctx.ob(rule, fkey(fn, rule, 'limits-restored'), ok, fn.where,
           'the relaxed limits used for limit_time=False are restored afterwards from the values saved before '
           '(later selections are unaffected)', f'overridden {sorted(overridden)}, restored {sorted(restored)}')
    g = ctx.fn(f'{MATRIX}:AggregateAssignmentMatrixGenerator.get_agg_matrix')
    tg = FnText(ctx, g)
    ok = 'self._write_to_cache(self._get_cache_file(), agg_matrix)' in tg and 'return agg_matrix' in tg and \
        'self._load_agg_matrix_from_cache()' in tg
    ctx.ob(rule, fkey(g, rule, 'matrix-cache-roundtrip'), ok, g.where,
           'the aggregate matrix is loaded from / written to the file named by the settings key; the freshly '
           'computed matrix is what is written and returned', '')
    ld = ctx.fn(f'{MATRIX}:AggregateAssignmentMatrixGenerator._load_agg_matrix_from_cache')
    ok = norm(returns_of(ld)[0].value) == 'self._load_from_cache(self._get_cache_file())'
    ctx.ob(rule, fkey(ld, rule, 'load-same-file'), ok, ld.where, 'the load reads the same file the write uses', '')


def shortcuts(ctx, rule='A5'):
    fn = ctx.fn(f'{SEL}._get_best_assignment_manager')
    cfg = build_cfg(fn)
    first = guards.call_nodes(cfg, '_create_managers')
    zero = [n for n in cfg.nodes if n.kind == 'test' and norm(n.ast) == 'n_mat == 0']
    ok = bool(zero) and bool(first) and all(not cfg.can_reach(cfg.entry, f, blocked_nodes=zero) for f in first) and \
        any(m.kind == 'stmt' and isinstance(m.ast, ast.Return) and 'DEFAULT_EAGER_ENCODER()' in norm(m.ast)
            for m, lab in zero[0].succ if lab == 'T')
    ctx.ob(rule, fkey(fn, rule, 'zero-matrices-shortcut'), ok, fn.where,
           'settings without any connection matrix return the default eager manager (no variables) before any '
           'candidate is scored', short(zero[0].ast) if zero else 'missing')
    last = [n for n in cfg.nodes if n.kind == 'stmt' and isinstance(n.ast, ast.Raise)]
    ok = bool(last) and all('Cannot find best encoder' in norm(r.ast) for r in last)
    ctx.ob(rule, fkey(fn, rule, 'explicit-failure'), ok, fn.where,
           'the only way the selection itself gives up is one explicit error after every stage was tried', '')
    gb = ctx.fn(f'{SEL}._get_best')
    t = FnText(ctx, gb)
    ok = 'if len(df_scores) == 0' in t
    ctx.ob(rule, fkey(gb, rule, 'no-candidates-no-crash'), ok, gb.where,
           'an empty score table (every candidate rejected in a stage) yields "no best" instead of an exception', '')
    ge = ctx.fn(f'{ENC}:EagerEncoder.get_design_variables')
    gcfg = build_cfg(ge)
    sinks = guards.nodes_with(gcfg, lambda sub: isinstance(sub, ast.Call) and norm(sub.func) in ('np.min', 'np.max')
                              and sub.args and 'des_vectors' in norm(sub.args[0]))
    for dim in (0, 1):
        def nonzero(atom, truth, dim=dim):
            if not (isinstance(atom, ast.Compare) and len(atom.ops) == 1 and
                    norm(atom.left) == f'des_vectors.shape[{dim}]' and norm(atom.comparators[0]) == '0'):
                return False
            return (isinstance(atom.ops[0], ast.Eq) and truth is False) or \
                (isinstance(atom.ops[0], (ast.NotEq, ast.Gt)) and truth is True)
        guards.check_guarded(ctx, rule, ge, sinks, nonzero, ['des_vectors'], f'eager-reduction-nonempty-dim{dim}',
                             f'the minimum/maximum over the stored design vectors of an existence pattern is only '
                             f'taken when the table is not empty along axis {dim} (no matrices / no variables would '
                             f'raise inside numpy)')
    nv = ctx.fn(f'{ENC}:EagerEncoder.normalize_design_vectors')
    t = FnText(ctx, nv)
    ok = 'no_opts_mask = np.max(design_vectors, axis=0) == 0' in t and 'design_vectors[:, ~no_opts_mask]' in t
    ctx.ob(rule, fkey(nv, rule, 'eager-drops-one-option-columns'), ok, nv.where,
           'eager encoders drop columns with a single used value (exactly one matrix => zero variables)', '')


def check(ctx):
    # a candidate encoder is rejected through the exceptions the selector handles - not by a ZeroDivisionError on the
    # empty existence pattern the function itself tests for
    from ..rules import guards as _g12
    _g12.check_zero_tested_divisions(ctx, [f for f in ctx.prog.all_functions()
                                           if f.module.name.startswith('adsg_core.optimization.')])
    ctx.floor('A10z', 5, 'divisions by a value the function tests against zero')
    exception_cover(ctx)
    fresh_imputer_per_encoder(ctx)
    view_write(ctx)
    cache_keys(ctx)
    pickle_caches(ctx)
    shortcuts(ctx)
    # objects written to the selection / matrix caches: pickling hooks only drop what is rebuilt, and state derived in
    # a property setter has no second writer
    from ..rules import shared as _sh12
    _sh12.check_setter_owned_fields(ctx)
    _sh12.check_getstate_drops(ctx)
    from ..rules import symmetry
    symmetry.check_side_symmetry(ctx)
    ctx.floor('A9', 15, 'raises on the instantiation slice')
    ctx.floor('A8', 15, 'cache-key components')
    ctx.floor('A20', 1, 'copied DataFrame columns')
    from ..rules import persist as _ps
    _ps.check_disk_memos(ctx, [f for f in ctx.prog.all_functions() if f.module.name.startswith('adsg_core.optimization.assign_enc')])
    ctx.floor('A2d', 2, 'results kept on disk (matrix generator)')
    # degenerate settings (one connection set): no encoder publishes a one-option variable, pattern encoders that
    # cannot represent 'nothing to choose' reject such settings (same clauses as C10)
    from .c10 import publication_guards
    publication_guards(ctx)


from ..selftest import V  # noqa: E402

VARIANTS = [
    V('key-forgets-pattern-order', 'optimization/assign_enc/matrix.py',
      [("exist_cache_key = ';'.join([str(hash(p)) for p in self.existence.patterns])", "exist_cache_key = ';'.join(sorted(str(hash(p)) for p in self.existence.patterns))")], key='existence-order-preserved'),
    V('partial-enumeration-written-under-full-key', 'optimization/assign_enc/matrix.py',
      [("        for n_src_conn, n_tgt_conn, exist in self._iter_n_sources_targets():\n            if exist not in tuples:", "        for n_src_conn, n_tgt_conn, exist in self._iter_n_sources_targets(existence=existence):\n            if exist not in tuples:")], key='A2d'),
    V('key-renders-targets-with-str', 'optimization/assign_enc/matrix.py',
      [("tgt_cache_key = ';'.join([repr(t) for t in self.tgt])", "tgt_cache_key = ';'.join([str(t) for t in self.tgt])")], key='node-rendering-covers:tgt'),
    V('key-renders-excluded-objects', 'optimization/assign_enc/matrix.py',
      [("';'.join([f'{tup[0]:d},{tup[1]:d}' for tup in sorted([ex for ex in self.get_excluded_indices()])])", "';'.join(sorted([f'{ex_src!r},{ex_tgt!r}' for ex_src, ex_tgt in self.excluded]))")], key='excluded-by-position'),
    V('eager-reduction-over-empty-table', 'optimization/assign_enc/encoding.py',
      [("            if des_vectors.shape[1] == 0:\n                design_vars_list.append([])\n                continue\n", "")], key='eager-reduction-nonempty-dim1'),
    V('view-written', 'optimization/assign_enc/selector.py',
      [("            dist_corr_values = df.dist_corr.values.copy()\n", "            dist_corr_values = df.dist_corr.values\n")], key='view-store'),
    V('memory-error-escapes', 'optimization/assign_enc/selector.py',
      [("                    except (TimeoutError, MemoryError):\n                        log.debug('Encoding timeout!')\n                        continue", "                    except TimeoutError:\n                        log.debug('Encoding timeout!')\n                        continue")],
      key='handler-set'),
    V('high-imp-ratio-escapes', 'optimization/assign_enc/selector.py',
      [("                    except DetectedHighImpRatio:\n                        log.debug('Excessively high imputation ratio detected!')\n                        continue\n\n", "")],
      key='raise:DetectedHighImpRatio'),
    V('new-untabled-raise', 'optimization/assign_enc/lazy_encoding.py',
      [("        self._encode_prepare()\n", "        if len(settings.src) > 50:\n            raise OverflowError('too many sources')\n        self._encode_prepare()\n")],
      key='raise:OverflowError'),
    V('key-ignores-parallel-limit', 'optimization/assign_enc/matrix.py',
      [("                               str(self.max_conn_parallel), cache_version])", "                               cache_version])")], key='key-reads-field:max_conn_parallel'),
    V('key-ignores-existence', 'optimization/assign_enc/matrix.py',
      [("        cache_str = '||'.join([src_cache_key, tgt_cache_key, excluded_cache_key, exist_cache_key,", "        cache_str = '||'.join([src_cache_key, tgt_cache_key, excluded_cache_key,")],
      key='key-reads-field:existence'),
    V('node-repr-drops-rep', 'optimization/assign_enc/matrix.py',
      [("        return f'{self.__class__.__name__}(conns={self.conns!r}, min_conns={self.min_conns}, rep={self.rep})'", "        return f'{self.__class__.__name__}(conns={self.conns!r}, min_conns={self.min_conns})'")],
      key='node-rendering-covers:src:rep'),
    V('existence-hash-drops-max-override', 'optimization/assign_enc/matrix.py',
      [("                self.max_src_conn_override, self.max_tgt_conn_override,\n            ))", "            ))")], key='existence-hash-covers:max_src_conn_override'),
    V('key-builtin-hash', 'optimization/assign_enc/matrix.py',
      [("        return hashlib.md5(cache_str.encode('utf-8')).hexdigest()", "        return str(hash(cache_str))")], key='key-is-digest'),
    V('shared-cache-folder', 'optimization/assign_enc/selector.py', [("        sel_cache_folder = 'encoder_cache'", "        sel_cache_folder = 'matrix_cache'")], key='separate-folders'),
    V('zero-shortcut-removed', 'optimization/assign_enc/selector.py',
      [("        if n_mat == 0:\n            return _instantiate_manager(DEFAULT_EAGER_ENCODER())\n", "")], key='zero-matrices-shortcut'),
    V('limits-not-restored', 'optimization/assign_enc/selector.py',
      [("        if not limit_time:\n            self.encoding_timeout, self.n_mat_max_eager, self.limit_dist_corr_time = enc_timeout, n_mme, limit_dc_time\n", "")],
      key='limits-restored'),
]
