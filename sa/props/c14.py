"""C14 The fast selection-choice encoder is sound and covers the design space - structural clauses."""
import ast

from ..rules.match import FnText
from ..model import AnalysisError, norm, walk_no_nested
from ..cfg import build_cfg, node_exprs
from ..astutil import short, call_name
from ..report import fkey
from ..rules import decode, guards, persist, match
from ..rules.common import *

EXPLANATION = (
    'Decides necessary conditions for the fast encoder: (A10) no return-arity mismatch / None dereference in the '
    'fast analyzer and the decode path; (A5) its result tuples carry an instance that passed the feasibility '
    'test; the neighbourhood iterator yields the input value first for every dimension ("already valid => '
    'unchanged" needs the input tried first) and nothing else for a fixed dimension; (A2) the imputation and '
    'graph caches are canonical memos (no history-dependent corrections); (A12f) an override that accepts '
    'mask / is_fixed / exclude forwards them when it delegates to a sibling; the processor excludes a vector '
    'whose connector scenario has no connection set and decodes again; (A9f) time-out / memory errors of the '
    'complete analysis fall back to this encoder.  Not decided: coverage and equality with the complete encoder.'
    ' (A5q) in the candidate loop of the fast encoder an explicit raise while a candidate is built is caught, guarded by the feasibility of the graph built so far or by the inactive marker, and the next choice is applied only to a graph that passed `.feasible` (F24).')


def neighbourhood(ctx, rule='A5n'):
    fn = ctx.fn(f'{FAST}._iter_neighborhood')
    iv = fn.nested.get('_iter_values')
    if iv is None:
        raise AnalysisError('_iter_neighborhood._iter_values vanished')
    ctx.touch(iv)
    cfg = build_cfg(iv)
    yields = [n for n in cfg.nodes if n.ast is not None and any(isinstance(x, (ast.Yield, ast.YieldFrom)) for e in node_exprs(n)
                                                                if e is not None for x in walk_no_nested(e))]
    if not yields:
        raise AnalysisError('_iter_values: no yield')
    # first yield on every path yields the current value of that dimension
    firsts = []
    seen = set()
    stack = [cfg.entry]
    while stack:
        n = stack.pop()
        if n.id in seen:
            continue
        seen.add(n.id)
        if n in yields:
            firsts.append(n)
            continue
        stack += [m for m, _ in n.succ]
    p = iv.params[0]
    ok = len(firsts) == 1
    detail = ''
    if ok:
        y = [x for x in ast.walk(firsts[0].ast) if isinstance(x, (ast.Yield, ast.YieldFrom))][0]
        v = y.value
        src = norm(v)
        if isinstance(v, ast.Name):
            defs = [s for s in walk_fn(iv) if isinstance(s, ast.Assign) and norm(s.targets[0]) == v.id]
            src = norm(defs[0].value) if defs else src
        ok = src == f'opt_idx[{p}]'
        detail = f'first yield: {src}'
    ctx.ob(rule, fkey(iv, rule, 'input-value-first'), ok, iv.where,
           'for every dimension the neighbourhood iterator yields the requested value first (a vector that is '
           'already valid is found before any neighbour)', detail)
    # fixed dimension: nothing else
    def fixed_fact(atom, truth):
        return truth is True and isinstance(atom, ast.Subscript) and norm(atom.value) == 'is_fixed'
    ge = cfg.edges_implying(fixed_fact)
    later = [y for y in yields if y not in firsts]
    bad = False
    for (a, b, lab) in ge:
        reach = cfg.reachable([cfg.nodes[b]])
        if any(y.id in reach for y in later):
            bad = True
    ok = bool(ge) and not bad and bool(later)
    ctx.ob(rule, fkey(iv, rule, 'fixed-dimension-stays'), ok, iv.where,
           'for a fixed dimension no other value than the fixed one is ever yielded', f'{len(ge)} guard edge(s), '
           f'{len(later)} later yield(s)')
    # range of neighbours stays inside [0, n_opts) and the search radius reaches the farthest option
    from ..rules import intcmp
    import copy
    def expand(e, depth=4):
        """Local names that are assigned once (also element-wise in a tuple assignment) are replaced by their
        definition: hoisted sub-expressions and flag variables are read through."""
        return expand_locals(iv, e, depth=depth)

    dist_loops = [x for x in ast.walk(iv.node) if isinstance(x, ast.For) and isinstance(x.iter, ast.Call) and
                  isinstance(x.iter.func, ast.Name) and x.iter.func.id == 'range' and isinstance(x.target, ast.Name)]
    dname = dist_loops[0].target.id if dist_loops else 'dist'

    def val(e, n_, cur_, d_):
        return intcmp.holds(expand(e), lambda x: False, None,
                            {f'opt_idx[{p}]': cur_, f'n_opts[{p}]': n_, 'self.n_opts[' + p + ']': n_, dname: d_})
    samples = [(n_, c_, d_) for n_ in range(1, 6) for c_ in range(n_) for d_ in range(1, n_ + 1)]

    def emitted(nd):
        out = []
        for e in node_exprs(nd):
            if e is None:
                continue
            for x in walk_no_nested(e):
                if isinstance(x, ast.Yield) and x.value is not None:
                    out.append(x.value)
                if isinstance(x, ast.Call) and call_name(x) == 'append' and len(x.args) == 1:
                    out.append(x.args[0])
        return out
    sinks = {'+': [], '-': []}
    for nd in cfg.nodes:
        if nd.ast is None or nd in firsts:
            continue
        for e in emitted(nd):
            try:
                v_ = val(e, 100, 10, 3)
            except (intcmp.NotSimple, TypeError):
                continue
            if v_ == 13:
                sinks['+'].append(nd)
            elif v_ == 7:
                sinks['-'].append(nd)
    if not sinks['+'] or not sinks['-']:
        raise AnalysisError('A5n: neighbour values (current value +/- distance) not recognised in _iter_values')

    def exact(side):
        def fact(atom, truth):
            try:
                return all((bool(val(atom, n_, c_, d_)) == truth) ==
                           ((c_ + d_ < n_) if side == '+' else (c_ - d_ >= 0)) for n_, c_, d_ in samples)
            except (intcmp.NotSimple, TypeError):
                return False
        return fact
    ok = guards.check_guarded(ctx, rule, iv, sinks['+'], exact('+'), set(), 'neighbours-in-range:upper',
                              'a neighbour above the requested value is yielded exactly when it is below the number '
                              'of options of that dimension')
    ok = guards.check_guarded(ctx, rule, iv, sinks['-'], exact('-'), set(), 'neighbours-in-range:lower',
                              'a neighbour below the requested value is yielded exactly when it is not negative '
                              '(option 0 included)')
    loops = [x for x in ast.walk(iv.node) if isinstance(x, ast.For) and isinstance(x.iter, ast.Call) and
             isinstance(x.iter.func, ast.Name) and x.iter.func.id == 'range']
    ok = False
    detail = 'distance loop not found'
    if loops and len(loops[0].iter.args) == 2:
        start, stop = loops[0].iter.args
        cur = [a for a in walk_fn(iv) if isinstance(a, ast.Assign) and norm(a.value) == f'opt_idx[{p}]']
        cur_name = norm(cur[0].targets[0]) if cur else 'i_current'
        ok = True
        try:
            for n_ in range(1, 7):
                for i_ in range(n_):
                    env = {cur_name: i_, f'n_opts[{p}]': n_, f'opt_idx[{p}]': i_}
                    lo_ = intcmp._const(expand(start), env)
                    hi_ = _num_expr(expand(stop), env)
                    far = max(i_, n_ - 1 - i_)
                    if lo_ > 1 or hi_ - 1 < far:
                        ok = False
                        detail = f'with {n_} options and current value {i_} the distance loop range({lo_}, {hi_}) ' \
                                 f'never reaches distance {far}: option {0 if i_ >= n_ - 1 - i_ else n_ - 1} is ' \
                                 f'never tried'
            if ok:
                detail = f'range({short(start)}, {short(stop)}) reaches the farthest option for all sampled sizes'
        except intcmp.NotSimple as e:
            raise AnalysisError(f'A5n: unrecognised distance bound ({e})')
    ctx.ob(rule, fkey(iv, rule, 'radius-covers-all-options'), ok, iv.where,
           'the neighbourhood of a dimension reaches every option value: the distance loop runs at least up to the '
           'farthest option from the requested value', detail)
    # zero dimensions
    cfg2 = build_cfg(fn)
    t = [n for n in cfg2.nodes if n.kind == 'test' and 'len(opt_idx) == 0' in norm(n.ast)]
    ok = bool(t)
    ctx.ob(rule, fkey(fn, rule, 'zero-dimensions'), ok, fn.where,
           'a graph without selection choices yields exactly the empty vector (the decode loop runs once)', '')


def _num_expr(e, env):
    from ..rules import intcmp
    if isinstance(e, ast.Call) and isinstance(e.func, ast.Name) and e.func.id in ('max', 'min'):
        vals = [_num_expr(a, env) for a in e.args]
        return max(vals) if e.func.id == 'max' else min(vals)
    if isinstance(e, ast.BinOp) and isinstance(e.op, (ast.Add, ast.Sub)):
        a, b = _num_expr(e.left, env), _num_expr(e.right, env)
        return a + b if isinstance(e.op, ast.Add) else a - b
    return intcmp._const(e, env)


def forwarding(ctx, rule='A12f'):
    """Delegating overrides forward the correction controls."""
    n = 0
    for ckey in (FAST, BASE):
        cls = ctx.prog.cls(ckey)
        for m in cls.methods.values():
            ps = set(m.params) & {'mask', 'is_fixed', 'exclude'}
            if not ps:
                continue
            for c in calls(m):
                if not (isinstance(c.func, ast.Attribute) and isinstance(c.func.value, ast.Name) and
                        c.func.value.id == 'self'):
                    continue
                tgt = ctx.prog.find_method(cls, c.func.attr)
                if tgt is None or tgt is m:
                    continue
                common = ps & set(tgt.params)
                if not common:
                    continue
                passed = {kw.arg for kw in c.keywords if kw.arg in common and norm(kw.value) == kw.arg}
                off = 1
                for i, a in enumerate(c.args):
                    if i + off < len(tgt.params) and isinstance(a, ast.Name) and a.id == tgt.params[i + off]:
                        passed.add(a.id)
                n += 1
                ctx.touch(m)
                ctx.ob(rule, fkey(m, rule, f'forwards-to:{c.func.attr}'), passed >= common,
                       f'{m.module.relpath}:{c.lineno}',
                       f'{m.qualname} accepts {sorted(common)} and delegates to {c.func.attr}: each of them is '
                       f'forwarded (a dropped control makes the delegate correct differently)',
                       f'forwarded {sorted(passed)}: {short(c, 100)}')
    return n


def redecode(ctx, rule='A5x'):
    fn = ctx.fn(f'{GP}.get_graph')
    cfg = build_cfg(fn)
    adds = guards.call_nodes(cfg, 'add', pred=lambda c: '_excluded_cache' in norm(c.func))
    ok = bool(adds)
    detail = 'no exclusion of the infeasible vector'
    if ok:
        a = adds[0]
        nxt = [m for m, _ in a.succ]
        ok = any(m.kind == 'stmt' and isinstance(m.ast, ast.Return) and 'self.get_graph(' in norm(m.ast)
                 for m in nxt)
        detail = f'L{a.lineno}: {short(a.ast)} then {short(nxt[0].ast) if nxt else "?"}'
        guards.check_guarded(ctx, rule, fn, adds,
                             guards.none_fact('i_comb', True), set(), 'exclusion-only-without-comb-index',
                             'a vector is put on the exclusion list only when no combination index is known '
                             '(fast encoder); with the complete encoder an infeasible scenario is an error')
        key_ok = 'tuple(sel_choice_opt_idx)' in norm(a.ast)
        ctx.ob(rule, fkey(fn, rule, 'excluded-key-is-imputed-selection'), key_ok, f'{fn.module.relpath}:{a.lineno}',
               'the excluded key is the imputed selection vector returned by the analyzer (the form the analyzer '
               'compares against)', short(a.ast))
    ctx.ob(rule, fkey(fn, rule, 'redecode-after-exclusion'), ok, fn.where,
           'when the connector scenario of the decoded selection admits no connection set, the selection vector '
           'is excluded and the decode is repeated', detail)
    for c in calls(fn, pred=lambda c: isinstance(c.func, ast.Attribute) and
                   c.func.attr in ('get_graph', 'get_opt_idx') and '_hierarchy_analyzer' in norm(c.func.value)):
        ex = kwarg(c, 'exclude')
        ctx.ob(rule, fkey(fn, rule, f'exclusion-list-passed:{c.func.attr}'),
               ex is not None and is_self_attr(ex, '_excluded_cache'), f'{fn.module.relpath}:{c.lineno}',
               'the analyzer receives the processor\'s exclusion list', short(c, 120))
        fx = kwarg(c, 'is_fixed')
        ctx.ob(rule, fkey(fn, rule, f'is-fixed-passed:{c.func.attr}'), fx is not None and norm(fx) == 'is_fixed',
               f'{fn.module.relpath}:{c.lineno}', 'the analyzer receives the fixed-dimension flags', short(c, 120))


def candidate_errors(ctx, rule='A5q'):
    """The fast encoder decodes by trying the given vector and then its neighbours, which are arbitrary vectors of
    the declared space: one that selects an option which necessarily confirms two incompatible nodes gives an
    infeasible graph in which the remaining choices are never activated.  Such a candidate has to reach the
    feasibility test of the loop (rejected, next one tried); an explicit error raised while a candidate is built
    ends the decode of a feasible design space.  Every `raise` in the loop body and in the helpers of the unit the
    loop body calls is therefore (a) of a type the loop catches, (b) guarded by the feasibility of the graph built so
    far, or (c) guarded by the candidate holding the inactive marker (not a value of the declared space)."""
    fn = ctx.fn(f'{FAST}.get_graph')
    loops = [s for s in walk_no_nested(fn.node) if isinstance(s, ast.For) and
             any(isinstance(c, ast.Call) and call_name(c) == '_iter_neighborhood' for c in ast.walk(s.iter))]
    if len(loops) != 1:
        raise AnalysisError(f'{rule} {fn.key}: expected one loop over the neighbourhood iterator, found {len(loops)}')
    loop = loops[0]
    unit = {f.node.name: f for f in unit_functions(ctx.prog, fn) if f is not fn}
    body_nodes = [n for st in loop.body for n in walk_no_nested(st)]
    attempt, frontier = {}, [call_name(c) for c in body_nodes if isinstance(c, ast.Call)]
    while frontier:
        nm = frontier.pop()
        if nm in unit and nm not in attempt and nm != '_iter_neighborhood':
            attempt[nm] = unit[nm]
            frontier += [call_name(c) for c in walk_no_nested(unit[nm].node) if isinstance(c, ast.Call)]
    if not attempt:
        raise AnalysisError(f'{rule} {fn.key}: the candidate loop builds no graph through a function of the unit')
    caught = set()
    for t in body_nodes:
        if isinstance(t, ast.Try) and any(isinstance(c, ast.Call) and call_name(c) in attempt
                                          for st in t.body for c in ast.walk(st)):
            for h in t.handlers:
                caught |= set(handler_type_names(h))

    def guard(atom, truth):
        if truth is True and isinstance(atom, ast.Attribute) and atom.attr == 'feasible' and \
                isinstance(atom.value, ast.Name):
            return True
        if isinstance(atom, ast.Compare) and len(atom.ops) == 1 and \
                isinstance(atom.ops[0], (ast.Eq, ast.NotEq)) and \
                any(norm(x) == 'X_INACTIVE_VALUE' or guards.is_minus_one(x)
                    for x in (atom.left, atom.comparators[0])):
            return truth is isinstance(atom.ops[0], ast.Eq)
        return False

    n = 0
    for g, inside in [(f, None) for f in attempt.values()] + [(fn, loop)]:
        scope = walk_no_nested(g.node) if inside is None else body_nodes
        raises = [r for r in scope if isinstance(r, ast.Raise)]
        if not raises:
            continue
        cfg = build_cfg(g)
        tested = {a.value.id for a in walk_no_nested(g.node) if isinstance(a, ast.Attribute) and
                  a.attr == 'feasible' and isinstance(a.value, ast.Name)}
        for i, r in enumerate(raises):
            if r.exc is None:
                raise AnalysisError(f'{rule} {g.key}: bare re-raise at L{r.lineno} not understood')
            tname = norm(r.exc.func) if isinstance(r.exc, ast.Call) else norm(r.exc)
            n += 1
            key = f'candidate-error:{g.node.name}:{tname}#{i}'
            desc = ('an explicit error while a candidate vector of the neighbourhood is built is raised only for a '
                    'graph that is still feasible (an infeasible candidate is rejected by the loop and the next one '
                    'tried), for a candidate holding the inactive marker, or is of a type the loop catches')
            if tname in caught or '<bare>' in caught or 'Exception' in caught:
                ctx.ob(rule, fkey(g, rule, key), True, f'{g.module.relpath}:{r.lineno}', desc,
                       f'{tname} is caught by the candidate loop')
                continue
            sinks = [nd for nd in cfg.nodes if nd.kind == 'stmt' and nd.ast is r]
            guards.check_guarded(ctx, rule, g, sinks, guard, tested, key, desc)
    # the next choice of a candidate is applied only to a graph that passed the feasibility test: an infeasible
    # graph still reports choices as active whose nodes the failed derivation removed
    for g in list(attempt.values()) + [fn]:
        cfg = build_cfg(g)
        applies = [nd for nd in cfg.nodes if any(
            isinstance(c, ast.Call) and call_name(c) == 'get_for_apply_selection_choice' and
            isinstance(c.func, ast.Attribute) and isinstance(c.func.value, ast.Name)
            for e in node_exprs(nd) if e is not None for c in ast.walk(e))]
        for nd in applies:
            recv = next(c.func.value.id for e in node_exprs(nd) if e is not None for c in ast.walk(e)
                        if isinstance(c, ast.Call) and call_name(c) == 'get_for_apply_selection_choice')
            n += 1
            guards.check_guarded(ctx, rule, g, [nd], decode._feasible_fact(recv), {recv},
                                 f'candidate-step-on-feasible-graph:{g.node.name}',
                                 f'while a candidate vector is built the next selection choice is applied to '
                                 f'`{recv}` only after its `.feasible` test succeeded (an infeasible intermediate '
                                 f'graph ends the construction; the loop rejects the candidate)')
    return n


def linked_collapse(ctx, rule='A5l'):
    fn = ctx.fn(f'{FAST}._get_selection_choice_is_forced')
    txt = FnText(ctx, fn)
    # the stores that force a choice address `<positions>[1:]` (directly, or through a loop over it), and <positions>
    # is sorted: the member that keeps its variable is the first one in choice order
    unit = unit_functions(ctx.prog, fn)
    fstores = [a_ for a_ in walk_fn(fn) if isinstance(a_, ast.Assign) and isinstance(a_.targets[0], ast.Subscript) and
               isinstance(a_.value, ast.Constant) and a_.value.value is True and
               norm(a_.targets[0].value).endswith('is_forced')]

    def tail_of(e):
        # `<name>[1:]` -> name
        if isinstance(e, ast.Subscript) and isinstance(e.slice, ast.Slice) and e.slice.upper is None and \
                e.slice.step is None and isinstance(e.slice.lower, ast.Constant) and e.slice.lower.value == 1 and \
                isinstance(e.value, ast.Name):
            return e.value.id
        return None
    def resolve(e, f, depth=3):
        """Definitions of an expression: names bound by a loop over a private generator helper are replaced by what
        the helper yields at that position, single-assignment names by their value (in the function they belong to)."""
        if not isinstance(e, ast.Name) or depth == 0:
            return [(e, f)]
        ds = [a_.value for a_ in walk_fn(f) if isinstance(a_, ast.Assign) and norm(a_.targets[0]) == e.id]
        if ds:
            return [x for d in ds for x in resolve(d, f, depth - 1)]
        for lp in ast.walk(f.node):
            if not isinstance(lp, ast.For):
                continue
            if isinstance(lp.target, ast.Name) and lp.target.id == e.id:
                # `for i in <positions>[1:]` / `for i in <name>`
                return [('elem', x, g) for x, g in resolve(lp.iter, f, depth - 1)]
            if isinstance(lp.target, ast.Tuple) and isinstance(lp.iter, ast.Call):
                names = [norm(t_) for t_ in lp.target.elts]
                h = next((u for u in unit[1:] if u.name == call_name(lp.iter)), None)
                if e.id in names and h is not None:
                    k = names.index(e.id)
                    out = []
                    for y in ast.walk(h.node):
                        if isinstance(y, ast.Yield) and isinstance(y.value, ast.Tuple) and len(y.value.elts) > k:
                            out += resolve(y.value.elts[k], h, depth - 1)
                    return out
        return [(e, f)]

    def is_sorted_positions(x, f):
        return all(isinstance(d, ast.Call) and call_name(d) == 'sorted' for d, _ in resolve(x, f)) if \
            isinstance(x, ast.Name) else (isinstance(x, ast.Call) and call_name(x) == 'sorted')
    ok = bool(fstores) and 'ChoiceConstraintType.LINKED' in txt
    for a_ in fstores:
        idx = a_.targets[0].slice
        good = False
        for r in resolve(idx, fn):
            # the index is `<positions>[1:]`, or an element of a loop over it
            e_, f_ = (r[1], r[2]) if r[0] == 'elem' else r
            if isinstance(e_, ast.Subscript) and tail_of(e_) is not None:
                good = is_sorted_positions(e_.value, f_)
            else:
                good = False
            if not good:
                break
        ok = ok and good
    ctx.ob(rule, fkey(fn, rule, 'linked-all-but-first-forced'), ok, fn.where,
           'for a LINKED constraint every choice but the first (in choice order) is forced, i.e. exactly one '
           'design variable represents the linked group', '')
    # one variable can stand for the whole linked group only if the choice that keeps its variable exists whenever
    # another member of the group does: the collapse has to be conditional on something about that first choice
    cfg = build_cfg(fn)
    stores = [n for n in cfg.nodes if n.kind == 'stmt' and isinstance(n.ast, ast.Assign) and
              isinstance(n.ast.targets[0], ast.Subscript) and isinstance(n.ast.value, ast.Constant) and
              n.ast.value.value is True and norm(n.ast.targets[0].value).endswith('is_forced')]
    firsts = {'i_choices[0]'} | {norm(a.targets[0]) for a in walk_fn(fn) if isinstance(a, ast.Assign) and
                                 'i_choices[0]' in norm(a.value)}
    if stores:
        guards.check_guarded(ctx, rule, fn, stores,
                         lambda atom, truth: any(f in norm(atom) for f in firsts), [],
                         'collapse-only-if-representative-always-active',
                         'the dependent choices of a LINKED group lose their variable only under a test about the '
                         'choice that keeps it (it must be active whenever a dependent one is; otherwise the dependent '
                         'choice is free in architectures without the first one and some of them become unreachable)')
    tests = [s for s in walk_fn(fn) if isinstance(s, ast.If) and 'ChoiceConstraintType' in norm(s.test)]
    ok = bool(tests) and all(norm(t.test) == 'choice_constraint.type == ChoiceConstraintType.LINKED' for t in tests)
    ctx.ob(rule, fkey(fn, rule, 'only-linked-collapses'), ok, fn.where,
           'only LINKED constraints remove design variables (other constraint types keep one variable per choice)',
           '; '.join(norm(t.test) for t in tests))


def size_products(ctx, rule='A22'):
    """Declared design-space sizes are products of option counts that exceed 64 bits for quite ordinary graphs (64 binary
    choices): every such product in the analyzers, the processor and the encoders is taken in floating point (the code
    base's convention, 9 sites) - never with a fixed-width integer dtype, which wraps silently (to 0 for a multiple of
    2**64, read as "no feasible design")."""
    n = 0
    for fn in ctx.prog.all_functions():
        if not fn.module.name.startswith('adsg_core.optimization'):
            continue
        for c in calls(fn, 'prod'):
            if not (isinstance(c.func, ast.Attribute) and norm(c.func.value) in ('np', 'numpy')) or not c.args:
                continue
            if not any(w in norm(c.args[0]) for w in ('n_opts', 'options')):
                continue
            dt = kwarg(c, 'dtype')
            n += 1
            ctx.touch(fn)
            bad = dt is not None and norm(dt) in ('int', 'np.int64', 'np.int32', 'np.int_', 'np.uint64', 'np.intp')
            ctx.ob(rule, fkey(fn, rule, f'size-product-not-fixed-width:{short(c.args[0], 30)}'), not bad,
                   f'{fn.module.relpath}:{c.lineno}',
                   'a product of option counts is not taken in a fixed-width integer type (it wraps for large design '
                   'spaces)', short(c, 80))
    return n


def check(ctx):
    size_products(ctx)
    ctx.floor('A22', 5, 'design-space size products')
    fast_cls = ctx.prog.cls(FAST)
    fns = [f for f in ctx.prog.all_functions() if f.module.name in (
        'adsg_core.optimization.hierarchy.fast', 'adsg_core.optimization.hierarchy.base')]
    gp = [f for f in ctx.prog.all_functions() if f.key.startswith(f'{GP}.get_graph') or
          f.key.startswith(f'{GP}._get_hierarchy_analyzer')]
    decode.crash_shapes(ctx, fns + gp)
    decode.feasible_return(ctx)
    decode.fallback_to_fast(ctx)
    neighbourhood(ctx)
    forwarding(ctx)
    redecode(ctx)
    from .c11 import open_choice_connectors as _occ
    _occ(ctx)      # partial graphs of the candidate loop are judged by `.feasible`
    candidate_errors(ctx)
    ctx.floor('A5q', 3, 'explicit errors while a candidate vector is built')
    linked_collapse(ctx)
    roots = [ctx.fn(f'{GP}.get_graph')]
    sl, _ = decode.decode_slice(ctx)
    ps = persist.Persist(ctx, roots, sl)
    ps.check_writes()
    ctx.floor('A10a', 3, 'destructured calls in the analyzers')
    ctx.floor('A12f', 2, 'delegating overrides')
    ctx.floor('A1', 10, 'persistent stores on the decode slice')
    # memoised answers on the decode path: the key covers every parameter the stored answer depends on
    from ..rules import persist as _ps
    _ps.check_decode_memos(ctx)
    from ..rules import shared as _shm
    _shm.check_class_level_containers(ctx)
    # the record of automatically taken choices is class-level state: it is read only right after the apply that wrote it
    from . import c07 as _c07
    _c07.fast_records_auto_taken(ctx)
    ctx.floor('A11m', 3, 'mutable containers created in class bodies')
    from ..rules import shapes as _shr
    _shr.check_sibling_reductions(ctx)
    from ..rules import indexspace as _ix14
    _ix14.check_index_spaces(ctx, [f'{GP}.get_graph', f'{GP}._update_comb_fixed_mask'])
    _ix14.check_translation(ctx)


from ..selftest import V  # noqa: E402

VARIANTS = [
    V('infeasible-candidate-is-an-error', 'optimization/hierarchy/fast.py',
      [("            if graph.feasible and len([node for node in graph.choice_nodes", "            if len([node for node in graph.choice_nodes")],
      key='candidate-error'),
    V('infeasible-candidate-keeps-stepping', 'optimization/hierarchy/fast.py',
      [("                if not graph.feasible:\n                    break\n\n", "")], key='candidate-step-on-feasible-graph'),
    V('infeasible-candidate-loop-condition', 'optimization/hierarchy/fast.py',
      [("            while True:\n                # An infeasible graph cannot be completed: it is rejected below and the next neighbor is tried\n                if not graph.feasible:\n                    break\n\n",
        "            while graph.feasible:\n")], expect='silent', why='the feasibility test as the loop condition'),
    V('infeasible-candidate-returned-early', 'optimization/hierarchy/fast.py',
      [("                if not graph.feasible:\n                    break\n\n", "                if not graph.feasible:\n                    return tuple(taken_sel_opt), graph\n\n")],
      expect='silent', why='early return of the infeasible graph instead of break'),
    V('constraint-without-open-choice-indexed', 'optimization/hierarchy/fast.py',
      [("            i_choices = sorted([i_choice_nodes[node] for node in choice_constraint.nodes if node in i_choice_nodes])\n            if len(i_choices) <= 1:\n                continue\n",
        "            if len(choice_constraint.nodes) <= 1:\n                continue\n            i_choices = sorted([i_choice_nodes[node] for node in choice_constraint.nodes if node in i_choice_nodes])\n")], key='A10e'),
    V('exclusion-set-shared-by-all-processors', 'optimization/graph_processor.py',
      [("    _n_combs_cutoff = 1e9\n", "    _n_combs_cutoff = 1e9\n    _excluded_cache: Set[Tuple[int, ...]] = set()\n"), ("        self._excluded_cache = set()\n", "")], key='A11m'),
    V('zero-choice-arity', 'optimization/hierarchy/fast.py',
      [("                return tuple(), graph.copy()\n", "                return graph.copy()\n")], key='_get_graph'),
    V('none-deref', 'optimization/hierarchy/fast.py',
      [("if graph_instance is None or not graph_instance.feasible:", "if not graph_instance.feasible:")], key='graph_instance'),
    V('exclude-dropped', 'optimization/hierarchy/fast.py',
      [("self.get_graph(opt_idx, mask=mask, is_fixed=is_fixed, exclude=exclude)", "self.get_graph(opt_idx, mask=mask, is_fixed=is_fixed)")],
      key='forwards-to:get_graph'),
    V('is-fixed-dropped', 'optimization/hierarchy/fast.py',
      [("self.get_graph(opt_idx, mask=mask, is_fixed=is_fixed, exclude=exclude)", "self.get_graph(opt_idx, mask=mask, exclude=exclude)")],
      key='forwards-to:get_graph'),
    V('stale-keys', 'optimization/hierarchy/fast.py',
      [("        self._imputation_cache[opt_idx_try] = outputs\n        self._imputation_cache[opt_idx_imp] = outputs\n",
        "        for key in tried:\n            self._imputation_cache[key] = outputs\n")], key='_imputation_cache'),
    V('neighbour-first', 'optimization/hierarchy/fast.py',
      [("            i_current = opt_idx[i_dv]\n            yield i_current\n            if is_fixed[i_dv]:\n                return\n",
        "            i_current = opt_idx[i_dv]\n            if is_fixed[i_dv]:\n                yield i_current\n                return\n            if i_current+1 < n_opts[i_dv]:\n                yield i_current+1\n            yield i_current\n")],
      key='input-value-first'),
    V('fixed-dimension-moves', 'optimization/hierarchy/fast.py',
      [("            if is_fixed[i_dv]:\n                return\n", "")], key='fixed-dimension-stays'),
    V('no-redecode', 'optimization/graph_processor.py',
      [("                    self._excluded_cache.add(tuple(sel_choice_opt_idx))\n                    return self.get_graph(des_var_values_in, create=create)\n", "                    self._excluded_cache.add(tuple(sel_choice_opt_idx))\n                    raise RuntimeError('Infeasible graph specified!')\n")],
      key='redecode-after-exclusion'),
    V('linked-keeps-all-variables', 'optimization/hierarchy/fast.py',
      [("                    for i_dep in i_choices[1:]:\n                        is_forced[i_dep] = True\n", "                    pass\n")],
      key='linked-all-but-first-forced'),
    V('infeasible-returned', 'optimization/hierarchy/fast.py',
      [("        if graph_instance is None or not graph_instance.feasible:\n            raise RuntimeError('No more feasible graphs!')\n", "        if graph_instance is None:\n            raise RuntimeError('No more feasible graphs!')\n")],
      key='result-instance-feasible'),
]
