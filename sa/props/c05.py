"""C05 Decoding is a pure function of graph, fixed values and vector - state clauses."""
from ..rules import decode, persist, invalidate
from ..rules.common import *

EXPLANATION = (
    'Decides the state clauses of purity on the decode/enumerate/statistics slice (call graph from '
    'GraphProcessor.get_graph, get_all_discrete_x, get_n_valid_designs, get_statistics, get_additional_dv_stats): '
    '(A1) every in-place operation that may alias state outliving the call (attributes of the processor, the '
    'analyzers, cached graphs, formals bound to them at a call site) is a canonical memo store, a constant '
    'flag, a lazy initialisation or a tabled exception - so neither the fixed-variable mask nor the vector can '
    'leak into persistent state; (A2) every keyed store into a persistent cache uses the key it looked up or a '
    'key derived from the stored value; (A3) the instance returned by GraphProcessor.get_graph is created in '
    'that call on every path (never an object kept in a cache); (A5inv) every writer of state read by a '
    'memoised method clears the function cache; (A8k) function-cache keys are process-independent digests of '
    'all arguments.  Not decided: value agreement create=True/False, pickle round trip, other hash seeds.'
    " (A3) names whose object was stored into a persistent container count as persistent; (A5a) the -1 marks are overwritten in the function's own copy of the vector.")

ROOTS = ['get_graph', 'get_all_discrete_x', 'get_n_valid_designs', 'get_statistics', 'get_additional_dv_stats']


def check(ctx):
    roots = [ctx.fn(f'{GP}.{r}') for r in ROOTS]
    fns, reach = decode.decode_slice(ctx, extra_roots=[f'{GP}.{r}' for r in ROOTS[1:]], extra_mods=decode.ENC_MODS)
    ps = persist.Persist(ctx, roots, fns)
    n = ps.check_writes()
    ctx.note(f'slice: {len(fns)} functions, {sum(1 for f, v in ps.ctxs.items() if True in v)} with a persistent '
             f'receiver, {len(ps.prov.bind)} formals bound to persistent state')
    ps.check_escape(roots[0], position=0)
    # the managers turn the encoder's vector into (values, activeness) on a copy of their own: the vector may be a row
    # of the encoder's stored table, which later decodes read again
    from ..rules import vectors as _v05
    _v05.manager_contract(ctx)
    persist.check_memo_functions(ctx, [f for f in ctx.prog.all_functions()
                                       if not f.module.name.startswith('adsg_core.examples')])
    from ..rules import shared
    shared.check_constructor_store(ctx)
    invalidate.check_invalidation(ctx, GP)
    invalidate.check_cached_function_key(ctx)
    invalidate.check_unconditional_recompute(ctx, f'{GP}._update_comb_fixed_mask', '_comb_fixed_mask')
    ctx.floor('A1', 12, 'persistent stores on the decode slice (feasibility mask, graph caches, imputation '
                        'caches, exclusion sets)')
    ctx.floor('A11s', 2, 'value containers of a graph never shared between instances')
    ctx.floor('A5inv', 2, 'writers of state read by cached functions')
    from ..rules import shared as _shm
    _shm.check_class_level_containers(ctx)
    _shm.check_degree_recompute(ctx)   # the degree cached on a shared grouping node is recomputed before it is read
    _shm.check_getstate_drops(ctx)     # pickle round trip: only rebuildable caches are left out of the state
    # the record of automatically taken choices is class-level state: it is read only right after the apply that wrote it
    from . import c07 as _c07
    _c07.fast_records_auto_taken(ctx)
    ctx.floor('A11m', 3, 'mutable containers created in class bodies')


from ..selftest import V  # noqa: E402

VARIANTS = [
    V('value-dict-shared-between-instances', 'graph/adsg.py',
      [("(_des_var_values or {}).copy()", "_des_var_values or {}")], key='A11s'),
    V('metric-dict-shared-between-instances', 'graph/adsg.py',
      [("(_metric_values or {}).copy()", "(_metric_values if _metric_values is not None else {})")], key='A11s'),
    V('mask-folded-in-place-get_graph', 'optimization/hierarchy/base.py',
      [("                include_mask = include_mask & mask\n", "                include_mask &= mask\n")],
      key='include_mask'),
    V('mask-folded-in-place-get_opt_idx', 'optimization/hierarchy/base.py',
      [("            include_mask = include_mask & mask\n\n        i_comb, sel_choice_idx", "            include_mask &= mask\n\n        i_comb, sel_choice_idx")],
      key='include_mask'),
    V('cached-instance-returned', 'optimization/graph_processor.py',
      [("        if graph_instance is not None:\n            graph_instance = graph_instance.copy()\n\n        if np.any(dv_node_existence):\n",
        "        if np.any(dv_node_existence):\n            if graph_instance is not None:\n                graph_instance = graph_instance.copy()\n")],
      key='returned-object-fresh'),
    V('stale-keys-memoised', 'optimization/hierarchy/fast.py',
      [("        self._imputation_cache[opt_idx_try] = outputs\n        self._imputation_cache[opt_idx_imp] = outputs\n",
        "        for key in tried:\n            self._imputation_cache[key] = outputs\n")], key='_imputation_cache'),
    V('graph-cache-wrong-key', 'optimization/hierarchy/fast.py',
      [("                graph_cache[cache_key] = graph = graph.get_for_apply_selection_choice(choice_node, option_node)",
        "                graph_cache[tuple(opt_idx_try)] = graph = graph.get_for_apply_selection_choice(choice_node, option_node)")],
      key='graph_cache'),
    V('fix-without-cache-clear', 'optimization/graph_processor.py',
      [("        self._update_comb_fixed_mask()\n        clear_func_cache(self)\n", "        self._update_comb_fixed_mask()\n")],
      key='clears-after-write'),
    V('free-returns-before-clear', 'optimization/graph_processor.py',
      [("            if idx in self._fixed_values:\n                del self._fixed_values[idx]\n", "            if idx in self._fixed_values:\n                del self._fixed_values[idx]\n                self._update_comb_fixed_mask()\n                return\n")],
      key='clears-after-write:_fixed_values'),
    V('des-vars-cached-forever', 'optimization/graph_processor.py',
      [("    @property\n    def des_vars(self) -> List[DesVar]:", "    @cached_property\n    def des_vars(self) -> List[DesVar]:")],
      key='cached-property-reads:_fixed_values'),
    V('func-cache-ignores-kwargs', 'func_cache.py',
      [("        cache_args = b'||'.join((b'__'.join(pickle.dumps(v) for v in args),\n                                 b'__'.join(str(k).encode('utf-8')+b'='+pickle.dumps(v) for k, v in kwargs.items())))",
        "        cache_args = b'||'.join((b'__'.join(pickle.dumps(v) for v in args), b''))")], key='keyword-args'),
    V('func-cache-builtin-hash', 'func_cache.py',
      [("        cache_key = '_cache_'+name+'_'+hashlib.md5(cache_args).hexdigest()[:8]", "        cache_key = '_cache_'+name+'_'+str(hash(cache_args))")],
      key='A8k'),
    V('decode-remembers-vector', 'optimization/graph_processor.py',
      [("        des_var_values_in = des_var_values\n", "        des_var_values_in = self._last_vector = des_var_values\n")], key='_last_vector'),
    V('feasibility-mask-gets-fixed-mask', 'optimization/hierarchy/base.py',
      [("            # Mark as infeasible and try again\n            feasibility_mask[i_comb] = False\n", "            # Mark as infeasible and try again\n            feasibility_mask[i_comb] = False\n            if mask is not None:\n                feasibility_mask[~mask] = mask[~mask]\n")],
      key='feasibility_mask'),
    V('twin-mask-logical-and', 'optimization/hierarchy/base.py',
      [("                include_mask = include_mask & mask\n", "                include_mask = np.logical_and(include_mask, mask)\n")], expect='silent'),
    V('twin-copy-via-get-for-adjusted', 'optimization/graph_processor.py',
      [("        if graph_instance is not None:\n            graph_instance = graph_instance.copy()\n\n        if np.any(dv_node_existence):\n",
        "        if graph_instance is not None:\n            graph_instance = graph_instance.get_for_adjusted()\n\n        if np.any(dv_node_existence):\n")], expect='silent'),
    V('twin-cache-alias-renamed', 'optimization/hierarchy/base.py',
      [("            graph_cache = self._graph_cache\n            cache_key = tuple(choice_opt_idx)\n            if cache_key in graph_cache:\n                return graph_cache[cache_key]",
        "            graph_cache = gc = self._graph_cache\n            cache_key = tuple(choice_opt_idx)\n            if cache_key in gc:\n                return gc[cache_key]")], expect='silent'),
]
