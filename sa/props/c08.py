"""C08 Design space graphs behave as persistent values - write clauses."""
from ..model import AnalysisError
from ..rules import persist, shared
from ..rules.common import *

EXPLANATION = (
    'Decides the write clauses of "deriving a graph never changes an existing graph object": (A1) on the '
    'call-graph slice of the derive operations (copy, get_for_adjusted, get_for_apply_selection_choice, '
    'get_for_apply_connection_choice(s), get_confirmed_graph, initialize_choices, '
    'resolve_single_selection_choices) entered with the existing graph as receiver, no in-place operation may '
    'alias state of the receiver (its multigraph, status array, constraint list, value dictionaries) except '
    'tabled lazy initialisations; (A11s) a container that is mutated in place somewhere is never shared between '
    'an existing and a new graph object; (A11) every store to a field of a (shared) node object is a tabled '
    'site, and the one run-time field cache - the degree of a connector grouping node - is recomputed for the '
    'reading graph before every read; (A11c) class-level state written from methods is tabled.')

ROOTS = ['copy', 'get_for_adjusted', 'get_for_apply_selection_choice', 'get_for_apply_connection_choices',
         'get_for_apply_connection_choice', 'get_confirmed_graph', 'initialize_choices',
         'resolve_single_selection_choices', 'get_ordered_next_choice_nodes', 'get_option_nodes', 'feasible',
         'final']
MODS = ('adsg_core.graph.adsg', 'adsg_core.graph.adsg_basic', 'adsg_core.graph.choices',
        'adsg_core.graph.traversal', 'adsg_core.graph.incompatibility', 'adsg_core.graph.adsg_nodes',
        'adsg_core.graph.influence_matrix', 'adsg_core.graph.choice_constraints', 'adsg_core.graph.graph_edges',
        'adsg_core.graph.sup.dsg')


def check(ctx):
    roots = [ctx.fn(f'{DSG}.{r}') for r in ROOTS]
    reach = ctx.cg.reachable_from(roots, follow_by_name=False)
    fns = [f for f in reach if f.module.name in MODS]
    if len(fns) < 40:
        raise AnalysisError(f'derive slice has only {len(fns)} functions')
    ps = persist.Persist(ctx, roots, fns)
    ps.check_writes()
    ctx.note(f'derive slice: {len(fns)} functions')
    shared.check_constructor_store(ctx)
    # decoding hands out independent objects (an instance kept in a cache would be changed by later decodes)
    from ..rules import decode as _dec
    dfns, _ = _dec.decode_slice(ctx)
    dps = persist.Persist(ctx, [ctx.fn(f'{GP}.get_graph')], dfns)
    dps.check_escape(ctx.fn(f'{GP}.get_graph'), position=0)
    shared.check_node_field_writes(ctx)
    shared.check_degree_recompute(ctx)
    shared.check_class_level_writes(ctx)
    ctx.floor('A11', 8, 'node-field stores and degree consumers')
    ctx.floor('A11c', 5, 'class-level stores')
    ctx.floor('A11s', 2, 'constructor stores of mutated containers')
    from ..rules import shared as _shm
    _shm.check_class_level_containers(ctx)
    ctx.floor('A11m', 3, 'mutable containers created in class bodies')


from ..selftest import V  # noqa: E402

VARIANTS = [
    V('constraint-list-shared-through-helper', 'graph/adsg.py',
      [("        dec_con_map_copy = self._choice_constraints.copy()\n", "        dec_con_map_copy = self._choice_constraints\n")], key='A11s'),
    V('status-array-mutated-in-place', 'graph/adsg.py',
      [("        status_array = self._status_array.copy()\n\n        for choice_node, edges in choice_node_edges:", "        status_array = self._status_array\n\n        for choice_node, edges in choice_node_edges:")],
      key='status_array'),
    V('des-var-values-shared', 'graph/adsg.py',
      [("= (_des_var_values or {}).copy()", "= _des_var_values or {}")], key='_des_var_values'),
    V('metric-values-shared', 'graph/adsg.py',
      [("= (_metric_values or {}).copy()", "= _metric_values or {}")], key='_metric_values'),
    V('constraint-list-shared', 'graph/adsg.py',
      [("        dec_con_map_copy = self._choice_constraints.copy()\n", "        dec_con_map_copy = self._choice_constraints\n")],
      key='_choice_constraints'),
    V('derive-edits-receiver-graph', 'graph/adsg.py',
      [("        graph_copy = graph if inplace else self._get_empty_graph()\n", "        graph_copy = graph\n")],
      key='graph_copy'),
    V('degree-read-without-recompute', 'graph/traversal.py',
      [("        if isinstance(base_conn_node, ConnectorDegreeGroupingNode):\n            base_conn_node.update_deg(graph)\n\n", "")],
      key='degree-recomputed-before'),
    V('assign-nodes-without-recompute', 'graph/adsg_nodes.py',
      [("                if isinstance(conn_node, ConnectorDegreeGroupingNode):\n                    conn_node.update_deg(dsg.graph)\n", "                pass\n")],
      key='to_assign_node'),
    V('new-node-field-store', 'graph/choices.py',
      [("    removed_nodes.add(choice_node)\n\n    # Process incompatibility constraints", "    removed_nodes.add(choice_node)\n    target_option_node.option_id = 0\n\n    # Process incompatibility constraints")],
      key='node-field-store:option_id'),
    V('new-class-level-state', 'graph/adsg.py',
      [("        status_array = self._influence_matrix.apply_selection_choice(\n            self._status_array, choice_node, target_option_node)\n",
        "        status_array = self._influence_matrix.apply_selection_choice(\n            self._status_array, choice_node, target_option_node)\n        self.__class__._last_status = status_array\n")],
      key='_last_status'),
    V('apply-choice-in-place', 'graph/influence_matrix.py',
      [("        status_array = status_array.copy()\n        i_choice_apply = self.matrix_diagonal_nodes_idx[choice_node]\n        i_opt_apply", "        i_choice_apply = self.matrix_diagonal_nodes_idx[choice_node]\n        i_opt_apply")],
      key='status_array'),
    V('twin-copy-dict-ctor', 'graph/adsg.py',
      [("= (_metric_values or {}).copy()", "= dict(_metric_values or {})")], expect='silent'),
    V('twin-constraints-list-copy', 'graph/adsg.py',
      [("        dec_con_map_copy = self._choice_constraints.copy()\n", "        dec_con_map_copy = list(self._choice_constraints)\n")],
      expect='silent'),
]
