"""C19 The time limiter returns, raises or times out - and leaves nothing running - structure only."""
import ast

from ..model import AnalysisError, norm, walk_no_nested
from ..cfg import build_cfg
from ..flow import Slice
from ..astutil import short, call_name
from ..report import fkey
from ..rules import guards
from ..rules.common import *

META = {'technique': 'static analysis: CFG reachability / dominance and data-flow origins over the time limiter (inlined view of extracted helpers); caller exception-handling rule'}

EXPLANATION = (
    'Structure only.  Decided: the asynchronous exception is addressed to the identity of the thread object '
    'obtained *inside* the single pool worker (data flow from pool.apply(current_thread)), never to an identity '
    'taken in the calling thread; the function runs in that same one-worker pool; thread.join() follows the '
    'injection on every path; the only exception swallowed around the timed get() is the pool\'s TimeoutError, so '
    'the function\'s own exception propagates; the success path returns the value of get(timeout=<the limit '
    'argument>); every other exit raises TimeoutError; all callers of run_timeout handle TimeoutError.  NOT '
    'decided and not decidable by static analysis: every schedule-dependent clause (race at the limit, native '
    'blocking, "nothing still running") - these are stated as limits of this check.'
    ' The handler of the pool timeout touches no object of the caller before the worker is interrupted and joined.')


def check(ctx):
    rule = 'A19'
    fn = ctx.fn(f'{TLIM}:run_timeout')
    # the function that holds the one-worker pool: the nested `_inner_run`, or a private module-level helper that is
    # handed the limit, the function and its arguments under the same names
    inner = fn.nested.get('_inner_run')
    if inner is None:
        for h in unit_functions(ctx.prog, fn)[1:]:
            if any(isinstance(w, ast.With) and 'ThreadPool' in norm(w.items[0].context_expr) for w in walk_fn(h)):
                cs = [c for c in calls(fn) if call_name(c) == h.name]
                if cs and [norm(a) for a in cs[0].args] == list(h.params) and not cs[0].keywords:
                    inner = h
    if inner is None:
        raise AnalysisError('run_timeout: the function holding the worker pool (_inner_run) vanished')
    INNER = inner.name
    ctx.touch(inner)
    # statements moved into a void private helper are seen in place (extract-method invariance of the path rules)
    inner = inlined_view(ctx.prog, inner)
    cfg = build_cfg(inner)
    sl = Slice(inner)
    # --- the injected thread identity
    inj = guards.call_nodes(cfg, 'PyThreadState_SetAsyncExc')
    if not inj:
        ctx.ob(rule, fkey(inner, rule, 'interrupt-injected'), False, inner.where,
               'a worker that is still alive after the limit is interrupted with an asynchronous exception',
               'no PyThreadState_SetAsyncExc call')
        return
    call = [c for c in ast.walk(inj[0].ast) if isinstance(c, ast.Call) and call_name(c) == 'PyThreadState_SetAsyncExc'][0]
    ident_expr = call.args[0] if call.args else None
    ident_text = norm(expand_locals(inner, ident_expr)) if ident_expr is not None else ''
    names = {x.id for d_ in range(4) for x in ast.walk(expand_locals(inner, ident_expr, depth=d_))
             if isinstance(x, ast.Name)} if ident_expr is not None else set()
    bad_direct = any(isinstance(c, ast.Call) and call_name(c) in ('get_ident', 'current_thread', 'main_thread',
                                                                  'get_native_id')
                     for c in ast.walk(ident_expr)) if ident_expr is not None else True
    from_worker = False
    detail = f'identity expression: {short(ident_expr)}'
    for nm, v, how, d in sl.origins(ident_expr, inj[0]) if ident_expr is not None else []:
        if v is not None and isinstance(v, ast.Call) and call_name(v) == 'apply' and v.args and \
                ((isinstance(v.args[0], ast.Lambda) and 'current_thread' in norm(v.args[0].body)) or
                 norm(v.args[0]).split('.')[-1] == 'current_thread') and \
                isinstance(v.func, ast.Attribute) and norm(v.func.value) == 'pool':
            from_worker = True
            detail += f'; `{nm}` = {short(v)}'
    ctx.ob(rule, fkey(inner, rule, 'interrupt-addressed-to-worker'), from_worker and not bad_direct and
           '.ident' in ident_text, f'{inner.module.relpath}:{inj[0].lineno}',
           'the asynchronous exception is sent to the ident of the thread object returned by '
           'pool.apply(lambda: threading.current_thread()) - the worker - and not to an identity evaluated in the '
           'calling thread (which would interrupt the caller)', detail)
    exc = expand_locals(inner, call.args[1]) if len(call.args) > 1 else None
    ctx.ob(rule, fkey(inner, rule, 'interrupt-is-keyboardinterrupt'), exc is not None and
           'KeyboardInterrupt' in norm(exc), f'{inner.module.relpath}:{inj[0].lineno}',
           'the injected exception is KeyboardInterrupt (a BaseException: not swallowed by `except Exception` in the '
           'interrupted function)', short(exc) if exc is not None else 'missing')
    # --- same pool, one worker
    withs = [n for n in cfg.nodes if n.kind == 'with']
    pool_call = withs[0].ast.items[0].context_expr if withs else None
    nproc = kwarg(pool_call, 'processes') if isinstance(pool_call, ast.Call) else None
    if nproc is None and isinstance(pool_call, ast.Call) and pool_call.args:
        nproc = pool_call.args[0]
    ok = bool(withs) and isinstance(pool_call, ast.Call) and norm(pool_call.func).endswith('ThreadPool') and \
        isinstance(nproc, ast.Constant) and nproc.value == 1 and \
        norm(withs[0].ast.items[0].optional_vars) == 'pool'
    ctx.ob(rule, fkey(inner, rule, 'single-worker-pool'), ok, inner.where,
           'the pool has exactly one worker, so the thread that answered current_thread() is the thread that runs '
           'the function', short(withs[0].ast.items[0].context_expr) if withs else 'missing')
    runs = [c for c in calls(inner, 'apply_async')]
    def _arg(c, pos, name):
        if len(c.args) > pos:
            return norm(c.args[pos])
        return next((norm(k.value) for k in c.keywords if k.arg == name), None)
    ok = bool(runs) and norm(runs[0].func.value) == 'pool' and _arg(runs[0], 0, 'func') == 'func' and \
        _arg(runs[0], 1, 'args') == 'args' and _arg(runs[0], 2, 'kwds') == 'kwargs'
    ctx.ob(rule, fkey(inner, rule, 'function-runs-in-that-pool'), ok, inner.where,
           'the function is submitted to the same pool with its positional and keyword arguments',
           short(runs[0]) if runs else 'missing')
    # the function is never called directly (outside the pool) by the limiter
    direct = [c for f_ in (fn, inner) for c in calls(f_) if isinstance(c.func, ast.Name) and c.func.id == 'func']
    ctx.ob(rule, fkey(fn, rule, 'function-only-runs-in-pool'), not direct, fn.where,
           'run_timeout never calls the function directly: every execution is the timed one in the pool worker (a '
           'direct call would run without any limit)', f'{len(direct)} direct call(s)' + (f': L{direct[0].lineno}' if direct else ''))
    # --- join after injection
    joins = guards.call_nodes(cfg, 'join', pred=lambda c: isinstance(c.func, ast.Attribute) and
                              norm(c.func.value) in names)
    reach = cfg.reachable([m for m, _ in inj[0].succ], blocked_nodes=joins, labels_excluded=('exc',))
    ok = bool(joins) and cfg.exit.id not in reach and cfg.raise_exit.id not in \
        cfg.reachable([m for m, _ in inj[0].succ], blocked_nodes=joins)
    jcalls = [c for j in joins for c in ast.walk(j.ast) if isinstance(c, ast.Call) and call_name(c) == 'join']
    blocking = bool(jcalls) and all(not c.args and not c.keywords for c in jcalls)
    ctx.ob(rule, fkey(inner, rule, 'join-is-blocking'), blocking, f'{inner.module.relpath}:{inj[0].lineno}',
           'the join after the interrupt has no timeout: the call returns only once the worker thread has ended',
           '; '.join(short(c) for c in jcalls))
    ctx.ob(rule, fkey(inner, rule, 'join-after-interrupt'), ok, f'{inner.module.relpath}:{inj[0].lineno}',
           'after the interrupt was injected the worker thread is joined before the call is left on any path (no '
           'worker outlives the call)', f'{len(joins)} join call(s)')
    alive = cfg.edges_implying(lambda atom, truth: truth is True and isinstance(atom, ast.Call) and
                               call_name(atom) == 'is_alive')
    ok = bool(alive) and not cfg.can_reach(cfg.entry, inj[0], blocked_edges=alive)
    ctx.ob(rule, fkey(inner, rule, 'interrupt-only-if-alive'), ok, inner.where,
           'the interrupt is injected only when the worker thread is still alive', '')
    # --- exception discipline around the timed get
    gets = [c for c in calls(inner, 'get') if kwarg(c, 'timeout') is not None]
    ok = bool(gets) and norm(kwarg(gets[0], 'timeout')) == fn.params[0]
    ctx.ob(rule, fkey(inner, rule, 'timed-get-uses-limit'), ok, inner.where,
           'the result is awaited with timeout=<the limit argument>', short(gets[0]) if gets else 'missing')
    tries = [t for t in try_statements(inner) if any(call_name(c) == 'get' for b in t.body for c in ast.walk(b)
                                                      if isinstance(c, ast.Call))]
    ok = False
    detail = 'no try around get()'
    if tries:
        hs = [nm for h in tries[0].handlers for nm in handler_type_names(h)]
        ok = hs == ['multiprocessing.TimeoutError']
        detail = f'handlers: {hs}'
        ret = [s for s in tries[0].body if isinstance(s, ast.Return)]
        ok2 = bool(ret) and any(call_name(c) == 'get' for c in ast.walk(ret[0]) if isinstance(c, ast.Call))
        ctx.ob(rule, fkey(inner, rule, 'success-returns-result'), ok2, inner.where,
               'when the function finishes in time its result is returned', short(ret[0]) if ret else 'missing')
    # between noticing the timeout and interrupting + joining the worker nothing touches the caller's objects: the
    # timeout handler reads neither the function nor its arguments (an attribute a callable need not have -
    # `func.__name__` of a functools.partial - would raise there, before the worker is stopped)
    if tries:
        user = set(fn.params[1:]) | ({fn.node.args.vararg.arg} if fn.node.args.vararg else set()) | \
            ({fn.node.args.kwarg.arg} if fn.node.args.kwarg else set())
        touched = sorted({x.id for h in tries[0].handlers for st_ in h.body for x in ast.walk(st_)
                          if isinstance(x, ast.Name) and x.id in user})
        ctx.ob(rule, fkey(inner, rule, 'timeout-handler-touches-no-caller-object'), not touched, inner.where,
               'the handler of the pool timeout does not evaluate the function or its arguments (whatever is done '
               'there runs before the worker is interrupted and joined and must not be able to raise on them)',
               f'reads {touched}' if touched else 'handler body: ' + '; '.join(short(st_, 40) for h in tries[0].handlers
                                                                              for st_ in h.body))
    ctx.ob(rule, fkey(inner, rule, 'only-pool-timeout-swallowed'), ok, inner.where,
           'the only exception swallowed around the timed get() is multiprocessing.TimeoutError: an exception of '
           'the function itself propagates to the caller', detail)
    # every path that is not the success return raises TimeoutError
    raises = [n for n in cfg.nodes if n.kind == 'stmt' and isinstance(n.ast, ast.Raise)]
    ok = bool(raises) and all(norm(r_.ast.exc) in ('TimeoutError', 'TimeoutError()') for r_ in raises)
    rets = guards.return_nodes(cfg)
    falls = [p for p, lab in cfg.exit.pred if not (p.kind == 'stmt' and isinstance(p.ast, ast.Return))]
    ctx.ob(rule, fkey(inner, rule, 'otherwise-timeout'), ok and not falls and len(rets) == 1, inner.where,
           'every exit other than the success return raises TimeoutError (there is no silent None result)',
           f'{len(raises)} raise(s), {len(rets)} return(s), {len(falls)} fall-through exit(s)')
    # outer wrapper
    cfgo = build_cfg(fn)
    t = [t for t in try_statements(fn) if any(call_name(c) == INNER for b in t.body for c in ast.walk(b)
                                              if isinstance(c, ast.Call))]
    def _returns_inner(t_):
        # `return _inner_run()` in the try body, or `r = _inner_run()` there and `return r` in its else part
        held = {norm(a.targets[0]) for a in t_.body if isinstance(a, ast.Assign) and isinstance(a.value, ast.Call) and
                call_name(a.value) == INNER}
        return any(isinstance(s_, ast.Return) and isinstance(s_.value, ast.Call) and call_name(s_.value) == INNER
                   for s_ in t_.body) or \
            any(isinstance(s_, ast.Return) and s_.value is not None and norm(s_.value) in held for s_ in t_.orelse)
    ok = bool(t) and [nm for h in t[0].handlers for nm in handler_type_names(h)] == ['TimeoutError'] and \
        _returns_inner(t[0])
    ctx.ob(rule, fkey(fn, rule, 'outer-propagates'), ok, fn.where,
           'the wrapper returns the inner result, swallows only the inner TimeoutError (to drop the frame) and '
           're-raises TimeoutError afterwards', '')
    last = fn.node.body[-1]
    ctx.ob(rule, fkey(fn, rule, 'outer-reraises'), isinstance(last, ast.Raise) and norm(last.exc) == 'TimeoutError',
           fn.where, 'the wrapper ends by raising TimeoutError', short(last))
    # --- callers
    n = 0
    for s in ctx.cg.callers(fn):
        if s.fn.module.name.startswith('adsg_core.tests'):
            continue
        n += 1
        ctx.touch(s.fn)
        from ..astutil import ancestors
        handled = False
        f = s.fn
        node = s.node
        while f is not None and not handled:
            for a in ancestors(f, node):
                if isinstance(a, ast.Try) and any(any(x is node for x in ast.walk(b)) for b in a.body):
                    names_ = [nm for h in a.handlers for nm in handler_type_names(h)]
                    if 'TimeoutError' in names_ or '<bare>' in names_ or 'Exception' in names_:
                        handled = True
            # lambda / nested function: look at the definition site in the parent
            node = f.node
            f = f.parent
        ctx.ob('A9t', fkey(s.fn, 'A9t', f'handles-timeout:{short(s.node, 40)}'), handled, s.where,
               'every caller of run_timeout handles TimeoutError (falls back instead of crashing)',
               'handled' if handled else 'no enclosing handler for TimeoutError')
    ctx.floor('A9t', 4, 'run_timeout call sites')
    ctx.floor('A19', 12, 'structural clauses')


from ..selftest import V  # noqa: E402

VARIANTS = [
    V('interrupts-caller', 'optimization/assign_enc/time_limiter.py',
      [("ctypes.c_long(thread.ident)", "ctypes.c_long(threading.get_ident())")], key='interrupt-addressed-to-worker'),
    V('thread-from-caller', 'optimization/assign_enc/time_limiter.py',
      [("            thread = pool.apply(lambda: threading.current_thread())\n", "            thread = threading.current_thread()\n")],
      key='interrupt-addressed-to-worker'),
    V('no-join', 'optimization/assign_enc/time_limiter.py', [("            thread.join()\n", "")], key='join-after-interrupt'),
    V('broad-handler', 'optimization/assign_enc/time_limiter.py',
      [("            except multiprocessing.TimeoutError:\n                pass", "            except Exception:\n                pass")],
      key='only-pool-timeout-swallowed'),
    V('twin-pool-extra-kwarg', 'optimization/assign_enc/time_limiter.py', [("ThreadPool(processes=1)", "ThreadPool(processes=1, maxtasksperchild=None)")], expect='silent'),
    V('join-with-timeout', 'optimization/assign_enc/time_limiter.py', [("            thread.join()\n", "            thread.join(timeout=seconds)\n")], key='join-is-blocking'),
    V('two-workers', 'optimization/assign_enc/time_limiter.py', [("ThreadPool(processes=1)", "ThreadPool(processes=2)")], key='single-worker-pool'),
    V('wrong-timeout', 'optimization/assign_enc/time_limiter.py', [(".get(timeout=seconds)", ".get(timeout=seconds*10)")], key='timed-get-uses-limit'),
    V('silent-none', 'optimization/assign_enc/time_limiter.py',
      [("            thread.join()\n        raise TimeoutError\n", "            thread.join()\n            raise TimeoutError\n")], key='otherwise-timeout'),
    V('caller-unprotected', 'optimization/assign_enc/selector.py',
      [("        try:\n            matrix_gen = self._get_matrix_gen()\n            n_mat_total = run_timeout(\n                self.encoding_timeout, lambda: matrix_gen.count_all_matrices(max_by_existence=False))\n            n_existence = len(list(matrix_gen.iter_existence()))\n            return n_mat_total, n_existence\n        except TimeoutError:\n            return None, None\n",
        "        matrix_gen = self._get_matrix_gen()\n        n_mat_total = run_timeout(\n            self.encoding_timeout, lambda: matrix_gen.count_all_matrices(max_by_existence=False))\n        n_existence = len(list(matrix_gen.iter_existence()))\n        return n_mat_total, n_existence\n")],
      key='handles-timeout'),
]
